// Demonstration of the open (recorded, not repaired) finding F18 through the public API.
// Copied as tests/open_findings.rs into a scratch worktree of /repo: the test FAILS on the
// current tree (that is the finding).  Documentation only, not part of the static checks.
//
// F18 (C15): a `let` inside a `while` body stays in the parser's variable scope after
// `end while` (the parser opens no frame for `while`, like the interpreter), but at run time
// the name is only bound if the body ran.  When the body runs zero times, a later read of
// that name falls through EvalContext::get to the device outputs.  The parser did not record
// it as an output read, so `try_iter_static` accepts the test although a dynamic run reads
// the output `B`, and the static rows differ from the dynamic ones.
use digital_test_runner::{
    InputEntry, InputValue, OutputEntry, OutputValue, ParsedTestCase, Signal, TestDriver,
};

#[derive(Debug)]
struct E;
impl std::fmt::Display for E {
    fn fmt(&self, f: &mut std::fmt::Formatter<'_>) -> std::fmt::Result {
        write!(f, "E")
    }
}
impl std::error::Error for E {}

struct Const<'s>(&'s [Signal], i64);
impl<'s> TestDriver for Const<'s> {
    type Error = E;
    fn write_input_and_read_output(
        &mut self,
        _inputs: &[InputEntry<'_>],
    ) -> Result<Vec<OutputEntry<'_>>, E> {
        Ok(self
            .0
            .iter()
            .filter(|s| s.is_output())
            .map(|s| OutputEntry { signal: s, value: OutputValue::Value(self.1) })
            .collect())
    }
}

const SRC: &str = "A B\nlet i = 0;\nwhile (i < 0)\nlet B = 1;\nend while\n(B) X\n";

#[test]
fn f18_static_iteration_accepts_a_program_that_reads_an_output() {
    let tc = SRC
        .parse::<ParsedTestCase>()
        .unwrap()
        .with_signals(vec![Signal::input("A", 8, 0), Signal::output("B", 8)])
        .unwrap();
    // dynamic runs: the row's input A is whatever the device reports for B
    let sigs = tc.signals.clone();
    let mut seen = vec![];
    for v in [5, 9] {
        let mut d = Const(&sigs, v);
        let rows: Vec<_> = tc.try_iter(&mut d).unwrap().collect();
        assert_eq!(rows.len(), 1);
        let row = rows.into_iter().next().unwrap().unwrap();
        seen.push(row.inputs[0].value);
    }
    assert_eq!(seen, vec![InputValue::Value(5), InputValue::Value(9)]);
    // the rows depend on the driver, so the test is not static
    assert!(
        tc.try_iter_static().is_err(),
        "try_iter_static accepted a test whose rows depend on the device output B"
    );
}
