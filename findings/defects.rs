// Demonstrations of the genuine defects F1..F17 (DESIGN.md section 7) through the
// public API.  Copied as tests/defects.rs into a scratch worktree of /repo:
// every test fails on the pinned tree (11f83aa) and passes after the fix: commits.
// This file is documentation of the findings, not part of the static checks.
use digital_test_runner::{
    dig, InputEntry, InputValue, OutputEntry, OutputValue, ParsedTestCase, Signal, TestDriver,
};
use std::panic::{catch_unwind, AssertUnwindSafe};

#[derive(Debug)]
struct E;
impl std::fmt::Display for E {
    fn fmt(&self, f: &mut std::fmt::Formatter<'_>) -> std::fmt::Result {
        write!(f, "E")
    }
}
impl std::error::Error for E {}

/// Driver answering from a script of output vectors (signal, value); records inputs.
struct Scripted<'s> {
    sigs: &'s [Signal],
    script: Vec<Vec<(usize, OutputValue)>>,
    call: usize,
    seen: Vec<Vec<InputValue>>,
}
impl<'s> TestDriver for Scripted<'s> {
    type Error = E;
    fn write_input_and_read_output(
        &mut self,
        inputs: &[InputEntry<'_>],
    ) -> Result<Vec<OutputEntry<'_>>, E> {
        self.seen.push(inputs.iter().map(|i| i.value).collect());
        let idx = self.call.min(self.script.len() - 1);
        self.call += 1;
        Ok(self.script[idx]
            .iter()
            .map(|(s, v)| OutputEntry { signal: &self.sigs[*s], value: *v })
            .collect())
    }
}

fn run_rows(src: &str, signals: Vec<Signal>) -> Result<Vec<(Vec<InputValue>, usize)>, String> {
    let tc = src.parse::<ParsedTestCase>().map_err(|e| format!("parse: {e:?}"))?;
    let tc = tc.with_signals(signals).map_err(|e| format!("signals: {e:?}"))?;
    let sigs = tc.signals.clone();
    let outs: Vec<(usize, OutputValue)> = sigs
        .iter()
        .enumerate()
        .filter(|(_, s)| s.is_output())
        .map(|(i, _)| (i, OutputValue::Value(0)))
        .collect();
    let mut d = Scripted { sigs: &sigs, script: vec![outs], call: 0, seen: vec![] };
    let it = tc.try_iter(&mut d).map_err(|e| format!("iter: {e:?}"))?;
    let mut rows = vec![];
    for r in it {
        let r = r.map_err(|e| format!("row: {e:?}"))?;
        rows.push((r.inputs.iter().map(|i| i.value).collect(), r.line));
    }
    Ok(rows)
}

fn ab() -> Vec<Signal> {
    vec![Signal::input("A", 1, 0), Signal::output("B", 1)]
}

fn no_panic<T>(f: impl FnOnce() -> T) -> T {
    match catch_unwind(AssertUnwindSafe(f)) {
        Ok(v) => v,
        Err(_) => panic!("the library panicked"),
    }
}

#[test]
fn f01_loop_with_zero_bound_runs_no_rows() {
    let rows = run_rows("A B\nloop(i,0)\n1 1\nend loop\n0 0\n", ab()).unwrap();
    assert_eq!(rows.len(), 1, "loop(i,0) must not run its body");
    let rows = run_rows("A B\nrepeat(0) 1 1\n0 0\n", ab()).unwrap();
    assert_eq!(rows.len(), 1, "repeat(0) must not run its row");
    let rows = run_rows("A B\nlet k = 0-3;\nloop(i,k)\n1 1\nend loop\n0 0\n", ab()).unwrap();
    assert_eq!(rows.len(), 1, "negative bound must not run the body");
}

#[test]
fn f02_f03_masks_for_wide_signals() {
    for bits in [63usize, 64] {
        let sigs = vec![Signal::input("A", bits, 0), Signal::output("B", bits)];
        let rows = no_panic(|| run_rows("A B\n5 5\n(0-1) (0-1)\n", sigs)).unwrap();
        assert_eq!(rows[0].0[0], InputValue::Value(5), "bits={bits}");
        let want = if bits == 64 { -1 } else { i64::MAX };
        assert_eq!(rows[1].0[0], InputValue::Value(want), "bits={bits}");
    }
}

#[test]
fn f04_arithmetic_wraps() {
    let sigs = vec![Signal::input("A", 64, 0), Signal::output("B", 1)];
    let rows = no_panic(|| {
        run_rows(
            "A B\n(0x7FFFFFFFFFFFFFFF+1) X\n(1<<64) X\n(1<<65) X\n(0-0x7FFFFFFFFFFFFFFF-1-1) X\n(0x7FFFFFFFFFFFFFFF*2) X\n(-(0-0x7FFFFFFFFFFFFFFF-1)) X\n((0-0x7FFFFFFFFFFFFFFF-1)/(0-1)) X\n((0-0x7FFFFFFFFFFFFFFF-1)%(0-1)) X\n((0-8)>>65) X\n",
            sigs,
        )
    })
    .unwrap();
    let vals: Vec<InputValue> = rows.iter().map(|r| r.0[0]).collect();
    assert_eq!(
        vals,
        vec![
            InputValue::Value(i64::MIN),
            InputValue::Value(1),
            InputValue::Value(2),
            InputValue::Value(i64::MAX),
            InputValue::Value(-2),
            InputValue::Value(i64::MIN),
            InputValue::Value(i64::MIN),
            InputValue::Value(0),
            InputValue::Value(-4),
        ]
    );
}

#[test]
fn f05_division_by_zero_is_an_error_item() {
    for src in ["A B\n(1/0) 0\n", "A B\n(1%0) 0\n"] {
        let r = no_panic(|| run_rows(src, ab()));
        assert!(r.unwrap_err().starts_with("row:"));
    }
}

#[test]
fn f06_unassigned_variable_is_an_error_item() {
    let r = no_panic(|| run_rows("A B\nwhile(0)\nlet x = 1;\nend while\n(x) 0\n", ab()));
    assert!(r.unwrap_err().starts_with("row:"));
}

#[test]
fn f07_empty_random_range_is_an_error_item_or_value() {
    for src in ["A B\n(random(1)) 0\n", "A B\n(random(0)) 0\n", "A B\n(random(0-5)) 0\n"] {
        let _ = no_panic(|| run_rows(src, ab()));
    }
}

#[test]
fn f08_sign_ext_is_an_error_item() {
    let r = no_panic(|| run_rows("A B\n(signExt(1,2)) 0\n", ab()));
    assert!(r.unwrap_err().starts_with("row:"));
}

#[test]
fn f09_loop_counter_overflow_does_not_panic() {
    let r = no_panic(|| run_rows("A B\nloop(i,2)\nlet i = 0x7FFFFFFFFFFFFFFF;\n0 0\nend loop\n", ab()));
    assert_eq!(r.unwrap().len(), 1);
}

#[test]
fn f10_unsupported_statements_are_parse_errors() {
    for kw in ["program", "init", "memory", "def", "call"] {
        let src = format!("A B\n{kw}\n0 0\n");
        let r = no_panic(|| src.parse::<ParsedTestCase>());
        assert!(r.is_err(), "{kw}");
    }
}

#[test]
fn f11_infix_not_is_a_parse_error() {
    for src in ["A B\n(1 ! 2) 0\n", "A B\n(1 ~ 2) 0\n"] {
        let r = no_panic(|| src.parse::<ParsedTestCase>());
        assert!(r.is_err());
    }
}

#[test]
fn f12_c_past_the_last_column_is_a_parse_error() {
    let r = no_panic(|| "A B\n0 0 C\n".parse::<ParsedTestCase>());
    assert!(r.is_err());
}

#[test]
fn f13_block_cut_off_at_eof_is_rejected() {
    for src in ["A B\nloop(i,2)\n1 1", "A B\nwhile(1)\n1 1", "A B\nloop(i,2)\nlet a = 1;", "A B\nloop(i,2)\nloop(j,2)\n1 1\nend loop"] {
        assert!(src.parse::<ParsedTestCase>().is_err(), "{src:?} without newline");
        let with_nl = format!("{src}\n");
        assert!(with_nl.parse::<ParsedTestCase>().is_err(), "{src:?} with newline");
    }
}

#[test]
fn f14_shorter_answer_after_extra_output_is_an_error_item() {
    let tc = "A B\n0 0\n1 1\n".parse::<ParsedTestCase>().unwrap().with_signals(ab()).unwrap();
    let sigs = vec![Signal::input("A", 1, 0), Signal::output("B", 1), Signal::output("ZZ", 1)];
    let v = OutputValue::Value(0);
    let mut d = Scripted {
        sigs: &sigs,
        script: vec![vec![(2, v), (1, v)], vec![(2, v), (1, v)], vec![(1, v)]],
        call: 0,
        seen: vec![],
    };
    let items: Vec<bool> = no_panic(|| tc.try_iter(&mut d).unwrap().map(|r| r.is_ok()).collect());
    assert_eq!(items, vec![true, false]);
}

#[test]
fn f15_parsing_is_deterministic_with_several_declares() {
    let src = "A B\ndeclare V1 = B;\ndeclare V2 = B+1;\ndeclare V3 = B+2;\ndeclare V4 = B+3;\n0 0\n";
    let first = src.parse::<ParsedTestCase>().unwrap().with_signals(ab()).unwrap();
    let names: Vec<String> = first.signals.iter().map(|s| s.name.clone()).collect();
    assert_eq!(names, ["A", "B", "V1", "V2", "V3", "V4"]);
    for _ in 0..50 {
        let again = src.parse::<ParsedTestCase>().unwrap().with_signals(ab()).unwrap();
        assert_eq!(first, again);
    }
}

fn dig_doc(pins: &[(&str, &str)], test: &str) -> String {
    let mut s = String::from("<?xml version=\"1.0\" encoding=\"utf-8\"?>\n<circuit><visualElements>");
    for (kind, label) in pins {
        s += &format!("<visualElement><elementName>{kind}</elementName><elementAttributes><entry><string>Label</string><string>{label}</string></entry></elementAttributes><pos x=\"0\" y=\"0\"/></visualElement>");
    }
    s += &format!("<visualElement><elementName>Testcase</elementName><elementAttributes><entry><string>Testdata</string><testData><dataString>{test}</dataString></testData></entry></elementAttributes><pos x=\"0\" y=\"0\"/></visualElement>");
    s += "</visualElements></circuit>";
    s
}

#[test]
fn f16_out_suffix_without_matching_input_does_not_panic() {
    // header column foo_out, no pin foo
    let r = no_panic(|| dig::File::parse(&dig_doc(&[("In", "A"), ("Out", "B")], "A B foo_out\n0 0 0\n")));
    assert!(r.is_err());
    // an output pin really called C_out
    let f = no_panic(|| dig::File::parse(&dig_doc(&[("In", "A"), ("Out", "C_out")], "A C_out\n0 0\n"))).unwrap();
    assert!(f.signals.iter().any(|s| s.name == "C_out" && s.is_output()));
    // Q_out where Q is an output pin
    let r = no_panic(|| dig::File::parse(&dig_doc(&[("In", "A"), ("Out", "Q")], "A Q_out\n0 0\n")));
    assert!(r.is_err());
}

#[test]
fn f17_pin_named_like_out_column_does_not_make_input_bidirectional() {
    let f = dig::File::parse(&dig_doc(&[("In", "C"), ("Out", "C_out")], "C C_out\n0 0\n")).unwrap();
    let c = f.signals.iter().find(|s| s.name == "C").unwrap();
    assert!(!c.is_bidirectional());
    // and the genuine bidirectional case still works
    let f = dig::File::parse(&dig_doc(&[("In", "D"), ("Out", "Q")], "D D_out Q\n0 0 0\n")).unwrap();
    assert!(f.signals.iter().find(|s| s.name == "D").unwrap().is_bidirectional());
}

// F19 (found later, by a seed sub-agent's side remark; repaired in e373c3c): a column that is both the
// expected column `<name>_out` of a bidirectional signal and the input column of a signal of that name.
#[test]
fn f19_clock_row_with_a_column_that_is_both_input_and_expected() {
    use digital_test_runner::SignalType;
    let signals = vec![
        Signal::input("CLK", 1, 0),
        Signal { name: "A".into(), bits: 1, typ: SignalType::Bidirectional { default: InputValue::Z } },
        Signal::input("A_out", 1, 0),
    ];
    let tc = "CLK A A_out\nC 1 1\n".parse::<ParsedTestCase>().unwrap().with_signals(signals).unwrap();
    let rows = no_panic(|| {
        let it = tc.try_iter_static().unwrap();
        it.map(|r| r.map(|row| row.inputs.iter().map(|i| i.value).collect::<Vec<_>>())).collect::<Vec<_>>()
    });
    assert_eq!(rows.len(), 3);
    for row in rows {
        assert_eq!(row.unwrap()[2], InputValue::Value(1));
    }
}
