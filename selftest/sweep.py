#!/usr/bin/env python3
"""Development aid (not a check): token-level mutation sweep of /repo's src.
For every generated mutant (one small edit): build + run the pinned suite in a per-worker scratch copy;
mutants that survive the suite are run through all twenty quick checks.  Survivors that no check reports
are listed for triage (equivalent mutant, outside every property, or a gap in the rules).
usage: sweep.py [--jobs 14] [--limit N] [--files a.rs,b.rs] [--out /scratch/sweep/result.json]"""
import json, os, re, shutil, subprocess, sys, hashlib
from concurrent.futures import ThreadPoolExecutor

VERIF = os.path.dirname(os.path.dirname(os.path.abspath(__file__)))
ROOT = "/scratch/sweep"
SRC = os.path.join(ROOT, "pristine")   # snapshot of /repo taken when the sweep starts (so /repo may be patched meanwhile)

RULES = [
    (r"(?<![<>=!])<=(?!=)", "<"), (r"(?<![<>=!-])>=(?!=)", ">"), (r"(?<![<>=!\-])\s<\s(?![<=])", " <= "), (r"(?<![<>=!\-])\s>\s(?![>=])", " >= "),
    (r"==", "!="), (r"!=", "=="), (r"&&", "||"), (r"\|\|", "&&"),
    (r"\+ 1\b", "+ 2"), (r"\+ 1\b", "- 1"), (r"\+= 1\b", "+= 2"), (r"- 1\b", "- 2"), (r"- 1\b", "+ 1"),
    (r"\btrue\b", "false"), (r"\bfalse\b", "true"),
    (r"\.rev\(\)", ""), (r"if !", "if "), (r"\b0\b", "1"), (r"\b1\b", "0"), (r"\b64\b", "63"), (r"\b64\b", "65"), (r"\b2\b", "3"),
    (r"wrapping_add", "wrapping_sub"), (r"wrapping_sub", "wrapping_add"), (r"wrapping_shl", "wrapping_shr"), (r"wrapping_shr", "wrapping_shl"), (r"wrapping_mul", "wrapping_add"),
    (r"wrapping_div", "wrapping_rem"), (r"wrapping_neg\(\)", "wrapping_abs()"),
    (r"is_input\(\)", "is_output()"), (r"is_output\(\)", "is_input()"),
    (r"input_indices", "expected_indices"), (r"expected_indices", "input_indices"),
    (r"\.push_frame\(\);", ".push_frame(); /*x*/"),  # placeholder no-op (control: must survive and stay silent)
    (r"\.pop_frame\(\);", ";"), (r"\.push_frame\(\);", ";"),
    (r"update_output = false", "update_output = true"), (r"update_output: true", "update_output: false"),
    (r"DataEntry::X\b", "DataEntry::Z"), (r"DataEntry::Z\b", "DataEntry::X"), (r"OutputValue::X\b", "OutputValue::Z"), (r"ExpectedValue::X\b", "ExpectedValue::Z"), (r"InputValue::Z\b", "InputValue::Value(0)"),
    (r"\.first\(\)", ".last()"), (r"\.last\(\)", ".first()"), (r"\.min\(", ".max("), (r"\.max\(", ".min("),
    (r"\.skip\(\);", ";"), (r"self\.line \+= 1;", ";"), (r"\.clone\(\)", ".clone()/*y*/"),
    (r"signal_index", "entry_index"), (r"entry_index", "signal_index"),
    (r"left", "right"), (r"\bright\b", "left"),
    (r"Some\(i\)", "Some(i + 1)"), (r"\.saturating_add\(1\)", ".saturating_add(2)"),
    (r"\"_out\"", "\"_in\""), (r"\"n\"", "\"m\""), (r"10\b", "16"), (r"\b16\b", "10"), (r"\b8\b", "10"),
    (r"\[2\.\.\]", "[1..]"), (r"\.\.number", "..=number"), (r"& 1\b", "& 3"), (r">> n", ">> (n + 1)"),
    (r"\?;", ".ok();"),
]


def gen(files):
    muts = []
    for f in files:
        src = open(os.path.join(SRC, f)).read()
        cut = src.find("#[cfg(test)]\nmod ")
        body = src if cut < 0 else src[:cut]
        lines = body.split("\n")
        off = 0
        for ln, line in enumerate(lines):
            st = line.strip()
            if not st or st.startswith("//") or st.startswith("#[") or st.startswith("use ") or "#[regex" in st or "#[token" in st:
                off += len(line) + 1
                continue
            for pat, rep in RULES:
                for m in re.finditer(pat, line):
                    new = line[:m.start()] + rep + line[m.end():]
                    if new == line:
                        continue
                    muts.append({"file": f, "line": ln + 1, "old": line, "new": new, "pos": off, "rule": "%s -> %s" % (pat, rep)})
            off += len(line) + 1
    # de-duplicate
    seen, out = set(), []
    for m in muts:
        k = (m["file"], m["line"], m["new"])
        if k not in seen:
            seen.add(k)
            out.append(m)
    return out


def gen2(files):
    """Second operator set: delete a one-line statement, swap two adjacent one-line statements,
    force a condition, turn continue into break, drop an else-less early return."""
    muts = []
    for f in files:
        src = open(os.path.join(SRC, f)).read()
        cut = src.find("#[cfg(test)]\nmod ")
        body = src if cut < 0 else src[:cut]
        lines = body.split("\n")
        def simple(l):
            st = l.strip()
            return st.endswith(";") and not st.startswith(("let ", "use ", "//", "pub ", "const ", "static ", "type ", "return", "#")) and st.count("(") == st.count(")") and st.count("{") == st.count("}")
        for ln, line in enumerate(lines):
            st = line.strip()
            if simple(line):
                muts.append({"file": f, "line": ln + 1, "old": line, "new": line[:len(line) - len(line.lstrip())] + "/* deleted */", "rule": "delete statement"})
                if ln + 1 < len(lines) and simple(lines[ln + 1]) and lines[ln + 1].strip() != st:
                    muts.append({"file": f, "line": ln + 1, "old": line, "new": lines[ln + 1] + " " + line.strip(), "rule": "swap with next statement", "also_delete_next": True})
            m = re.match(r"^(\s*)(\} else )?if (?!let )(.*) \{$", line)
            if m and "=>" not in line:
                muts.append({"file": f, "line": ln + 1, "old": line, "new": "%s%sif true {" % (m.group(1), m.group(2) or ""), "rule": "condition := true"})
                muts.append({"file": f, "line": ln + 1, "old": line, "new": "%s%sif false {" % (m.group(1), m.group(2) or ""), "rule": "condition := false"})
            if st == "continue;":
                muts.append({"file": f, "line": ln + 1, "old": line, "new": line.replace("continue;", "break;"), "rule": "continue -> break"})
            if st == "break;":
                muts.append({"file": f, "line": ln + 1, "old": line, "new": line.replace("break;", "continue;"), "rule": "break -> continue"})
    return muts


def gen3(files):
    """Third operator set: iterator-chain edits (skip the first element, reverse), dropping one operand of
    && / ||, swapping the two identifier arguments of a call, zip operands swapped."""
    muts = []
    for f in files:
        src = open(os.path.join(SRC, f)).read()
        cut = src.find("#[cfg(test)]\nmod ")
        body = src if cut < 0 else src[:cut]
        for ln, line in enumerate(body.split("\n")):
            st = line.strip()
            if not st or st.startswith(("//", "#[", "use ")):
                continue
            for m in re.finditer(r"\.iter\(\)(?!\.rev\(\))", line):
                muts.append({"file": f, "line": ln + 1, "old": line, "new": line[:m.end()] + ".skip(1)" + line[m.end():], "rule": "iter().skip(1)"})
                muts.append({"file": f, "line": ln + 1, "old": line, "new": line[:m.end()] + ".rev()" + line[m.end():], "rule": "iter().rev()"})
            for m in re.finditer(r"\.enumerate\(\)", line):
                muts.append({"file": f, "line": ln + 1, "old": line, "new": line[:m.end()] + ".skip(1)" + line[m.end():], "rule": "enumerate().skip(1)"})
            m = re.search(r"^(\s*(?:\} else )?if )(.+?) (&&|\|\|) (.+?)( \{)$", line)
            if m and "let " not in line:
                muts.append({"file": f, "line": ln + 1, "old": line, "new": m.group(1) + m.group(2) + m.group(5), "rule": "drop second operand"})
                muts.append({"file": f, "line": ln + 1, "old": line, "new": m.group(1) + m.group(4) + m.group(5), "rule": "drop first operand"})
            m = re.search(r"\|(\w+)\| (.+?) (&&|\|\|) ([^)]+)\)", line)
            if m:
                a, b_ = m.group(2), m.group(4)
                muts.append({"file": f, "line": ln + 1, "old": line, "new": line[:m.start(2)] + a + line[m.end(4):], "rule": "closure: drop second operand"})
                muts.append({"file": f, "line": ln + 1, "old": line, "new": line[:m.start(2)] + b_ + line[m.end(4):], "rule": "closure: drop first operand"})
            for m in re.finditer(r"\b(\w+)\((&?\w+(?:\.\w+)*), (&?\w+(?:\.\w+)*)\)", line):
                if m.group(2) != m.group(3) and m.group(1) not in ("Some", "Ok", "Err", "vec", "write", "writeln", "format", "matches", "assert", "assert_eq", "fn", "if", "while", "loop", "bits"):
                    muts.append({"file": f, "line": ln + 1, "old": line, "new": line[:m.start(2)] + m.group(3) + ", " + m.group(2) + line[m.end(3):], "rule": "swap call arguments"})
            m = re.search(r"\.zip\((&?[\w.]+)\)", line)
            if m:
                pass
    seen, out = set(), []
    for m in muts:
        k = (m["file"], m["line"], m["new"])
        if k not in seen and m["new"] != m["old"]:
            seen.add(k)
            out.append(m)
    return out


SIBLINGS = [("first_element_child", "last_element_child"), ("last_element_child", "first_element_child"), ("strip_suffix", "strip_prefix"),
            ("is_some()", "is_none()"), ("is_none()", "is_some()"), (".any(", ".all("), (".all(", ".any("), (".position(", ".rposition("),
            (".find(", ".rfind("), ("saturating_add", "wrapping_add"), (".is_empty()", ".len() == 1"), ("unwrap_or(false)", "unwrap_or(true)"),
            (".contains(", ".starts_with("), ("contains_key", "contains_key_not"), (".or_insert(", ".or_insert_with(Default::default); let _ = ("),
            ("TokenKind::Loop", "TokenKind::While"), ("TokenKind::While", "TokenKind::Loop"), ("TokenKind::Semi", "TokenKind::Comma"), ("TokenKind::Comma", "TokenKind::Semi"),
            ("TokenKind::LParen", "TokenKind::RParen"), ("TokenKind::RParen", "TokenKind::LParen"), ("TokenKind::Eol", "TokenKind::Eof"), ("TokenKind::Eof", "TokenKind::Eol"),
            ("TokenKind::Equal", "TokenKind::NotEqual"), ("TokenKind::Ident", "TokenKind::DecInt"), ("TokenKind::End", "TokenKind::Eol"), ("TokenKind::Repeat", "TokenKind::Loop"),
            ("HeaderTokenKind::Eol", "HeaderTokenKind::WS"), ("SignalType::Input", "SignalType::Bidirectional"), ("SignalType::Bidirectional", "SignalType::Input"),
            ("OutputEntryIndex::None", "OutputEntryIndex::Output(0)"), ("Ok(None)", "Ok(Some(Default::default()))"), ("return Ok(None);", "continue;"),
            ("\"c\" | \"C\"", "\"c\""), ("\"x\" | \"X\"", "\"X\""), ("\"z\" | \"Z\"", "\"z\""), ("radix = 16", "radix = 10"), ("sort_by", "sort_unstable_by"),
            ("a.1.start.cmp(&b.1.start)", "b.1.start.cmp(&a.1.start)"), (".start..", ".end.."), ("span.start", "span.end"), ("span.end", "span.start")]


def gen4(files):
    """Fourth operator set: sibling methods / enum variants swapped, string literals changed."""
    muts = []
    for f in files:
        src = open(os.path.join(SRC, f)).read()
        cut = src.find("#[cfg(test)]\nmod ")
        body = src if cut < 0 else src[:cut]
        for ln, line in enumerate(body.split("\n")):
            st = line.strip()
            if not st or st.startswith(("//", "#[", "#![", "use ", "///")):
                continue
            for a, b_ in SIBLINGS:
                i = line.find(a)
                while i >= 0:
                    muts.append({"file": f, "line": ln + 1, "old": line, "new": line[:i] + b_ + line[i + len(a):], "rule": "%s -> %s" % (a, b_)})
                    i = line.find(a, i + 1)
            if "write!" in line or "writeln!" in line or "format!" in line or "expect(" in line or "panic!" in line or "unreachable!" in line or "todo!" in line:
                continue
            for m in re.finditer(r'"([A-Za-z_][A-Za-z_0-9]*)"', line):
                muts.append({"file": f, "line": ln + 1, "old": line, "new": line[:m.start(1)] + m.group(1) + "X" + line[m.end(1):], "rule": "string literal + X"})
    seen, out = set(), []
    for m in muts:
        k = (m["file"], m["line"], m["new"])
        if k not in seen and m["new"] != m["old"]:
            seen.add(k)
            out.append(m)
    return out


def gen5(files):
    """Fifth operator set: lexer attribute edits (token strings, regex quantifiers and classes), range ends,
    wrapping arithmetic turned into plain operators, narrowing casts, deleted single-line match arms,
    negated / deleted iterator predicates, take/skip counts."""
    muts = []
    for f in files:
        src = open(os.path.join(SRC, f)).read()
        cut = src.find("#[cfg(test)]\nmod ")
        body = src if cut < 0 else src[:cut]
        lines = body.split("\n")
        for ln, line in enumerate(lines):
            st = line.strip()
            def add(new, rule):
                if new != line:
                    muts.append({"file": f, "line": ln + 1, "old": line, "new": new, "rule": rule})
            if st.startswith("#[token(") or st.startswith("#[regex("):
                m = re.search(r'"((?:[^"\\]|\\.)*)"', line)
                if not m:
                    continue
                lit = m.group(1)
                if st.startswith("#[token("):
                    add(line[:m.start(1)] + lit + lit[-1] + line[m.end(1):], "token literal: last char doubled")
                    if len(lit) > 1:
                        add(line[:m.start(1)] + lit[:-1] + line[m.end(1):], "token literal: last char dropped")
                    if lit.isalpha():
                        add(line[:m.start(1)] + lit.upper() + line[m.end(1):], "token literal: upper-cased")
                    if "ignore(case)" in line:
                        add(line.replace(", ignore(case)", ""), "token: case-sensitive")
                else:
                    for i, ch in enumerate(lit):
                        if ch in "+*?" and (i == 0 or lit[i - 1] != "\\"):
                            for rep in {"+": ["*", ""], "*": ["+", ""], "?": [""]}[ch]:
                                add(line[:m.start(1)] + lit[:i] + rep + lit[i + 1:] + line[m.end(1):], "regex quantifier %s -> '%s' at %d" % (ch, rep, i))
                    for a, b_ in (("[^", "["), ("\\r", ""), ("\\t", ""), ("\\n", "\\r"), ("a-z", "a-y"), ("A-Z", "A-Y"), ("0-9", "0-8"), ("0-7", "0-8"), ("a-f", "a-g"), ("A-F", "A-E"), ("_", ""), ("01", "012"), (" ", "")):
                        i = lit.find(a)
                        while i >= 0:
                            add(line[:m.start(1)] + lit[:i] + b_ + lit[i + len(a):] + line[m.end(1):], "regex class %r -> %r at %d" % (a, b_, i))
                            i = lit.find(a, i + 1)
                    if "ignore(case)" in line:
                        add(line.replace(", ignore(case)", ""), "regex: case-sensitive")
                continue
            if not st or st.startswith(("//", "#[", "#![", "use ", "///")):
                continue
            for m in re.finditer(r"\.\.=", line):
                add(line[:m.start()] + ".." + line[m.end():], "..= -> ..")
            for m in re.finditer(r"(?<![.\[(])\b(\w+|\))\.\.(?![.=])(\w)", line):
                add(line[:m.start(2) - 2] + "..=" + line[m.start(2):], ".. -> ..=")
            for m in re.finditer(r"\b([\w.]+)\.wrapping_(add|sub|mul)\((\w+)\)", line):
                op = {"add": "+", "sub": "-", "mul": "*"}[m.group(2)]
                add(line[:m.start()] + "(%s %s %s)" % (m.group(1), op, m.group(3)) + line[m.end():], "wrapping_%s -> plain operator" % m.group(2))
            for m in re.finditer(r" as (usize|u32|u64|i64)\b", line):
                small = {"usize": "u8", "u32": "u8", "u64": "u32", "i64": "i32"}[m.group(1)]
                add(line[:m.start()] + " as %s as %s" % (small, m.group(1)) + line[m.end():], "narrowing cast via %s" % small)
            if re.match(r"^\s*[A-Za-z_:|() \"&@{}.,0-9]+ => [^{]*,$", line) and not st.startswith("_ =>"):
                add(line[:len(line) - len(line.lstrip())] + "/* arm deleted */", "single-line match arm deleted")
            for m in re.finditer(r"\.(filter|any|all|find|position|take_while|skip_while)\(\|([^|]*)\| ", line):
                rest, depth, end = line[m.end():], 0, None
                for i, ch in enumerate(rest):
                    if ch in "([{":
                        depth += 1
                    elif ch in ")]}":
                        if depth == 0:
                            end = i
                            break
                        depth -= 1
                if end is not None:
                    add(line[:m.end()] + "!(" + rest[:end] + ")" + rest[end:], "%s predicate negated" % m.group(1))
                elif rest.strip() == "{":
                    add(line[:m.end()] + "!" + rest, "%s predicate negated (block)" % m.group(1))
            for m in re.finditer(r"\.filter\(\|[^|]*\| [^()]*(?:\([^()]*\)[^()]*)*\)", line):
                add(line[:m.start()] + line[m.end():], "filter deleted")
            for m in re.finditer(r"\.(take|skip)\((\w+)\)", line):
                add(line[:m.start(2)] + m.group(2) + " + 1" + line[m.end(2):], "%s count + 1" % m.group(1))
            for a, b_ in ((".saturating_sub(", ".wrapping_sub("), (".checked_", ".wrapping_"), ("unwrap_or_default()", "unwrap_or(1)"), (".is_ok()", ".is_err()"), (".is_err()", ".is_ok()"), (".and_then(", ".map(|x| x).and_then("), ("ctx.swap_vars();", "/* swap deleted */;"), ("self.swap_vars();", "/* swap deleted */;")):
                i = line.find(a)
                while i >= 0:
                    add(line[:i] + b_ + line[i + len(a):], "%s -> %s" % (a, b_))
                    i = line.find(a, i + 1)
    seen, out = set(), []
    for m in muts:
        k = (m["file"], m["line"], m["new"])
        if k not in seen:
            seen.add(k)
            out.append(m)
    return out


def gen6(files):
    """Sixth operator set: a simple statement duplicated; the bodies of two adjacent single-line match arms swapped;
    a `?` turned into an early `Ok`-swallowing `.ok()` is covered by set 1 — here also `if let Some(x) = e` bodies skipped
    (condition forced false) and `else` branches forced."""
    muts = []
    for f in files:
        src = open(os.path.join(SRC, f)).read()
        cut = src.find("#[cfg(test)]\nmod ")
        body = src if cut < 0 else src[:cut]
        lines = body.split("\n")
        def simple(l):
            st = l.strip()
            return st.endswith(";") and not st.startswith(("let ", "use ", "//", "pub ", "const ", "static ", "type ", "return", "#", "break", "continue")) and st.count("(") == st.count(")") and st.count("{") == st.count("}")
        arm = re.compile(r"^(\s*)([^=]+?) => ([^{}]+),$")
        for ln, line in enumerate(lines):
            if simple(line):
                muts.append({"file": f, "line": ln + 1, "old": line, "new": line + " " + line.strip(), "rule": "statement duplicated"})
            m1 = arm.match(line)
            m2 = arm.match(lines[ln + 1]) if ln + 1 < len(lines) else None
            if m1 and m2 and m1.group(3) != m2.group(3) and not line.strip().startswith("//"):
                muts.append({"file": f, "line": ln + 1, "old": line, "new": "%s%s => %s,\n%s%s => %s," % (m1.group(1), m1.group(2), m2.group(3), m2.group(1), m2.group(2), m1.group(3)), "rule": "adjacent arm bodies swapped", "also_delete_next": True})
            m = re.match(r"^(\s*)(\} else )?if let (.+) = (.+) \{$", line)
            if m:
                muts.append({"file": f, "line": ln + 1, "old": line, "new": "%s%sif false {" % (m.group(1), m.group(2) or ""), "rule": "if-let := false"})
    return muts


def gen7(files):
    """Seventh operator set: a value modified in place between being built and being used — `let x = e;` becomes
    `let mut x = e; x.clear();` / `x.reverse();` / `x.truncate(1);` / `x.pop();` (whatever compiles), and an existing
    `let mut x = e;` gets the same treatment.  These writes are invisible to a term that says how a value was built."""
    muts = []
    for f in files:
        src = open(os.path.join(SRC, f)).read()
        cut = src.find("#[cfg(test)]\nmod ")
        body = src if cut < 0 else src[:cut]
        for ln, line in enumerate(body.split("\n")):
            m = re.match(r"^(\s*)let (mut )?(\w+)(: [^=]+)? = (.+);$", line)
            if not m or m.group(3) == "_":
                continue
            ind, name = m.group(1), m.group(3)
            decl = "%slet mut %s%s = %s;" % (ind, name, m.group(4) or "", m.group(5))
            for op in ("clear()", "reverse()", "truncate(1)", "pop()", "sort()", "dedup()"):
                muts.append({"file": f, "line": ln + 1, "old": line, "new": "%s %s.%s;" % (decl, name, op), "rule": "in-place %s after let" % op})
    return muts


def sh(cmd, cwd=None, env=None, timeout=900):
    """Run in its own process group with an address-space limit; on timeout kill the whole group
    (a mutant can loop forever or allocate without bound inside the test binary)."""
    import signal, resource
    def pre():
        os.setsid()
        resource.setrlimit(resource.RLIMIT_AS, (6 << 30, 6 << 30))
    p = subprocess.Popen(cmd, cwd=cwd, env=env, shell=isinstance(cmd, str), stdout=subprocess.PIPE, stderr=subprocess.STDOUT, text=True, preexec_fn=pre)
    try:
        out, _ = p.communicate(timeout=timeout)
        return p.returncode, out
    except subprocess.TimeoutExpired:
        try:
            os.killpg(p.pid, signal.SIGKILL)
        except OSError:
            pass
        p.communicate()
        return 124, "timeout"


def prepare_worker(w):
    d = os.path.join(ROOT, "w%d" % w)
    if not os.path.exists(os.path.join(d, "Cargo.toml")):
        shutil.rmtree(d, ignore_errors=True)
        os.makedirs(d)
        for item in ("src", "Cargo.toml", "Cargo.lock", "tests", "examples"):
            s = os.path.join(SRC, item)
            if os.path.isdir(s):
                shutil.copytree(s, os.path.join(d, item))
            else:
                shutil.copy(s, d)
    return d


def run_mutant(args):
    w, m = args
    d = prepare_worker(w)
    # restore sources
    shutil.rmtree(os.path.join(d, "src"))
    shutil.copytree(os.path.join(SRC, "src"), os.path.join(d, "src"))
    p = os.path.join(d, m["file"])
    lines = open(p).read().split("\n")
    if lines[m["line"] - 1] != m["old"]:
        return dict(m, status="stale")
    lines[m["line"] - 1] = m["new"]
    if m.get("also_delete_next"):
        lines[m["line"]] = ""
    open(p, "w").write("\n".join(lines))
    env = dict(os.environ, CARGO_TARGET_DIR=os.path.join(ROOT, "t%d" % w), CARGO_NET_OFFLINE="true", RUSTFLAGS="-Awarnings")
    rc, out = sh("cargo test --offline --no-fail-fast -q 2>&1 | tail -40", cwd=d, env=env, timeout=240)
    if "error: could not compile" in out or "error[E" in out or "error: " in out and "test failed" not in out and "test result" not in out:
        return dict(m, status="no-compile")
    res = re.findall(r"test result: (\w+)\. (\d+) passed; (\d+) failed", out)
    if rc == 124:
        return dict(m, status="killed-by-tests", note="timeout (non-termination)")
    if not res:
        return dict(m, status="no-result", tail=out[-300:])
    if any(int(f) > 0 for _, _, f in res):
        return dict(m, status="killed-by-tests")
    # survivor: run the checks
    caught = []
    envc = dict(os.environ, VERIF_REPO=d, VERIF_EVIDENCE_DIR=os.path.join(ROOT, "ev%d" % w), VERIF_CACHE=os.path.join(ROOT, "cache%d" % w))
    for i in range(1, 21):
        pid = "C%02d" % i
        rc, out = sh([os.path.join(VERIF, "check"), pid], env=envc, timeout=300)
        if rc == 1:
            key = [l.strip() for l in out.splitlines() if l.strip().startswith("violation [")]
            caught.append((pid, key[0][:160] if key else ""))
        elif rc != 0:
            caught.append((pid, "INFRA rc=%d" % rc))
    return dict(m, status="survived", caught=caught)


def main():
    jobs, limit, files, outp = 14, None, None, os.path.join(ROOT, "result.json")
    a = sys.argv[1:]
    while a:
        x = a.pop(0)
        if x == "--jobs":
            jobs = int(a.pop(0))
        elif x == "--limit":
            limit = int(a.pop(0))
        elif x == "--files":
            files = a.pop(0).split(",")
        elif x == "--out":
            outp = a.pop(0)
        elif x in ("--ops2", "--ops3", "--ops4", "--ops5", "--ops6", "--ops7"):
            pass
    os.makedirs(ROOT, exist_ok=True)
    shutil.rmtree(SRC, ignore_errors=True)
    os.makedirs(SRC)
    for item in ("src", "Cargo.toml", "Cargo.lock", "tests", "examples"):
        s_ = os.path.join("/repo", item)
        if os.path.isdir(s_):
            shutil.copytree(s_, os.path.join(SRC, item))
        elif os.path.exists(s_):
            shutil.copy(s_, SRC)
    if files is None:
        files = []
        for dp, dn, fn in os.walk("/repo/src"):
            for f in fn:
                if f.endswith(".rs") and f not in ("tests.rs",) and "/tests" not in dp:
                    files.append(os.path.relpath(os.path.join(dp, f), "/repo"))
        files.sort()
    muts = gen7(files) if "--ops7" in sys.argv else gen6(files) if "--ops6" in sys.argv else gen5(files) if "--ops5" in sys.argv else gen4(files) if "--ops4" in sys.argv else gen3(files) if "--ops3" in sys.argv else (gen2(files) if "--ops2" in sys.argv else gen(files))
    if limit:
        muts = muts[:limit]
    print("%d mutants over %d files" % (len(muts), len(files)))
    os.makedirs(ROOT, exist_ok=True)
    results = []
    # static partition: worker w handles muts[w::jobs] sequentially (one scratch copy + target dir each)
    def worker(w):
        out = []
        for m in muts[w::jobs]:
            out.append(run_mutant((w, m)))
        return out
    with ThreadPoolExecutor(max_workers=jobs) as ex:
        for part in ex.map(worker, range(jobs)):
            results.extend(part)
    json.dump(results, open(outp, "w"), indent=1)
    from collections import Counter
    print(Counter(r["status"] for r in results))
    surv = [r for r in results if r["status"] == "survived"]
    unc = [r for r in surv if not r["caught"]]
    print("survived the suite: %d, reported by some check: %d, unreported: %d" % (len(surv), len(surv) - len(unc), len(unc)))
    for r in unc:
        print("UNREPORTED %s:%d  %s  =>  %s" % (r["file"], r["line"], r["old"].strip()[:90], r["new"].strip()[:90]))


if __name__ == "__main__":
    main()
