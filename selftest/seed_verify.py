#!/usr/bin/env python3
"""Confirm a seeded change delivered by a sub-agent and record it under /verif/seeded/<id>/.

usage: seed_verify.py <source dir with patch.diff, seed_demo.rs, notes.json> <seed id> [--props C01,C02|all]

Steps (all in a scratch worktree outside /repo and /verif, removed afterwards):
  1. demo passes on the unchanged tree;
  2. with the patch: crate compiles, the existing suite passes, the demo fails;
  3. the checks are run against the patched tree the documented way: `git -C /repo apply`,
     run, `git -C /repo checkout -- .` (always undone, also on failure).
Writes patch.diff, the demonstration and meta.json (what it breaks, what it needs to
manifest, what was run, which checks reported it)."""
import json
import os
import re
import shutil
import subprocess
import sys

VERIF = os.path.dirname(os.path.dirname(os.path.abspath(__file__)))
ALL = ["C%02d" % i for i in range(1, 21)]


def sh(cmd, cwd=None, env=None, timeout=1800):
    p = subprocess.run(cmd, cwd=cwd, env=env, shell=isinstance(cmd, str), stdout=subprocess.PIPE, stderr=subprocess.STDOUT, text=True, timeout=timeout)
    return p.returncode, p.stdout


def test_summary(out):
    res = re.findall(r"test result: (\w+)\. (\d+) passed; (\d+) failed", out)
    return res


def main():
    src, sid = sys.argv[1], sys.argv[2]
    props = ALL
    if "--props" in sys.argv:
        v = sys.argv[sys.argv.index("--props") + 1]
        props = ALL if v == "all" else v.split(",")
    notes = {}
    if os.path.exists(os.path.join(src, "notes.json")):
        try:
            notes = json.load(open(os.path.join(src, "notes.json")))
        except Exception as e:
            notes = {"_unparsed": str(e)}
    wt = "/tmp/seedv/%s" % sid
    shutil.rmtree(wt, ignore_errors=True)
    sh(["git", "-C", "/repo", "worktree", "prune"])
    rc, out = sh(["git", "-C", "/repo", "worktree", "add", "--detach", "-f", wt, "HEAD"])
    if rc:
        print(out)
        return 2
    env = dict(os.environ, CARGO_TARGET_DIR="/tmp/seedv/target-%s" % sid, CARGO_NET_OFFLINE="true")
    meta = {"id": sid, "property": notes.get("property"), "summary": notes.get("summary"), "needs_to_manifest": notes.get("needs_to_manifest"), "ran": []}
    try:
        shutil.copy(os.path.join(src, "seed_demo.rs"), os.path.join(wt, "tests", "seed_demo.rs"))
        rc, out = sh("cargo test --offline --test seed_demo 2>&1", cwd=wt, env=env)
        meta["demo_passes_on_unchanged_tree"] = (rc == 0)
        meta["ran"].append("unchanged tree: cargo test --offline --test seed_demo -> rc %d %s" % (rc, test_summary(out)))
        rc, out = sh(["git", "apply", "--check", os.path.join(src, "patch.diff")], cwd=wt)
        if rc:
            meta["patch_applies"] = False
            print(out)
        else:
            meta["patch_applies"] = True
            sh(["git", "apply", os.path.join(src, "patch.diff")], cwd=wt)
            rc, out = sh("cargo test --offline --no-fail-fast 2>&1", cwd=wt, env=env)
            compiled = "error: could not compile" not in out and "error[E" not in out
            meta["compiles_with_patch"] = compiled
            # existing suite: everything except the seed_demo binary must pass
            parts = re.split(r"\n\s+Running ", out)
            existing_ok, demo_failed = True, False
            for part in parts:
                res = test_summary(part)
                if not res:
                    continue
                is_demo = "seed_demo" in part.split("\n", 1)[0]
                failed = any(int(f) > 0 for _, _, f in res)
                if is_demo:
                    demo_failed = failed
                elif failed:
                    existing_ok = False
            meta["existing_suite_passes_with_patch"] = compiled and existing_ok
            meta["demo_fails_with_patch"] = demo_failed
            meta["ran"].append("patched tree: cargo test --offline --no-fail-fast -> existing ok=%s demo failed=%s %s" % (existing_ok, demo_failed, test_summary(out)))
    finally:
        sh(["git", "-C", "/repo", "worktree", "remove", "--force", wt])
        shutil.rmtree("/tmp/seedv/target-%s" % sid, ignore_errors=True)
    meta["confirmed"] = bool(meta.get("demo_passes_on_unchanged_tree") and meta.get("patch_applies") and meta.get("existing_suite_passes_with_patch") and meta.get("demo_fails_with_patch"))
    # run the checks against /repo with the patch applied, then undo
    detected = {}
    rc, st = sh(["git", "-C", "/repo", "status", "--porcelain", "--untracked-files=no"])
    if st.strip() and "--scratch" not in sys.argv:
        print("refusing: /repo has uncommitted changes")
        return 2
    if meta.get("patch_applies") and "--scratch" in sys.argv:
        # parallel-safe variant: the checks read a scratch copy of /repo's HEAD with the patch applied (VERIF_REPO), /repo is not touched
        cp = "/tmp/seedv/copy-%s" % sid
        shutil.rmtree(cp, ignore_errors=True)
        os.makedirs(cp)
        try:
            sh("git -C /repo archive HEAD | tar -x -C %s" % cp)
            sh(["git", "apply", os.path.join(os.path.abspath(src), "patch.diff")], cwd=cp)
            envc = dict(os.environ, VERIF_REPO=cp, VERIF_EVIDENCE_DIR="/tmp/seedv/evidence-%s" % sid)
            for p in props:
                rc, out = sh([os.path.join(VERIF, "check"), p, "--tier", "quick"], cwd=VERIF, env=envc)
                keys = [l.strip()[len("violation "):] for l in out.splitlines() if l.strip().startswith("violation [")]
                detected[p] = {"rc": rc, "violations": [k[:240] for k in keys[:6]]}
            meta["ran"].append("scratch copy of /repo HEAD + patch.diff; VERIF_REPO=<copy> ./check <each of %d properties> --tier quick" % len(props))
        finally:
            shutil.rmtree(cp, ignore_errors=True)
            shutil.rmtree("/tmp/seedv/evidence-%s" % sid, ignore_errors=True)
    elif meta.get("patch_applies"):
        try:
            rc, out = sh(["git", "-C", "/repo", "apply", os.path.join(src, "patch.diff")])
            envc = dict(os.environ, VERIF_EVIDENCE_DIR="/tmp/seedv/evidence-%s" % sid)
            for p in props:
                rc, out = sh([os.path.join(VERIF, "check"), p, "--tier", "quick"], cwd=VERIF, env=envc)
                keys = [l.strip()[len("violation "):] for l in out.splitlines() if l.strip().startswith("violation [")]
                detected[p] = {"rc": rc, "violations": [k[:240] for k in keys[:6]]}
            meta["ran"].append("git -C /repo apply patch.diff; ./check <each of %d properties> --tier quick; git -C /repo checkout -- ." % len(props))
        finally:
            sh(["git", "-C", "/repo", "checkout", "--", "."])
            shutil.rmtree("/tmp/seedv/evidence-%s" % sid, ignore_errors=True)
    meta["checks"] = {p: d for p, d in detected.items() if d["rc"] != 0}
    meta["caught_by"] = sorted(p for p, d in detected.items() if d["rc"] == 1)
    meta["check_errors"] = sorted(p for p, d in detected.items() if d["rc"] not in (0, 1))
    meta["caught_by_own_property"] = meta.get("property") in meta["caught_by"]
    print(json.dumps({k: meta[k] for k in ("id", "property", "confirmed", "caught_by", "check_errors", "caught_by_own_property")}, indent=0))
    for p in meta["caught_by"]:
        print("  ", p, detected[p]["violations"][:2])
    if meta["confirmed"] or "--keep" in sys.argv:
        dst = os.path.join(VERIF, "seeded", sid)
        os.makedirs(dst, exist_ok=True)
        shutil.copy(os.path.join(src, "patch.diff"), dst)
        shutil.copy(os.path.join(src, "seed_demo.rs"), dst)
        meta["agent_notes"] = notes
        json.dump(meta, open(os.path.join(dst, "meta.json"), "w"), indent=1)
    return 0


if __name__ == "__main__":
    sys.exit(main())
