#!/usr/bin/env python3
"""False-alarm test: a behaviour-preserving patch written by an independent sub-agent must keep all twenty checks silent.

usage: benign_verify.py <patch.diff> <id> [--note "..."] [--kind local|structural|additive]

1. scratch worktree of /repo (outside /repo and /verif), patch applied;
2. behaviour preservation is *tested* (not proved) with the pinned suite plus a regression suite assembled from every
   demonstration under /verif/seeded (459 tests that pass on the unchanged tree and each fail under some property-breaking
   change) plus findings/defects.rs — a patch that fails any of them is rejected as not benign;
3. the twenty quick checks are run against the patched scratch tree (VERIF_REPO), in parallel after the first extraction;
4. result recorded in /verif/selftest/benign/<id>/ (patch.diff, meta.json).  A check that reports something is a FALSE ALARM
   to be triaged: canonicalise, or record honestly as a refactoring the rules do not recognise (fail-closed report).
The scratch worktree and its build output are removed at the end."""
import concurrent.futures
import glob
import json
import os
import re
import shutil
import subprocess
import sys

VERIF = os.path.dirname(os.path.dirname(os.path.abspath(__file__)))
ALL = ["C%02d" % i for i in range(1, 21)]
ROOT = "/tmp/benv"


def sh(cmd, cwd=None, env=None, timeout=3600):
    p = subprocess.run(cmd, cwd=cwd, env=env, shell=isinstance(cmd, str), stdout=subprocess.PIPE, stderr=subprocess.STDOUT, text=True, timeout=timeout)
    return p.returncode, p.stdout


def make_regression_suite(wt):
    os.makedirs(os.path.join(wt, "tests", "seeds"), exist_ok=True)
    mods = []
    for d in sorted(glob.glob(os.path.join(VERIF, "seeded", "C*-agent*"))):
        f = os.path.join(d, "seed_demo.rs")
        if not os.path.exists(f):
            continue
        name = os.path.basename(d).replace("-", "_").lower()
        shutil.copy(f, os.path.join(wt, "tests", "seeds", name + ".rs"))
        mods.append(name)
    shutil.copy(os.path.join(VERIF, "findings", "defects.rs"), os.path.join(wt, "tests", "seeds", "defects.rs"))
    mods.append("defects")
    with open(os.path.join(wt, "tests", "all_seeds.rs"), "w") as fh:
        fh.write("#![allow(unused, dead_code, non_snake_case)]\n" + "".join('#[path = "seeds/%s.rs"]\nmod %s;\n' % (m, m) for m in mods))
    return len(mods)


def run_check(prop, repo, evdir):
    env = dict(os.environ, VERIF_REPO=repo, VERIF_EVIDENCE_DIR=evdir)
    p = subprocess.run([os.path.join(VERIF, "check"), prop, "--tier", "quick"], env=env, stdout=subprocess.PIPE, stderr=subprocess.STDOUT, text=True)
    return prop, p.returncode, p.stdout


def main():
    patch, bid = os.path.abspath(sys.argv[1]), sys.argv[2]
    note = sys.argv[sys.argv.index("--note") + 1] if "--note" in sys.argv else ""
    kind = sys.argv[sys.argv.index("--kind") + 1] if "--kind" in sys.argv else ""
    wt = os.path.join(ROOT, bid)
    shutil.rmtree(wt, ignore_errors=True)
    sh(["git", "-C", "/repo", "worktree", "prune"])
    rc, out = sh(["git", "-C", "/repo", "worktree", "add", "--detach", "-f", wt, "HEAD"])
    if rc:
        print(out)
        return 2
    # one shared target dir per concurrent slot keeps the rebuild incremental
    env = dict(os.environ, CARGO_TARGET_DIR=os.environ.get("BENV_TARGET", os.path.join(ROOT, "target")), CARGO_NET_OFFLINE="true")
    meta = {"id": bid, "kind": kind, "note": note, "ran": []}
    evdir = os.path.join(ROOT, "ev-" + bid)
    try:
        rc, out = sh(["git", "apply", patch], cwd=wt)
        meta["patch_applies"] = rc == 0
        if rc:
            print("patch does not apply:", out)
            return 2
        n = make_regression_suite(wt)
        rc, out = sh("cargo test --offline --no-fail-fast 2>&1", cwd=wt, env=env)
        res = re.findall(r"test result: (\w+)\. (\d+) passed; (\d+) failed", out)
        meta["ran"].append("patched tree: cargo test --offline --no-fail-fast (pinned suite + %d seed demonstrations as one regression suite) -> rc %d %s" % (n, rc, res))
        meta["behaviour_suite_passes"] = rc == 0 and bool(res) and all(r[0] == "ok" for r in res)
        if not meta["behaviour_suite_passes"]:
            meta["failed_tests"] = re.findall(r"^test (\S+) \.\.\. FAILED", out, re.M)[:20]
            meta["tail"] = out[-1500:]
        reports = {}
        if meta["behaviour_suite_passes"]:
            first = run_check(ALL[0], wt, evdir)
            results = [first]
            with concurrent.futures.ThreadPoolExecutor(max_workers=10) as ex:
                results += list(ex.map(lambda p: run_check(p, wt, evdir), ALL[1:]))
            for prop, rc, out in results:
                v = [l.strip()[:400] for l in out.splitlines() if l.startswith("  violation")]
                if rc != 0:
                    reports[prop] = {"rc": rc, "violations": v[:6] or [out[-600:]]}
            meta["ran"].append("VERIF_REPO=<patched scratch tree> ./check <each of 20 properties> --tier quick")
        meta["false_alarms"] = reports
        meta["silent"] = meta["behaviour_suite_passes"] and not reports
    finally:
        sh(["git", "-C", "/repo", "worktree", "remove", "--force", wt])
        shutil.rmtree(wt, ignore_errors=True)
        shutil.rmtree(evdir, ignore_errors=True)
        sh(["git", "-C", "/repo", "worktree", "prune"])
    out_dir = os.path.join(VERIF, "selftest", "benign", bid)
    os.makedirs(out_dir, exist_ok=True)
    shutil.copy(patch, os.path.join(out_dir, "patch.diff"))
    with open(os.path.join(out_dir, "meta.json"), "w") as fh:
        json.dump(meta, fh, indent=1)
    print(bid, "suite:", meta.get("behaviour_suite_passes"), "silent:", meta.get("silent"), "alarms:", sorted(meta.get("false_alarms", {})))
    for p, r in sorted(meta.get("false_alarms", {}).items()):
        for v in r["violations"][:3]:
            print("   ", p, v[:260])
    return 0


if __name__ == "__main__":
    sys.exit(main())
