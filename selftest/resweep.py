#!/usr/bin/env python3
"""Development aid: re-run, against today's checks, the archived sweep mutants that survived the pinned suite and that no
check reported when they were first generated (selftest/sweeps/sweep-*.json).  Only the checks run (the mutants are known to
compile and to pass the suite).  usage: resweep.py [--jobs 6]"""
import glob, json, os, shutil, subprocess, sys
from concurrent.futures import ThreadPoolExecutor
VERIF = os.path.dirname(os.path.dirname(os.path.abspath(__file__)))
ROOT = "/scratch/resweep"


def run(args):
    w, m = args
    d = os.path.join(ROOT, "w%d" % w)
    shutil.rmtree(d, ignore_errors=True)
    os.makedirs(d)
    for item in ("src", "Cargo.toml", "Cargo.lock", "tests", "examples"):
        s = os.path.join("/repo", item)
        if os.path.isdir(s):
            shutil.copytree(s, os.path.join(d, item))
        elif os.path.exists(s):
            shutil.copy(s, d)
    p = os.path.join(d, m["file"])
    lines = open(p).read().split("\n")
    # the tree has moved on since the sweep was archived: find the line by content, nearest to the recorded number
    cands = [i for i, l in enumerate(lines) if l.strip() == m["old"].strip()]   # (the first archives stored stripped lines)
    if not cands:
        return dict(m, status="stale")
    i = min(cands, key=lambda k: abs(k - (m["line"] - 1)))
    lines[i] = lines[i][:len(lines[i]) - len(lines[i].lstrip())] + m["new"].strip()
    if m.get("also_delete_next"):
        lines[i + 1] = ""
    open(p, "w").write("\n".join(lines))
    env = dict(os.environ, VERIF_REPO=d, VERIF_EVIDENCE_DIR=os.path.join(ROOT, "ev%d" % w), VERIF_CACHE=os.path.join(ROOT, "cache%d" % w))
    caught = []
    for i in range(1, 21):
        pid = "C%02d" % i
        r = subprocess.run([os.path.join(VERIF, "check"), pid], env=env, stdout=subprocess.PIPE, stderr=subprocess.STDOUT, text=True)
        if r.returncode == 1:
            caught.append(pid)
        elif r.returncode != 0:
            caught.append(pid + ":INFRA")
    return dict(m, status="rechecked", caught=caught)


def main():
    jobs = int(sys.argv[sys.argv.index("--jobs") + 1]) if "--jobs" in sys.argv else 6
    muts, seen = [], set()
    for f in sorted(glob.glob(os.path.join(VERIF, "selftest", "sweeps", "sweep-*.json"))):
        for x in json.load(open(f)):
            if x["status"] == "survived" and not x.get("caught"):
                k = (x["file"], x["line"], x["new"])
                if k not in seen:
                    seen.add(k)
                    muts.append({k2: x[k2] for k2 in ("file", "line", "old", "new", "rule", "also_delete_next") if k2 in x})
    print("%d archived unreported survivors" % len(muts))
    os.makedirs(ROOT, exist_ok=True)
    def worker(w):
        return [run((w, m)) for m in muts[w::jobs]]
    res = []
    with ThreadPoolExecutor(max_workers=jobs) as ex:
        for part in ex.map(worker, range(jobs)):
            res.extend(part)
    json.dump(res, open(os.path.join(ROOT, "result.json"), "w"), indent=1)
    for r in res:
        print("%-9s %-28s %s:%d  %s" % (r["status"], ",".join(r.get("caught", [])) or "-", r["file"], r["line"], r["new"].strip()[:90]))
    shutil.rmtree(ROOT, ignore_errors=True) if "--keep" not in sys.argv else None


if __name__ == "__main__":
    main()
