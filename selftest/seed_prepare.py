#!/usr/bin/env python3
"""Create scratch worktrees of /repo for seed sub-agents: /tmp/<root>/<id> with PROPERTY.txt (property text only).
usage: seed_prepare.py <root under /tmp> C01 C02 ..."""
import json, os, subprocess, sys
VERIF = os.path.dirname(os.path.dirname(os.path.abspath(__file__)))
root = os.path.join("/tmp", sys.argv[1])
props = {json.loads(l)["id"]: json.loads(l) for l in open(os.path.join(VERIF, "properties.jsonl"))}
os.makedirs(root, exist_ok=True)
for pid in sys.argv[2:]:
    wt = os.path.join(root, pid)
    subprocess.run(["git", "-C", "/repo", "worktree", "add", "--detach", "-f", wt, "HEAD"], check=True, stdout=subprocess.DEVNULL, stderr=subprocess.DEVNULL)
    p = props[pid]
    with open(os.path.join(wt, "PROPERTY.txt"), "w") as fh:
        fh.write("%s — %s\n\nStatement: %s\n\nQuantifier: %s\n" % (pid, p["title"], p["statement"], p["quantifier"]["text"]))
    print(wt)
