#!/usr/bin/env python3
"""Regression of detection power: every seeded change under /verif/seeded must still be reported by its own property's
quick check.  Each patch is applied to its own scratch copy of /repo (outside /repo and /verif, removed afterwards) and
checked through VERIF_REPO, several at a time.  A development aid (the thorough tier does the same per property).
usage: reseed.py [-j N] [substring]"""
import concurrent.futures
import glob
import json
import os
import shutil
import subprocess
import sys

VERIF = os.path.dirname(os.path.dirname(os.path.abspath(__file__)))
ROOT = "/tmp/reseed"


def one(d):
    sid = os.path.basename(d)
    meta = json.load(open(os.path.join(d, "meta.json")))
    prop = meta.get("property") or sid.split("-")[0]
    wt = os.path.join(ROOT, sid)
    shutil.rmtree(wt, ignore_errors=True)
    os.makedirs(wt)
    for item in ("src", "Cargo.toml", "Cargo.lock", "tests", "examples"):
        s = os.path.join("/repo", item)
        if os.path.isdir(s):
            shutil.copytree(s, os.path.join(wt, item))
        elif os.path.exists(s):
            shutil.copy(s, wt)
    try:
        p = subprocess.run(["patch", "-p1", "-s", "-i", os.path.join(d, "patch.diff")], cwd=wt, stdout=subprocess.PIPE, stderr=subprocess.STDOUT, text=True)
        if p.returncode:
            return sid, prop, "PATCH-FAILED", p.stdout[-300:]
        env = dict(os.environ, VERIF_REPO=wt, VERIF_EVIDENCE_DIR=os.path.join(ROOT, "ev-" + sid))
        p = subprocess.run([os.path.join(VERIF, "check"), prop, "--tier", "quick"], env=env, stdout=subprocess.PIPE, stderr=subprocess.STDOUT, text=True)
        v = [l.strip() for l in p.stdout.splitlines() if l.startswith("  violation")]
        return sid, prop, "caught" if p.returncode == 1 else ("MISSED" if p.returncode == 0 else "ERROR rc=%d" % p.returncode), (v[0][:200] if v else p.stdout[-300:])
    finally:
        shutil.rmtree(wt, ignore_errors=True)
        shutil.rmtree(os.path.join(ROOT, "ev-" + sid), ignore_errors=True)


def main():
    j = 6
    args = sys.argv[1:]
    if "-j" in args:
        j = int(args[args.index("-j") + 1])
        del args[args.index("-j"):args.index("-j") + 2]
    sub = args[0] if args else ""
    dirs = [d for d in sorted(glob.glob(os.path.join(VERIF, "seeded", "C*-agent*"))) if sub in d and os.path.exists(os.path.join(d, "patch.diff"))]
    bad = 0
    with concurrent.futures.ThreadPoolExecutor(max_workers=j) as ex:
        for sid, prop, res, detail in ex.map(one, dirs):
            if res != "caught":
                bad += 1
            print("%-8s %-12s %s  %s" % (res, sid, prop, detail if res != "caught" else detail[:110]), flush=True)
    shutil.rmtree(ROOT, ignore_errors=True)
    print("%d seeds, %d not caught by their own property" % (len(dirs), bad))
    return 1 if bad else 0


if __name__ == "__main__":
    sys.exit(main())
