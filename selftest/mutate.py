#!/usr/bin/env python3
"""Self-test of the checkers: apply one source mutation at a time to a scratch
copy of /repo (outside /repo and /verif), run the named property checks on it
and compare with the expectation (mutants must be reported; benign refactors
must stay silent).  Usage: mutate.py [--only name-substring] [--corpus file]"""
import json
import os
import shutil
import subprocess
import sys

VERIF = os.path.dirname(os.path.dirname(os.path.abspath(__file__)))
SCRATCH = os.environ.get("VERIF_SCRATCH", "/scratch/mut")


def copy_repo(dst):
    if os.path.exists(dst):
        shutil.rmtree(dst)
    os.makedirs(dst)
    for item in ("src", "Cargo.toml", "Cargo.lock", "tests", "examples"):
        s = os.path.join("/repo", item)
        if os.path.isdir(s):
            shutil.copytree(s, os.path.join(dst, item))
        elif os.path.exists(s):
            shutil.copy(s, dst)


def run_check(prop, repo):
    env = dict(os.environ)
    env["VERIF_REPO"] = repo
    env["VERIF_EVIDENCE_DIR"] = os.path.join(SCRATCH + "-evidence")
    p = subprocess.run([os.path.join(VERIF, "check"), prop], env=env, stdout=subprocess.PIPE, stderr=subprocess.STDOUT, text=True)
    return p.returncode, p.stdout


def main():
    corpus = os.path.join(VERIF, "selftest", "corpus.json")
    only = None
    args = sys.argv[1:]
    while args:
        a = args.pop(0)
        if a == "--only":
            only = args.pop(0)
        elif a == "--corpus":
            corpus = args.pop(0)
    with open(corpus) as fh:
        cases = json.load(fh)
    bad = 0
    for c in cases:
        if only and only not in c["name"]:
            continue
        copy_repo(SCRATCH)
        ok_apply = True
        for e in c["edits"]:
            p = os.path.join(SCRATCH, e["file"])
            s = open(p).read()
            if s.count(e["old"]) != 1:
                print("!! %s: edit does not apply uniquely in %s (%d matches)" % (c["name"], e["file"], s.count(e["old"])))
                ok_apply = False
                break
            open(p, "w").write(s.replace(e["old"], e["new"]))
        if not ok_apply:
            bad += 1
            continue
        for prop in c["props"]:
            rc, out = run_check(prop, SCRATCH)
            want = 0 if c.get("benign") else 1
            keys = [l.split("]")[1].split(":", 1)[1].strip()[:160] if "]" in l else l for l in out.splitlines() if l.startswith("  violation")]
            status = "ok" if rc == want else "MISMATCH"
            if rc == 2:
                status = "ERROR(rc=2)"
            if rc != want:
                bad += 1
            need = c.get("expect_key")
            if rc == 1 and need and not any(need in l for l in out.splitlines() if l.startswith("  violation")):
                status = "WRONG-KEY"
                bad += 1
            print("%-9s %-45s %s rc=%d  %s" % (status, c["name"], prop, rc, (keys[0] if keys else out.strip().splitlines()[-1] if out.strip() else "")[:170]))
            if rc == 2:
                print(out[-1500:])
    shutil.rmtree(SCRATCH, ignore_errors=True)
    shutil.rmtree(SCRATCH + "-evidence", ignore_errors=True)
    return 1 if bad else 0


if __name__ == "__main__":
    sys.exit(main())
