#!/usr/bin/env python3
"""Regenerate MANIFEST.json from the per-property table below (kept in one place so that the
manifest stays valid and in sync with the armed checks)."""
import json, os
HERE = os.path.dirname(os.path.abspath(__file__))
props = [json.loads(l) for l in open(os.path.join(HERE, "properties.jsonl"))]

ARMED = {
 "C09": dict(technique="panic inventory over the MIR call-graph closure + discharge (token-kind typestate dataflow, lexer-spec class algebra, dominating guards, origin slices, who-may-construct)",
   text="Every panic-capable construct reachable from from_str/parse (non-UB MIR Assert, core::panicking call at its macro call-site, call into the may-panic API table, unclassified external callee) must be discharged by a machine-checked rule; parser loops must consume a token on every kind-feasible iteration; every ParseError location operand must be a lexer span / pair of lexer span endpoints without arithmetic. All paths of the analysed functions, no sampling. This is the right level because panics, loops without progress and span arithmetic are visible in the shape of the code; what is not decided (stack depth, miette rendering) is excluded by the property or is library behaviour.",
   note="Trusted: rustc's MIR and callee resolution; logos' generated lexer (spans are token boundaries, longest match); std contracts in the may-panic/safe tables (an unclassified external callee is reported, not assumed safe). Assumption: usize counters advanced once per token do not wrap.", ref="5 C09"),
 "C10": dict(technique="panic inventory over the MIR call-graph closure + discharge (index-table lemmas, stack-height typestate, residual-variant lemma, function-table arity lemma, constant folding over bit widths, uninhabited error type) + path tables for the four error conditions",
   text="Every panic-capable construct reachable from try_iter/try_new/next/vars/try_iter_static/the static iterator and the public value helpers must be discharged by a machine-checked rule resting on who-may-construct / origin / guard lemmas (SIGIDX, ROWWIDTH, INPUTIDX, OUTIDX, STK, RESIDUAL, FUNC, BITS, FRAMES, COUNTER); division/remainder by zero, unbound variable and empty random range must end in Err(..) on the corresponding edge, and an evaluation error must leave next() as Some(Err(Runtime(..))). Decides panic-freedom of all paths structurally; does not execute programs.",
   note="Trusted: rustc MIR; std/rand contracts of the may-panic table. Environment assumption (allow-listed, printed): getrandom does not fail. Callers mutating the pub fields TestCase.signals / ParsedTestCase.signals after loading are outside 'accepted at load time'. Driver calls are the driver's responsibility.", ref="5 C10"),
 "C11": dict(technique="must-pass-through / error-propagation on with_signals' paths, decision-table extraction of each check's condition, who-may-construct error inventory, scope-effect traces of the statement parser, panic inventory",
   text="Decides the decomposition of the 'iff': all five load-time checks lie in order on every path to the TestCase literal with their errors propagated; each check's rejecting condition is extracted and compared with the reference (duplicates, unknown columns, C columns input-capable, reads output-capable; is_input/is_output tables); no further SignalError site exists; the parser's scoping that determines which identifiers count as reads (loop/repeat frames, while none, let after rhs, declare empties and restores, read iff not a variable) is checked as ordered effect traces; with_signals' closure is panic-free; the index lemmas that make an accepted test iterable hold.",
   note="The relation over all (program, signal list) pairs is decided only through these conditions (each decided on all paths). Trusted: rustc MIR, std HashSet/Iterator contracts. The header column bound by two signals (A_out both ways) is outside the statement.", ref="5 C11"),
}

checks = []
for p in props:
    a = ARMED.get(p["id"])
    if not a:
        continue
    checks.append({
        "property_id": p["id"],
        "quick_cmd": "./check %s --tier quick" % p["id"],
        "thorough_cmd": "./check %s --tier thorough" % p["id"],
        "evidence_file": "evidence/%s.json" % p["id"],
        "replay_cmd_template": "./check %s --replay {path}" % p["id"],
        "engine": "rules",
        "level_claimed": {"category": "other", "text": a["text"], "design_ref": "DESIGN.md section " + a["ref"]},
        "level_note": a["note"],
        "technique": "static analysis: " + a["technique"],
    })
m = {
 "version": 1,
 "setup_cmd": "cd /verif/engine/mirx && CARGO_NET_OFFLINE=true cargo +nightly build --offline",
 "hooks": {"guard": "digital_test_runner_verif", "enable": "none needed: the static checks read the unmodified sources of /repo's working tree (no hooks are compiled in)", "baseline_off_cmd": "cd /repo && cargo test --workspace --no-fail-fast --offline", "source_commits": [], "add_only": True},
 "engines": [
  {"name": "mirx", "path": "engine/mirx", "serves_properties": sorted(ARMED), "kind_free_text": "rustc_private fact extractor (MIR with resolved callees, ADT tables, expanded-AST logos attributes, HIR of consts) injected as RUSTC_WORKSPACE_WRAPPER under cargo +nightly check --lib on /repo's working tree; digest-keyed cache so an edited tree re-extracts"},
  {"name": "rules", "path": "engine/rules", "serves_properties": sorted(ARMED), "kind_free_text": "Python rule library over the extracted facts: CFG/dominators/path enumeration, origin slices (reaching definitions), call graph, panic inventory + discharge rules, token-kind typestate (TKA), lexer-spec class algebra (LEX), decision-table extraction (TAB), constant folding over finite domains (FOLD)"}],
 "checks": checks,
 "notes": "Static analysis only; the deciding step reads /repo's current sources through rustc and never executes the crate. Genuine defects found were repaired in /repo as 12 'fix:' commits (known_findings.json lists them as fixed). See DESIGN.md.",
 "not_applicable": [{"property_id": p["id"], "reason": "check under construction in this round: the static rule is designed in DESIGN.md section 5 but not yet armed; nothing is claimed for this property until it is"} for p in props if p["id"] not in ARMED],
}
json.dump(m, open(os.path.join(HERE, "MANIFEST.json"), "w"), indent=1)
print("manifest: %d checks, %d not_applicable" % (len(checks), len(m["not_applicable"])))
