#!/usr/bin/env python3
"""Regenerate MANIFEST.json from the per-property table below (kept in one place so that the
manifest stays valid and in sync with the armed checks)."""
import json, os
HERE = os.path.dirname(os.path.abspath(__file__))
props = [json.loads(l) for l in open(os.path.join(HERE, "properties.jsonl"))]

STD_NOTE = "Trusted: rustc's MIR construction and callee resolution for the real build of /repo's working tree; the std/library contracts named in the evidence file. Idiom-bound recognisers report an unrecognised formulation as a violation rather than passing it."

ARMED = {
 "C01": dict(technique="automaton extraction from the resumable interpreter's MIR (states = variants of the dispatched state, edges = acyclic paths with guards/effects/next state/exit) + per-construct obligations (sequencing, row, let, frame pairing by depth propagation, bound once, counter protocol, zero-trip guard, body, while, resetRandom) + decision tables of FramedMap / DataEntry::eval / parser desugaring",
   text="Decides all ten local obligations of the structural induction written in DESIGN.md on every edge of the extracted automaton (states classified by behaviour, not by name), plus the FramedMap scoping discipline, the MSB-first bits expansion and the parser's loop/repeat/while desugaring. The claim is that every per-construct obligation holds on all paths; equality of the yielded rows with a reference interpreter for a given program is not computed (no program is executed) and follows only through the hand induction.",
   note=STD_NOTE + " The induction itself (DESIGN.md section 5, C01) is a hand argument.", ref="5 C01"),
 "C02": dict(technique="who-may-call from public entry points over the call graph, path counting of driver calls split by result shape with callee summaries, guard and origin-slice rules on the call arguments",
   text="Fully structural, every clause decided on all paths: which entry points can reach a driver call (transitively); exactly one read-call with the default vector in the constructor; exactly one driver call per yielded row, none for None, at most one for an error item; read-call iff update_output else write-call with empty outputs; the argument of each call is the row's own input vector passed by reborrow and the yielded DataRow.inputs is that same vector; update_output is cleared only by the clock expansion.",
   note=STD_NOTE + " A user override of write_input is user code.", ref="5 C02"),
 "C03": dict(technique="decision-table extraction (3x3 verdict table with n==m leaf compared with a reference written from the property), term equality of the helper methods, guard+origin rules on the extraction closure, pipeline alignment rules",
   text="Decides the verdict table, check/is_checked/failing_outputs as terms, that a reported output is outputs[i].value of this call's answer on the edge where the entry's own signal equals outputs[i].signal with the learnt position i, never-supplied => X, and that expected entries / output indices / extracted values are aligned forward pipelines over the same index list.",
   note=STD_NOTE, ref="5 C03"),
 "C04": dict(technique="who-may-write / who-may-call on the outputs map, ordering (must-pass-through) rules in handle_io / next / try_new, decision tables of EvalContext::get and Expr::Variable",
   text="Decides: variables shadow outputs; only set_outputs writes the map, replacing it with exactly its argument, called only with the constructor's answer and in the read branch; the write branch refreshes nothing; a row is evaluated strictly before its own IO and nothing is evaluated afterwards; the missing-read-output check lies on every Ok path of the constructor with its error propagated; a Z/X/unbound read is an error.",
   note=STD_NOTE, ref="5 C04"),
 "C05": dict(technique="guard tables of the X/C selectors, stack-height typestate of the row cache, ordered effect traces of expand_x / expand_c (writes, update_output, push/pop in reverse post-order) compared with the reference push orders, composition order in get_row",
   text="Decides necessary structural conditions, each genuine: selection iff entry == X/C and the column is an input; refill only when the cache is empty, then expand_x, expand_c, one pop; expand_c pushes {C=0 checked, expected kept}, then {expected := X, unchecked, C=1}, then {C=0}; expand_x splits the right-most input X writing 1 then 0 with the 0-copy on top. With LIFO this is the documented order; the full 2^k / triple sequence as a value rests on the hand induction and is not computed.",
   note=STD_NOTE + " Idiom-bound: a re-implementation with another data structure is reported as unrecognised.", ref="5 C05"),
 "C06": dict(technique="decision-table extraction over SignalType x lookup result in build_indices, per-(index variant x entry variant) row tables of the generators, origin slices of name lookups / changed flags / prev",
   text="Decides: columns bound by header.position(name) resp. name+\"_out\"; which list gets which column per signal type, Entry iff found, signal_index = position in the signal list, one forward pass; generators map indices to (value from own column, signals[signal_index], changed from the same column), defaults unflagged, omitted expected => X; changed = elementwise != against the previous returned row; prev written only by get_row on every returned row.",
   note=STD_NOTE, ref="5 C06"),
 "C07": dict(technique="who-may-construct + origin slice of the masked value + exact constant folding of the mask computation for every width 1..=64 under both overflow-check modes",
   text="Decided exactly because the width dimension is finite: every Number entry becomes payload & m with m a function of the bits of the very signal stored in the entry; folding m for all 64 widths in checked and unchecked mode shows no failing Assert and m == 2^bits-1 (as a 64-bit pattern); Z/X pass through; virtual signals are built with 64 bits.",
   note=STD_NOTE + " Uses the identity n & (2^b-1) == n mod 2^b in two's complement.", ref="5 C07"),
 "C08": dict(technique="lexer-spec literals composed with conversion tables, precedence as an ordered partition, shape of the tree-insertion routine, per-operator result terms against an accepted set, path tables for operand order / lazy ite / literal radix, regex language equality",
   text="Decides operator spellings, the 8 precedence levels (as an ordered partition), descend-right-iff-strictly-tighter insertion with role-preserving conversion, unary operand parsed as a factor, per-operator wrapping/masking/comparison terms with division under a zero test, left-then-right single evaluation, ite evaluating exactly the selected branch, and literal kinds/radices with regex languages equal to the reference. The tree-building clause rests on the stated hand invariant.",
   note=STD_NOTE + " The accepted terms define the reference semantics.", ref="5 C08"),
 "C12": dict(technique="grammar-trace extraction over the parser CFG (consumed terminals / non-terminals per production on Ok paths, compared with a reference grammar), block-exit ordering rule, guards on widths / arity / duplicates / header termination",
   text="Decides that each statement / row-entry / factor production consumes exactly the reference token sequence on its Ok paths, that a block returns Ok only from the End arm after `end <kw>` of its own kind or from the Eof arm at top level (with or without a trailing newline), that after a statement only newline or end of input is accepted, row width equality, bits <= 64, unknown function / arity, duplicate header and declare names, header only at a line break, literal = checked conversion.",
   note=STD_NOTE + " Token primitives are verified against their summaries.", ref="5 C12"),
 "C13": dict(technique="origin slices of the driver's Err payload through `?` and the derived From impl (read from MIR), path counting per next(), guard tables of the extraction closure, lemma on the remembered answer length",
   text="Decides: the driver's error is moved unchanged into IterationError::Driver and returned by the call that failed (constructor or that row's next()), one driver call per next() so earlier rows are unaffected; every outputs[i] read is dominated by the length test against the remembered first-answer length and the value is returned only on the signal-identity edge.",
   note=STD_NOTE, ref="5 C13"),
 "C14": dict(technique="constant/origin rules on the virtual Signal literal, ordering in handle_io, open/close pairing of swap_vars on all paths, who-may-write the alternate map, decision table of the Virtual arm, parser scope traces",
   text="Decides: one 64-bit Virtual signal per declaration in order; evaluated after set_outputs with this call's answer; swap_vars before and after on every evaluating path with only iterator plumbing in between and a shared context reference; alt_vars only ever swapped; evaluation error becomes the row's error item; declaration expressions are parsed with the variable set emptied and restored.",
   note=STD_NOTE, ref="5 C14"),
 "C15": dict(technique="order-leak rule over every hash-container iteration site (must-pass-through sort / order-free consumer / error text / commuting loop), inventories of statics / thread-locals / ambient inputs, Freeze and ownership type facts, guard and term rules for the static iterator",
   text="Decides: no hash order reaches a result (each iteration site classified and its class condition checked); no global or interior-mutable state, only getrandom as ambient input; TestCase is Freeze and borrowed immutably, run state owned by the iterator; try_iter_static errs exactly when outputs are read; the static iterator is a dynamic iterator whose rows are mapped field by field; the driver's answers flow only into the outputs map, the output values and the layout tests; the parser's scope (which decides what counts as an output read) follows the let/loop/repeat/declare scoping rules and discards names bound in a body the interpreter may skip. The last rule reports one known finding on the current tree (F18: while bodies, DESIGN.md 12.1), printed as KNOWN-FINDING.",
   note=STD_NOTE + " Open finding F18 is listed in known_findings.json.", ref="5 C15"),
 "C16": dict(technique="panic inventory + discharge, constant-table rule (element names x downstream literals, attribute keys and defaults), pipeline order/verbatim rules, guard tables of the bidirectional rule, path tables of load_test / load_test_by_name",
   text="Decides panic-freedom of the loading closure, the element -> signal/test mapping with its constants and defaults, document order and verbatim source, that a name is treated as bidirectional only when no pin has the full name and the stripped name is an Input pin (default kept), and the load_test / load_test_by_name tables. That the XML walk selects the intended nodes in every document, and behaviour under arbitrary corruption beyond panic-freedom, are not applicable to static analysis (roxmltree's run-time interpretation).",
   note=STD_NOTE + " Library assumption: roxmltree text positions are 1-based and within the text.", ref="5 C16"),
 "C17": dict(technique="term/origin rule on the sampled range, path counting of draws, who-may-call / who-may-touch the generator, origin rules of seeding and reset",
   text="Decides: random samples a half-open Range{c>=0 .. eval(arg)} once and returns it unchanged; one evaluation of the bound and one gen_range per evaluation, no other generator call; random is called only from the table function and the generator is touched only by construction, reset and random; ite evaluates only the selected branch; reset re-creates the generator from the stored seed, which is never rewritten. Values and distribution are the library's.",
   note=STD_NOTE + " rand's contracts are trusted.", ref="5 C17"),
 "C18": dict(technique="origin slices of the vars() chain, guard table of flatten, who-may-call the variable writers, call-closure disjointness between evaluation and return, swap pairing",
   text="Decides: vars() is flatten of the live `vars` map; flatten scans innermost-first and keeps the first occurrence; only the interpreter binds variables and moves frames; nothing reachable between a row's evaluation and the return of next() can write the map; cached expansion rows do not run the interpreter; the swap around virtual-signal evaluation is always undone. Frame discipline itself is C01's.",
   note=STD_NOTE, ref="5 C18"),
 "C19": dict(technique="who-may-write the line counters with guards, lexer-spec class algebra (newline exclusivity, CR skipped), token-kind typestate post-condition of the row parser, ordering between that return and the read of the counter, origin chain of `line`",
   text="Decides: counters start at 1, are handed over unchanged, +1 exactly per consumed Eol; only Eol can contain a newline in both lexers and CR is skipped; the row parser stops before the line end and the row reads the counter before any further token is consumed; line is copied unchanged from the statement to every public row type.",
   note=STD_NOTE + " logos longest match is trusted.", ref="5 C19"),
 "C20": dict(technique="lexer-spec class algebra (skip classes, statelessness), backward taint from result constructors and branch conditions to span-derived values, type facts, who-may-call the token text, literal rules",
   text="Decides: blanks and comments are exactly the skipped classes and cannot be part of other tokens, the lexer is stateless; no span-derived value reaches a result constructor or a parser branch (only text(), error locations, sort keys); result types carry no positions but line; token text is used only for names, the c/x/z letters and literals; radix handling and line counting as in C08/C19. Maximal-munch questions are outside the property's rewritings.",
   note=STD_NOTE, ref="5 C20"),
 "C09": dict(technique="panic inventory over the MIR call-graph closure + discharge (token-kind typestate dataflow, lexer-spec class algebra, dominating guards, origin slices, who-may-construct)",
   text="Every panic-capable construct reachable from from_str/parse (non-UB MIR Assert, core::panicking call at its macro call-site, call into the may-panic API table, unclassified external callee) must be discharged by a machine-checked rule; parser loops must consume a token on every kind-feasible iteration; every ParseError location operand must be a lexer span / pair of lexer span endpoints without arithmetic. All paths of the analysed functions, no sampling. This is the right level because panics, loops without progress and span arithmetic are visible in the shape of the code; what is not decided (stack depth, miette rendering) is excluded by the property or is library behaviour.",
   note="Trusted: rustc's MIR and callee resolution; logos' generated lexer (spans are token boundaries, longest match); std contracts in the may-panic/safe tables (an unclassified external callee is reported, not assumed safe). Assumption: usize counters advanced once per token do not wrap.", ref="5 C09"),
 "C10": dict(technique="panic inventory over the MIR call-graph closure + discharge (index-table lemmas, stack-height typestate, residual-variant lemma, function-table arity lemma, constant folding over bit widths, uninhabited error type) + path tables for the four error conditions",
   text="Every panic-capable construct reachable from try_iter/try_new/next/vars/try_iter_static/the static iterator and the public value helpers must be discharged by a machine-checked rule resting on who-may-construct / origin / guard lemmas (SIGIDX, ROWWIDTH, INPUTIDX, OUTIDX, STK, RESIDUAL, FUNC, BITS, FRAMES, COUNTER); division/remainder by zero, unbound variable and empty random range must end in Err(..) on the corresponding edge, and an evaluation error must leave next() as Some(Err(Runtime(..))). Decides panic-freedom of all paths structurally; does not execute programs.",
   note="Trusted: rustc MIR; std/rand contracts of the may-panic table. Environment assumption (allow-listed, printed): getrandom does not fail. Callers mutating the pub fields TestCase.signals / ParsedTestCase.signals after loading are outside 'accepted at load time'. Driver calls are the driver's responsibility.", ref="5 C10"),
 "C11": dict(technique="must-pass-through / error-propagation on with_signals' paths, decision-table extraction of each check's condition, who-may-construct error inventory, scope-effect traces of the statement parser, panic inventory",
   text="Decides the decomposition of the 'iff': all five load-time checks lie in order on every path to the TestCase literal with their errors propagated; each check's rejecting condition is extracted and compared with the reference (duplicates, unknown columns, C columns input-capable, reads output-capable; is_input/is_output tables); no further SignalError site exists; the parser's scoping that determines which identifiers count as reads (loop/repeat frames, while none, let after rhs, declare empties and restores, read iff not a variable) is checked as ordered effect traces; with_signals' closure is panic-free; the index lemmas that make an accepted test iterable hold.",
   note="The relation over all (program, signal list) pairs is decided only through these conditions (each decided on all paths). Trusted: rustc MIR, std HashSet/Iterator contracts. The header column bound by two signals (A_out both ways) is outside the statement.", ref="5 C11"),
}

checks = []
for p in props:
    a = ARMED.get(p["id"])
    if not a:
        continue
    checks.append({
        "property_id": p["id"],
        "quick_cmd": "./check %s --tier quick" % p["id"],
        "thorough_cmd": "./check %s --tier thorough" % p["id"],
        "evidence_file": "evidence/%s.json" % p["id"],
        "replay_cmd_template": "./check %s --replay {path}" % p["id"],
        "engine": "rules",
        "level_claimed": {"category": "other", "text": a["text"], "design_ref": "DESIGN.md section " + a["ref"]},
        "level_note": a["note"],
        "technique": "static analysis: " + a["technique"],
    })
m = {
 "version": 1,
 "setup_cmd": "cd /verif/engine/mirx && CARGO_NET_OFFLINE=true cargo +nightly build --offline",
 "hooks": {"guard": "digital_test_runner_verif", "enable": "none needed: the static checks read the unmodified sources of /repo's working tree (no hooks are compiled in)", "baseline_off_cmd": "cd /repo && cargo test --workspace --no-fail-fast --offline", "source_commits": [], "add_only": True},
 "engines": [
  {"name": "mirx", "path": "engine/mirx", "serves_properties": sorted(ARMED), "kind_free_text": "rustc_private fact extractor (MIR with resolved callees, ADT tables, expanded-AST logos attributes, HIR of consts) injected as RUSTC_WORKSPACE_WRAPPER under cargo +nightly check --lib on /repo's working tree; digest-keyed cache so an edited tree re-extracts"},
  {"name": "rules", "path": "engine/rules", "serves_properties": sorted(ARMED), "kind_free_text": "Python rule library over the extracted facts: CFG/dominators/path enumeration, origin slices (reaching definitions), call graph, panic inventory + discharge rules, token-kind typestate (TKA), lexer-spec class algebra (LEX), decision-table extraction (TAB), constant folding over finite domains (FOLD)"}],
 "checks": checks,
 "notes": "Static analysis only; the deciding step reads /repo's current sources through rustc and never executes the crate. Genuine defects found were repaired in /repo as 12 'fix:' commits (known_findings.json lists them as fixed). See DESIGN.md.",
 "not_applicable": [{"property_id": p["id"], "reason": "check under construction in this round: the static rule is designed in DESIGN.md section 5 but not yet armed; nothing is claimed for this property until it is"} for p in props if p["id"] not in ARMED],
}
json.dump(m, open(os.path.join(HERE, "MANIFEST.json"), "w"), indent=1)
print("manifest: %d checks, %d not_applicable" % (len(checks), len(m["not_applicable"])))
