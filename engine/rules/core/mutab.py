"""Writes that the origin slice does not see: a local that is modified in place after it was built.

A term describes how a value was built.  `let mut v = f(); v.retain(..); g(&v)` reads as `g(f())`: the write through the
`&mut` borrow (or a store into a field of the local) is not part of the term.  Where the code accumulates on purpose —
push in a loop, sort before returning, fill a row in place — the rules look at the writes themselves, and those
(function, local, writer) triples are confirmed below.  Any other in-place write makes the local's term read
`mut!(<term> via <writer>)`, so that every rule that reads that value — and only those — no longer recognises it."""
import re
from .facts import callee_name

# consuming an iterator / drawing from a generator through `&mut` is how they are read, not a change of what they denote
READS = re.compile(r"^(Iterator::\w+|DoubleEndedIterator::\w+|Peekable::\w+|Rng::gen_range|Drop::drop)$")

CONFIRMED = {'data_row_iterator::DataRowIterator::try_new': {'test_data': ['DataRowIteratorTestData::build_output_indices']},
 'data_row_iterator::DataRowIteratorTestData::build_output_indices': {'found_outputs': ['Vec::push'], 'output_indices': ['Vec::push']},
 'data_row_iterator::DataRowIteratorTestData::expand_c': {'row_result': ['<store .update_output>', 'IndexMut::index_mut']},
 'data_row_iterator::DataRowIteratorTestData::expand_x': {'row_result': ['IndexMut::index_mut']},
 'dig::File::parse': {'<temp>': ['HeaderParser::parse'],
                      'bidirectional': ['HashSet::insert'],
                      'signals': ['[T]::iter_mut'],
                      'test_signal_names': ['HashSet::insert']},
 'errors::SignalError::with_source': {'self': ['<borrow kept>']},
 'eval_context::EvalContext::new': {'seed_bytes': ['<borrow kept>']},
 'eval_context::EvalContext::new_with_outputs': {'ctx': ['EvalContext::set_outputs']},
 'framed_map::FramedMap::flatten': {'values': ['HashMap::insert']},
 'parsed_test_case::ParsedTestCase::build_indices': {'expected_indices': ['Vec::push'], 'input_indices': ['Vec::push']},
 'parsed_test_case::ParsedTestCase::build_read_outputs': {'read_outputs': ['Vec::push']},
 'parsed_test_case::ParsedTestCase::check_duplicate_signals': {'names': ['HashSet::insert']},
 'parsed_test_case::ParsedTestCase::parse': {'parser': ['HeaderParser::parse', 'Parser::parse_stmt_block']},
 'parsed_test_case::ParsedTestCase::with_signals': {'self': ['ParsedTestCase::build_read_outputs',
                                                             'ParsedTestCase::check_and_consume_expected_inputs',
                                                             'Vec::drain'],
                                                    'signals': ['Extend::extend']},
 'parser::HeaderParser::parse': {'signals': ['Vec::push'], 'spans': ['Vec::push']},
 'parser::Parser::finish': {'expected_inputs': ['[T]::sort_by'], 'read_outputs': ['[T]::sort_by'], 'virtual_signals': ['[T]::sort_by']},
 'parser::expr::<impl parser::Parser>::parse_expr': {'tree': ['BinOpTree::add']},
 'parser::expr::<impl parser::Parser>::parse_factor': {'args': ['Vec::push']},
 'parser::stmt::<impl parser::Parser>::parse_data_row': {'data': ['Vec::push']},
 'parser::stmt::<impl parser::Parser>::parse_stmt_block': {'block': ['Vec::push']},
 'stmt::StmtIterator::next_with_context': {'entries': ['Extend::extend']}}

_SHORT_RE = re.compile(r"^<(.+) as (.+)>::(\w+)$")


def _short(name):
    from .prog import short
    return short(name)


def writes(b, only=None):
    """{local name: sorted writers} over the locals of `b` (`only`: restrict to these local indices).  A writer is the callee
    that receives a `&mut` borrow of the local (followed through re-borrows and deref_mut), `<borrow kept>` when the borrow is
    not handed to a call, or `<store .field>` for an assignment into a projection of the local."""
    out = {}

    def name_of(l):
        return b.debug_names.get(l) or "<temp>"
    for bi, blk in enumerate(b.blocks):
        for st in blk["stmts"]:
            if st["s"] != "assign":
                continue
            lhs = st["lhs"]
            if lhs["p"] and lhs["p"][0] != "*" and (only is None or lhs["l"] in only) and lhs["l"] >= 1:
                f = next((e.get("f") for e in lhs["p"] if isinstance(e, dict) and "f" in e), "?")
                out.setdefault(name_of(lhs["l"]), set()).add("<store .%s>" % f)
            if st["rv"]["r"] == "ref" and st["rv"].get("bk") == "mut":
                a = st["rv"]["a"]
                if (only is None or a["l"] in only) and not (a["p"] and a["p"][0] == "*"):
                    users = set()
                    work, seen = [st["lhs"]["l"]], set()
                    while work:
                        cur = work.pop()
                        if cur in seen:
                            continue
                        seen.add(cur)
                        for blk2 in b.blocks:
                            for st2 in blk2["stmts"]:   # a re-borrow or move of the borrow
                                if st2["s"] == "assign" and not st2["lhs"]["p"] and st2["rv"]["r"] in ("use", "ref") and isinstance(st2["rv"]["a"], dict) and st2["rv"]["a"].get("l") == cur:
                                    work.append(st2["lhs"]["l"])
                            t = blk2["term"]
                            if t["t"] == "call" and any(isinstance(x, dict) and x.get("l") == cur and not x.get("p") for x in t["args"]):
                                nm = _short(callee_name(t)[0])
                                if nm.endswith("deref_mut") or nm.endswith("as_mut") or nm.endswith("borrow_mut"):
                                    work.append(t["dest"]["l"])   # Vec -> slice: what is done with the slice counts
                                else:
                                    users.add(nm)
                    out.setdefault(name_of(a["l"]), set()).update(users or {"<borrow kept>"})
    return {k: sorted(x for x in v if not READS.match(x)) for k, v in out.items() if any(not READS.match(x) for x in v)}


def unconfirmed(b):
    """{local index: writers not confirmed for (function, local name)}."""
    if b.derived:
        return {}
    conf = dict(CONFIRMED.get(b.name, {}))
    byname = writes(b)
    out = {}
    if not byname:
        return out
    # a confirmed local that was merely renamed: its old name is gone from the function, and exactly one new name has
    # writers within the old name's confirmed set
    present = set(b.debug_names.values())
    gone = {m: w for m, w in conf.items() if m not in present and m != "<temp>"}
    for nm in sorted(byname):
        if nm in conf or nm == "<temp>":
            continue
        cands = [m for m, w in gone.items() if set(byname[nm]) <= set(w)]
        if len(cands) == 1:
            conf[nm] = gone.pop(cands[0])
    # a local of a helper that is read at its call site (facts: extracted helper): code that moved out of this function keeps the
    # writers confirmed for this function — `let mut v = ..collect(); v.sort_by(..); v` extracted out of `finish` is the same accumulation
    moved_writers = set(w for ws in CONFIRMED.get(b.name, {}).values() for w in ws)
    for nm in sorted(byname):
        if nm not in conf and nm in getattr(b, "inlined_local_names", ()) and set(byname[nm]) <= moved_writers:
            conf[nm] = list(byname[nm])
    for l in range(1, len(b.locals)):   # by-value parameters included: `fn f(mut self) { self.v.clear(); .. }`
        nm = b.debug_names.get(l) or "<temp>"
        extra = sorted(set(byname.get(nm, [])) - set(conf.get(nm, [])))
        if extra:
            out[l] = extra
    return out
