"""TKA: token-kind typestate analysis of the recursive-descent parser.

Abstract state per program point: K = set of kinds the next unconsumed token
may have, E = whether the Eof token may already have been consumed, V = abstract
values of locals (kind sets of peeked / consumed tokens, results of parser
calls).  Forward dataflow with edge refinement on kind tests; function summaries
to a fixpoint over the recursive parser call graph; `parse_stmt_block` is analysed
per constant context of its `end_token` argument.
"""
import re
from .facts import callee_name, norm_name
from . import terms, tab
from .prog import canon

PARSER = "parser::Parser"
PRIMS = {
    "parser::Parser::get": "get",
    "parser::Parser::peek": "peek",
    "parser::Parser::peek_span": "peek_span",
    "parser::Parser::at": "at",
    "parser::Parser::skip": "skip",
    "parser::Parser::expect": "expect",
}
TOKENKIND = "lexer::token::TokenKind"


class State:
    """K: kinds of the next token; Eb/Ed: Eof consumed (base flag / dependent on
    the kind sets of consumed tokens `TK[id]`); V: abstract values of locals."""
    __slots__ = ("K", "Eb", "Ed", "V", "TK", "C")

    def __init__(self, K, Eb, Ed, V, TK, C=0):
        self.K = K
        self.Eb = Eb
        self.Ed = Ed
        self.V = V
        self.TK = TK
        self.C = C      # lower bound (0/1) on tokens consumed since function entry

    def copy(self):
        return State(self.K, self.Eb, self.Ed, dict(self.V), dict(self.TK), self.C)

    def E(self):
        return self.Eb or any("Eof" in self.TK.get(i, ()) for i in self.Ed)

    def join(self, o):
        V = {}
        for l, v in self.V.items():
            w = o.V.get(l)
            if w is None:
                continue
            j = join_val(v, w)
            if j is not None:
                V[l] = j
        TK = dict(self.TK)
        for i, ks in o.TK.items():
            TK[i] = TK.get(i, frozenset()) | ks
        return State(self.K | o.K, self.Eb or o.Eb, self.Ed | o.Ed, V, TK, min(self.C, o.C))

    def eq(self, o):
        return self.K == o.K and self.Eb == o.Eb and self.Ed == o.Ed and self.V == o.V and self.TK == o.TK and self.C == o.C


def join_val(a, b):
    if a[0] != b[0]:
        return None
    if a[0] == "kind":
        # ('kind', set, tied, tokid)
        if a[3] != b[3]:
            return ("kind", a[1] | b[1], a[2] and b[2], None)
        return ("kind", a[1] | b[1], a[2] and b[2], a[3])
    if a[0] == "tok":
        return a if a == b else None
    if a[0] == "res":
        return a if a == b else (a if a[1:4] == b[1:4] else None)
    if a[0] in ("optk", "boolat", "boolpred", "booleq", "boolconst", "call"):
        return a if a == b else None
    return None


class TKA:
    def __init__(self, P):
        self.P = P
        adt = P.f.adts.get(TOKENKIND)
        self.kinds = [v["name"] for v in adt["variants"]] if adt else []
        self.FULL = frozenset(self.kinds)
        self.summaries = {}     # (fn, ctx) -> (K_ok, E_ok) or None
        self.results = {}       # (fn, ctx) -> analysis result
        self.problems = []      # (key, msg, site)
        self.sites = []         # records of token API sites
        self.kind_tables = {}
        self.prim_ok = {}

    # -- tables of kind predicates / conversions -------------------------------
    def kind_pred(self, fn):
        """Set of kinds for which bool fn `fn(&TokenKind)` returns true."""
        if fn in self.kind_tables:
            return self.kind_tables[fn]
        b = self.P.body(fn)
        res = None
        if b is not None:
            vt = tab.variant_table(self.P, b)
            t = set()
            okk = True
            for v, rs in vt.items():
                if rs == {"1"}:
                    t.add(v)
                elif rs != {"0"}:
                    okk = False
            res = frozenset(t) if okk else None
        self.kind_tables[fn] = res
        return res

    def conv_domain(self, fn):
        """Kinds a `From<TokenKind>` conversion maps without panicking."""
        key = "conv:" + fn
        if key in self.kind_tables:
            return self.kind_tables[key]
        b = self.P.body(fn)
        res = None
        if b is not None:
            vt = tab.variant_table(self.P, b)
            res = frozenset(v for v, rs in vt.items() if "!panic" not in rs and v != "*")
        self.kind_tables[key] = res
        return res

    # -- primitive summaries are verified against their bodies ------------------
    def verify_primitives(self, chk):
        P = self.P
        ok = True

        def rets(name):
            b = P.body(name)
            if b is None:
                return None
            return sorted(set(canon(P.sl(b).ret(rb)) for rb in P.cfg(b).return_blocks()))

        def req(oid, cond, okd, bad):
            nonlocal ok
            ok &= bool(chk.require(bool(cond), "TKA", "tka:primitive:" + oid, okd, bad))

        r = rets("parser::Parser::peek")
        req("peek", r and len(r) == 1 and re.fullmatch(r"Option::expect\(Peekable::peek\(self\.iter\), '[^']*'\)\.kind", r[0]), "peek() = iter.peek().expect(..).kind", "Parser::peek returns %s" % r)
        r = rets("parser::Parser::peek_span")
        req("peek_span", r and len(r) == 1 and re.fullmatch(r"Clone::clone\(Option::expect\(Peekable::peek\(self\.iter\), '[^']*'\)\.span\)", r[0]), "peek_span() = iter.peek().expect(..).span.clone()", "Parser::peek_span returns %s" % r)
        r = rets("parser::Parser::at")
        req("at", r == ["PartialEq::eq(Parser::peek(self), kind)"], "at(k) = peek() == k", "Parser::at returns %s" % r)
        sk = P.body("parser::Parser::skip")
        if sk is not None:
            cs = [(callee_name(t)[0], [canon(x) for x in P.sl(sk).call_args(bb)]) for bb, t in sk.calls()]
            req("skip", [c[0] for c in cs] == ["parser::Parser::get", "std::result::Result::expect"] and cs[1][1][0] == "Parser::get(self)", "skip() = get().expect(..)", "Parser::skip calls %s" % cs)
        else:
            req("skip", False, "", "Parser::skip not found")
        g = P.body("parser::Parser::get")
        if g is not None:
            nexts = [bb for bb, t in g.calls() if callee_name(t)[0] == "<std::iter::Peekable<I> as std::iter::Iterator>::next"]
            good = len(nexts) == 1 and canon(P.sl(g).call_args(nexts[0])[0]) == "self.iter"
            shapes = set()
            for pi in tab.paths(P, g, to_return_only=True):
                dec = [(d[1], d[2]) for d in pi.decisions() if d[0] == "variant"]
                r_ = terms.strip(pi.ret())
                shape = r_[2].split("::")[-1] if r_[0] == "agg" else canon(r_)
                if r_[0] == "call" and "from_residual" in r_[1]:
                    shape = "Err"       # `opt.ok_or_else(..)?`: the error leaves through `?`
                payload = canon(r_[3][0][1]) if r_[0] == "agg" and r_[3] else ""
                for subj, names in dec:
                    if subj == "Iterator::next(self.iter)":
                        shapes.add((names, shape, payload if shape == "Ok" else ""))
            want = {(("Some",), "Ok", "some!(Iterator::next(self.iter))"), (("None",), "Err", "")}
            req("get", good and shapes == want, "get() = Ok(iter.next()?) / Err at exhaustion; exactly one next()", "Parser::get has shape %s" % sorted(shapes))
        else:
            req("get", False, "", "Parser::get not found")
        ex = P.body("parser::Parser::expect")
        if ex is not None:
            shapes = set()
            for pi in tab.paths(P, ex, to_return_only=True):
                r_ = terms.strip(pi.ret())
                if r_[0] == "call" and "from_residual" in r_[1]:
                    shapes.add(("?", canon(r_[2][0])))
                    continue
                # the kind test in canonical form (`a != k` false  ==  `a == k` true, either operand order, early return or if/else)
                bools = tuple(sorted(set(f[:3] for f in pi.cmp_facts() if f[0] in ("Eq", "Ne") and f[2] == "kind")))
                shape = r_[2].split("::")[-1] if r_[0] == "agg" else canon(r_)
                payload = canon(r_[3][0][1]) if r_[0] == "agg" and r_[3] and shape == "Ok" else ""
                shapes.add((shape, payload, bools))
            want = {("?", "break!(Try::branch(Parser::get(self)))"),
                    ("Ok", "try(Parser::get(self))", (("Eq", "try(Parser::get(self)).kind", "kind"),)),
                    ("Err", "", (("Ne", "try(Parser::get(self)).kind", "kind"),))}
            req("expect", shapes == want, "expect(k): tok = get()?; Ok(tok) iff tok.kind == k", "Parser::expect has shape %s" % sorted(shapes))
        else:
            req("expect", False, "", "Parser::expect not found")
        # the token source: lexer tokens in lexer order with the lexer's kinds and spans, lexer errors as Error
        # tokens, then exactly one Eof token, then exhaustion (the typestate's E flag rests on "exactly one")
        tn = P.body("<lexer::TokenIter as std::iter::Iterator>::next")
        if tn is not None:
            rows = set()
            for pi in tab.paths(P, tn, to_return_only=True):
                wr = sorted(set(canon(pi.sl.rvalue(st["rv"], bb, i)) for bb in pi.path for i, st in enumerate(tn.blocks[bb]["stmts"])
                                if st["s"] == "assign" and [e.get("f") if isinstance(e, dict) else e for e in st["lhs"]["p"]] == ["*", "eof"]))
                rows.add((tab.path_facts(pi), canon(pi.ret()), tuple(wr)))
            NX, IT = "variant(Iterator::next(self.iter))", "some!(Iterator::next(self.iter))"
            want = {(frozenset([(NX, ("Some",)), ("variant(%s.0)" % IT, ("Ok",))]), "Option::Some{0: token::Token{kind: ok!(%s.0), span: %s.1}}" % (IT, IT), ()),
                    (frozenset([(NX, ("Some",)), ("variant(%s.0)" % IT, ("Err",))]), "Option::Some{0: token::Token{kind: TokenKind::Error{}, span: %s.1}}" % IT, ()),
                    (frozenset([(NX, ("None",)), ("self.eof", False)]), "Option::Some{0: token::Token{kind: TokenKind::Eof{}, span: Lexer::span(self.iter)}}", ("1",)),
                    (frozenset([(NX, ("None",)), ("self.eof", True)]), "Option::None{}", ())}
            req("TokenIter::next", rows == want, "lexer token -> Token{kind, span}; lexer error -> Error token; first exhaustion -> one Eof (eof := true); afterwards None", "TokenIter::next behaves as %s" % sorted(rows, key=str))
            w = sorted(set(x[0].name for x in P.field_writers("lexer::TokenIter", "eof")))
            cons = set()
            for b_, bb_, i_, st_ in P.constructors("lexer::TokenIter"):
                cons.add(canon(dict(P.sl(b_).rvalue(st_["rv"], bb_, i_)[3]).get("eof", ("unknown", ""))))
            req("TokenIter.eof", w == ["<lexer::TokenIter as std::iter::Iterator>::next"] and cons == {"0"}, "eof starts false and is only set by next()", "TokenIter.eof written in %s, constructed with %s" % (w, sorted(cons)))
        else:
            req("TokenIter::next", False, "", "TokenIter::next not found")
        # the token iterator is touched only by the primitives and the constructor
        users = set(x[0].name for x in P.field_readers("parser::Parser", "iter")) | set(x[0].name for x in P.field_writers("parser::Parser", "iter"))
        allowed = {"parser::Parser::get", "parser::Parser::peek", "parser::Parser::peek_span", "parser::Parser::from", "parser::Parser::new"}
        req("who-touches-iter", users <= allowed, str(sorted(users)), "Parser.iter is accessed in %s" % sorted(users - allowed))
        return ok

    # -- static facts of a body ---------------------------------------------------
    def _static(self, b):
        """alias: local -> place it references (`l = &place`, single def);
        disc_of: local -> (place, enum, variants) for `l = discriminant(place)`."""
        alias, disc_of = {}, {}
        for l, ds in b.defs().items():
            whole = [d for d in ds if not (d[3]["lhs"] if d[2] != "call" else d[3]["dest"])["p"]]
            if len(whole) != 1:
                continue
            d = whole[0]
            if d[2] == "assign":
                rv = d[3]["rv"]
                if rv["r"] == "ref":
                    alias[l] = rv["a"]
                elif rv["r"] == "discr":
                    disc_of[l] = (rv["a"], rv.get("enum", ""), rv.get("variants"))
        return alias, disc_of

    def _resolve_place(self, alias, pl, depth=0):
        """Rewrite a place so that derefs of reference temporaries are replaced by
        the referenced place: (root local, [field/downcast projections])."""
        l = pl["l"]
        proj = list(pl["p"])
        while proj and proj[0] == "*" and l in alias and depth < 10:
            a = alias[l]
            l = a["l"]
            proj = list(a["p"]) + proj[1:]
            depth += 1
        return l, proj

    def _place_val(self, st, alias, pl):
        l, proj = self._resolve_place(alias, pl)
        v = st.V.get(l)
        if not proj:
            return v
        if v is None:
            return None
        proj = [e for e in proj if e != "*"]
        if v[0] == "res" and len(proj) == 2 and isinstance(proj[0], dict) and proj[0].get("dc") in ("Continue", "Ok") and isinstance(proj[1], dict) and proj[1].get("f") == "0":
            return v[1]
        if v[0] == "tok" and len(proj) == 1 and isinstance(proj[0], dict) and proj[0].get("f") == "kind":
            return ("kind", st.TK.get(v[1], self.FULL), False, v[1])
        if v[0] == "optk" and v[1] == "Some" and v[2] is not None and len(proj) == 2 and isinstance(proj[0], dict) and proj[0].get("dc") == "Some":
            return ("kind", v[2], False, None)
        return None

    def _operand_val(self, st, alias, op):
        if op.get("k") in ("copy", "move"):
            v = self._place_val(st, alias, op)
            if v is None and not op["p"] and op["l"] in alias:
                # a reference temporary: value of the referenced place
                return self._place_val(st, alias, alias[op["l"]])
            return v
        return None

    def _set_place_kinds(self, st, alias, pl, names):
        """Refine the kind set of the value at `pl` to `names`; returns feasibility."""
        l, proj = self._resolve_place(alias, pl)
        proj = [e for e in proj if e != "*"]
        v = st.V.get(l)
        if v is None:
            return True
        if not proj and v[0] == "kind":
            nk = v[1] & names
            st.V[l] = ("kind", nk, v[2], v[3])
            if v[2]:
                st.K = st.K & names
                self._refine_tied(st, names)
            if v[3] is not None:
                st.TK[v[3]] = st.TK.get(v[3], self.FULL) & names
                self._sync_tok(st, v[3])
            return bool(nk)
        if v[0] == "tok" and len(proj) == 1 and isinstance(proj[0], dict) and proj[0].get("f") == "kind":
            nk = st.TK.get(v[1], self.FULL) & names
            st.TK[v[1]] = nk
            self._sync_tok(st, v[1])
            return bool(nk)
        return True

    def _sync_tok(self, st, tid):
        ks = st.TK.get(tid, self.FULL)
        for l, v in list(st.V.items()):
            if v[0] == "kind" and v[3] == tid:
                st.V[l] = ("kind", v[1] & ks, v[2], tid)

    def _refine_tied(self, st, names):
        for l, v in list(st.V.items()):
            if v[0] == "kind" and v[2]:
                st.V[l] = ("kind", v[1] & names, True, v[3])

    def _consume(self, st, tid):
        """Consume the next token: it gets identity `tid` with kind set K."""
        ns = st.copy()
        for l, v in list(ns.V.items()):
            if v[0] == "kind" and v[2]:
                ns.V[l] = ("kind", v[1], False, tid)   # the peeked kind now describes token tid
        ns.TK[tid] = st.K
        ns.Ed = st.Ed | frozenset([tid])
        ns.K = self.FULL
        ns.C = 1
        return ns

    # -- the dataflow ------------------------------------------------------------
    def analyse(self, fn, ctx=()):
        """ctx: tuple of (param local, variant name) constants."""
        key = (fn, ctx)
        P = self.P
        b = P.body(fn)
        if b is None:
            return None
        alias, disc_of = self._static(b)
        cfg = P.cfg(b)
        init = State(self.entryK.get(key, self.FULL), False, frozenset(), {}, {})
        for (l, vname, payload) in ctx:
            init.V[l] = ("optk", vname, payload)
        states = {0: init}
        work = [0]
        rec_sites = {}
        ok_states = {}
        edges_feasible = set()
        threaded = set()
        iters = 0
        while work:
            iters += 1
            if iters > 50000:
                self.problems.append(("tka:diverged:" + fn, "dataflow did not converge", ""))
                break
            bb = work.pop()
            st = states[bb].copy()
            blk = b.blocks[bb]
            for i, s_ in enumerate(blk["stmts"]):
                if s_["s"] != "assign":
                    continue
                lhs = s_["lhs"]
                rv = s_["rv"]
                if lhs["p"]:
                    continue
                l = lhs["l"]
                val = None
                if rv["r"] == "use" and rv["a"].get("k") in ("copy", "move"):
                    val = self._place_val(st, alias, rv["a"])
                elif rv["r"] == "use" and rv["a"].get("k") == "const" and rv["a"].get("ty") == "bool" and "int" in rv["a"]:
                    val = ("boolconst", bool(rv["a"]["int"]))   # `matches!` flag
                elif rv["r"] == "copy_for_deref":
                    val = self._place_val(st, alias, rv["a"])
                elif rv["r"] == "agg" and rv["ak"] == "adt" and norm_name(rv["adt"]) == TOKENKIND:
                    val = ("kind", frozenset([rv["variant"]]), False, None)
                elif rv["r"] == "agg" and rv["ak"] == "adt" and rv["adt"].endswith("option::Option") and rv["variant"] in ("None", "Some"):
                    payload = None
                    if rv["variant"] == "Some" and rv["ops"]:
                        pv = self._operand_val(st, alias, rv["ops"][0])
                        if pv is not None and pv[0] == "kind":
                            payload = pv[1]
                    val = ("optk", rv["variant"], payload)
                elif rv["r"] == "agg" and rv["ak"] == "adt" and rv["adt"].endswith("result::Result"):
                    if l == 0 and rv["variant"] == "Ok":
                        ok_states[(bb, i)] = (st.K, st.E(), st.C)
                elif l == 0 and rv["r"] == "use" and rv["a"].get("k") in ("copy", "move") and b.locals[0]["ty"].startswith("std::result::Result<"):
                    # `_0 = move _x` of a Result built elsewhere: may be Ok in this state
                    ok_states[(bb, i)] = (st.K, st.E(), st.C)
                if val is not None:
                    st.V[l] = val
                else:
                    st.V.pop(l, None)
            t = blk["term"]
            outs = {}
            if t["t"] == "call":
                nm, finfo = callee_name(t)
                dest = t["dest"]["l"] if not t["dest"]["p"] else None
                nxt = t["target"]
                ns = st
                site = "%s:%d" % (b.file, t["span"]["line"])
                parser_call = nm in P.f.bodies and self._is_parser_fn(nm) and nm not in PRIMS and nm not in ("parser::Parser::text", "parser::Parser::finish", "parser::Parser::from", "parser::Parser::new")
                if nm in PRIMS or parser_call:
                    rec_sites[bb] = (nm, st.E(), st.K, site)
                if nm in PRIMS:
                    prim = PRIMS[nm]
                    if prim == "peek":
                        if dest is not None:
                            ns.V[dest] = ("kind", st.K, True, None)
                    elif prim == "peek_span":
                        if dest is not None:
                            ns.V.pop(dest, None)
                    elif prim == "at":
                        kv = self._operand_val(st, alias, t["args"][1])
                        if dest is not None:
                            if kv and kv[0] == "kind" and len(kv[1]) == 1:
                                ns.V[dest] = ("boolat", list(kv[1])[0])
                            else:
                                ns.V.pop(dest, None)
                    elif prim in ("get", "skip"):
                        ns = self._consume(st, bb)
                        if dest is not None:
                            if prim == "get":
                                ns.V[dest] = ("res", ("tok", bb), None, None, bb)
                            else:
                                ns.V.pop(dest, None)
                    elif prim == "expect":
                        kv = self._operand_val(st, alias, t["args"][1])
                        ns = self._consume(st, bb)
                        if dest is not None:
                            if kv and kv[0] == "kind":
                                # Ok => consumed kind is one of kv; Err => (if kv is a single kind) anything else
                                ns.V[dest] = ("res", ("tok", bb), frozenset(kv[1]), len(kv[1]) == 1, bb)
                            else:
                                ns.V[dest] = ("res", ("tok", bb), None, None, bb)
                elif parser_call:
                    cctx = self._call_ctx(nm, st, alias, t)
                    summ = self.summaries.get((nm, cctx), "unset")
                    if summ == "unset":
                        self.summaries[(nm, cctx)] = None
                        self._pending.add((nm, cctx))
                        summ = None
                    ek = self.entryK.get((nm, cctx), frozenset())
                    if not st.K <= ek:
                        self.entryK[(nm, cctx)] = ek | st.K
                        self._pending.add((nm, cctx))
                    self._deps.setdefault((nm, cctx), set()).add(key)
                    ns = st.copy()
                    for l, v in list(ns.V.items()):
                        if v[0] == "kind" and v[2]:
                            ns.V[l] = ("kind", v[1], False, v[3])
                    ns.K = self.FULL
                    if dest is not None:
                        ns.V[dest] = ("call", nm, cctx)
                elif nm.endswith("::ops::Try>::branch"):
                    v = self._operand_val(st, alias, t["args"][0])
                    if dest is not None:
                        if v is not None and v[0] in ("res", "call"):
                            ns.V[dest] = v
                        else:
                            ns.V.pop(dest, None)
                elif nm in ("std::option::Option::is_some", "std::option::Option::is_none"):
                    v = self._operand_val(st, alias, t["args"][0])
                    if dest is not None:
                        if v is not None and v[0] == "optk" and v[1] is not None:
                            ns.V[dest] = ("boolconst", (v[1] == "Some") == nm.endswith("is_some"))
                        else:
                            ns.V.pop(dest, None)
                elif nm.endswith("is_binary_op") and nm in P.f.bodies:
                    pred = self.kind_pred(nm)
                    a0 = t["args"][0]
                    if dest is not None:
                        if pred is not None and a0.get("k") in ("copy", "move"):
                            ns.V[dest] = ("boolpred", self._as_place(alias, a0), pred)
                        else:
                            ns.V.pop(dest, None)
                elif "PartialEq" in nm and (nm.endswith("::eq") or nm.endswith("::ne")) and len(t["args"]) == 2:
                    a0 = self._operand_val(st, alias, t["args"][0])
                    a1 = self._operand_val(st, alias, t["args"][1])
                    if dest is not None:
                        if a1 and a1[0] == "kind" and len(a1[1]) == 1 and a0 and a0[0] == "kind":
                            ns.V[dest] = ("booleq", self._as_place(alias, t["args"][0]), list(a1[1])[0], nm.endswith("::ne"))
                        else:
                            ns.V.pop(dest, None)
                else:
                    conv = self._conversion_target(nm, finfo)
                    if conv is not None:
                        av = self._operand_val(st, alias, t["args"][0]) if t["args"] else None
                        self.conv_sites[(fn, ctx, bb)] = {"fn": fn, "ctx": ctx, "bb": bb, "kind": "conv", "target": conv, "arg": av, "site": site}
                    if dest is not None:
                        ns.V.pop(dest, None)
                if nxt is not None:
                    outs[nxt] = ns
            elif t["t"] == "switch":
                d = t["discr"]
                dl = d["l"] if d.get("k") in ("copy", "move") and not d["p"] else None
                for s_ in b.succ(bb):
                    vals, other, listed = cfg.edge_values(bb, s_)
                    ns = st.copy()
                    feasible = True
                    if dl is not None and dl in disc_of:
                        pl, enum, variants = disc_of[dl]
                        names = None
                        if variants is not None:
                            names = frozenset(v["name"] for v in variants if v["discr"] in vals or (other and v["discr"] not in listed))
                        v = self._place_val(st, alias, pl)
                        if names is not None and v is not None:
                            if v[0] == "kind":
                                feasible = self._set_place_kinds(ns, alias, pl, names)
                            elif v[0] in ("res", "call"):
                                cont = bool(names & frozenset(["Continue", "Ok"])) and not names & frozenset(["Break", "Err"])
                                brk = bool(names & frozenset(["Break", "Err"])) and not names & frozenset(["Continue", "Ok"])
                                if v[0] == "res":
                                    tid = v[4]
                                    if cont and v[2] is not None:
                                        ns.TK[tid] = ns.TK.get(tid, self.FULL) & v[2]
                                        self._sync_tok(ns, tid)
                                        feasible = bool(ns.TK[tid])
                                    elif brk and v[2] is not None:
                                        if v[3]:
                                            ns.TK[tid] = ns.TK.get(tid, self.FULL) - v[2]
                                            self._sync_tok(ns, tid)
                                    elif brk and v[2] is None:
                                        # plain get(): Err only at exhaustion, excluded by E == no
                                        ns.Eb = True
                                else:
                                    summ = self.summaries.get((v[1], v[2]))
                                    if cont:
                                        if summ is None:
                                            feasible = False
                                        else:
                                            ns.K = summ[0]
                                            ns.Eb = ns.Eb or summ[1]
                                            ns.C = max(ns.C, summ[2])
                                    elif brk:
                                        ns.Eb = True
                                    else:
                                        ns.Eb = True
                            elif v[0] == "optk" and v[1] is not None:
                                if v[1] not in names:
                                    feasible = False
                    elif dl is not None and dl in st.V:
                        v = st.V[dl]
                        truth = not (vals == {0} and not other)
                        if v[0] == "boolat":
                            k = frozenset([v[1]])
                            ns.K = (st.K & k) if truth else (st.K - k)
                            self._refine_tied(ns, k if truth else self.FULL - k)
                            feasible = bool(ns.K)
                        elif v[0] == "boolconst":
                            feasible = (v[1] == truth)
                        elif v[0] == "boolpred":
                            names = v[2] if truth else (self.FULL - v[2])
                            feasible = self._set_place_kinds(ns, alias, v[1], names)
                        elif v[0] == "booleq":
                            eq = truth != v[3]
                            names = frozenset([v[2]]) if eq else (self.FULL - frozenset([v[2]]))
                            feasible = self._set_place_kinds(ns, alias, v[1], names)
                    if feasible:
                        outs[s_] = ns
            else:
                for s_ in b.succ(bb):
                    outs[s_] = st
            for s_, ns in outs.items():
                edges_feasible.add((bb, s_))
                # jump threading: a statement-free block that only switches on a flag whose value is a
                # known literal in this state (`matches!(..)` lowers to that) is passed through, so the
                # refinement made where the flag was set is not lost in the join
                for _hop in range(4):
                    blk2 = b.blocks[s_]
                    t2 = blk2["term"]
                    if t2["t"] != "switch" or any(x["s"] == "assign" for x in blk2["stmts"]):
                        break
                    d2 = t2["discr"]
                    v2 = ns.V.get(d2["l"]) if d2.get("k") in ("copy", "move") and not d2["p"] else None
                    if not (v2 and v2[0] == "boolconst"):
                        break
                    tgt = t2["otherwise"]
                    for val_, b2_ in t2["targets"]:
                        if val_ == int(v2[1]):
                            tgt = b2_
                    if tgt is None:
                        break
                    threaded.add(s_)
                    edges_feasible.add((s_, tgt))
                    s_ = tgt
                old = states.get(s_)
                if old is None:
                    states[s_] = ns.copy()
                    work.append(s_)
                else:
                    j = old.join(ns)
                    if not j.eq(old):
                        states[s_] = j
                        work.append(s_)
        K_ok, E_ok, C_ok = None, False, 1
        for (bb_, i_), (K_, E_, C_) in ok_states.items():
            K_ok = K_ if K_ok is None else (K_ok | K_)
            E_ok = E_ok or E_
            C_ok = min(C_ok, C_)
        # `_0 = f(..)` : result of a parser call / expect returned unchanged
        for bb2, t in b.calls():
            if bb2 in states and t["dest"]["l"] == 0 and not t["dest"]["p"]:
                nm = callee_name(t)[0]
                stc = states[bb2]
                if nm in P.f.bodies and self._is_parser_fn(nm) and nm not in PRIMS:
                    cctx = self._call_ctx(nm, stc, alias, t)
                    su = self.summaries.get((nm, cctx))
                    if su is not None:
                        K_ok = su[0] if K_ok is None else (K_ok | su[0])
                        E_ok = E_ok or su[1] or stc.E()
                        C_ok = min(C_ok, max(stc.C, su[2]))
                elif nm == "parser::Parser::expect":
                    K_ok = self.FULL
                    kv = self._operand_val(stc, alias, t["args"][1])
                    E_ok = E_ok or stc.E() or bool(kv and kv[0] == "kind" and "Eof" in kv[1])
                elif nm == "parser::Parser::get":
                    K_ok = self.FULL
                    E_ok = E_ok or stc.E() or "Eof" in stc.K
                elif not nm.endswith("::from_residual") and t["target"] is not None and b.locals[0]["ty"].startswith("std::result::Result<") and nm not in PRIMS:
                    # `_0 = g(..)` for a non-parser g (e.g. `res.map_err(..)` returned without `?`): may be Ok in the state of the call
                    K_ok = stc.K if K_ok is None else (K_ok | stc.K)
                    E_ok = E_ok or stc.E()
                    C_ok = min(C_ok, stc.C)
        res = {"states": states, "sites": rec_sites, "summary": (K_ok, E_ok, C_ok) if K_ok is not None else None, "feasible": edges_feasible, "body": b, "ok_states": ok_states}
        self.results[key] = res
        return res

    def _as_place(self, alias, op):
        """Operand (a reference temporary or a value) -> the place it denotes."""
        if not op["p"] and op["l"] in alias:
            return alias[op["l"]]
        return {"l": op["l"], "p": op["p"]}

    def _is_parser_fn(self, nm):
        return nm.startswith("parser::Parser::") or "<impl parser::Parser>::" in nm

    def _call_ctx(self, nm, st, alias, t):
        """Constant Option<TokenKind> arguments form the context."""
        ctx = []
        for i, a in enumerate(t["args"][1:], start=2):
            v = self._operand_val(st, alias, a)
            if v is not None and v[0] == "optk" and v[1] is not None:
                ctx.append((i, v[1], v[2]))
        return tuple(ctx)

    def _conversion_target(self, nm, finfo):
        """Local `From<TokenKind>` impl reached by this call (direct or through Into::into)."""
        if "From<lexer::token::TokenKind> for " in nm and nm in self.P.f.bodies:
            return nm
        if nm.endswith("::convert::Into<U>>::into") or nm == "std::convert::Into::into":
            args = finfo.get("fn_args", [])
            if len(args) == 2 and args[0].endswith("lexer::token::TokenKind"):
                tgt = norm_name(args[1], True)
                for n in self.P.f.bodies:
                    if n.endswith("From<lexer::token::TokenKind> for %s>::from" % tgt):
                        return n
        return None

    # -- driver -------------------------------------------------------------------------
    def run(self, roots):
        self._pending = set()
        self._deps = {}
        self.entryK = {}
        self.conv_sites = {}
        for r in roots:
            self.summaries.setdefault((r, ()), None)
            self.entryK[(r, ())] = self.FULL
            self._pending.add((r, ()))
        rounds = 0
        while self._pending and rounds < 200:
            rounds += 1
            key = self._pending.pop()
            for k in [k for k in self.conv_sites if (k[0], k[1]) == key]:
                del self.conv_sites[k]
            res = self.analyse(*key)
            if res is None:
                continue
            new = res["summary"]
            if new != self.summaries.get(key):
                self.summaries[key] = new
                for dep in self._deps.get(key, ()):
                    self._pending.add(dep)
        return rounds

    def verdicts(self):
        """-> (eof_problems, conv_problems, n_sites)"""
        eof = []
        n = 0
        for (fn, ctx), res in self.results.items():
            for bb, (nm, E, K, site) in res["sites"].items():
                n += 1
                if E:
                    eof.append((fn, ctx, nm, site))
        conv = []
        for s in self.conv_sites.values():
            dom = self.conv_domain(s["target"])
            av = s["arg"]
            if dom is None or av is None or av[0] != "kind":
                conv.append((s, "argument kind set unknown"))
            elif not av[1] <= dom:
                conv.append((s, "may receive %s" % sorted(av[1] - dom)))
        return eof, conv, n


def progress(T, chk, extra_fns=("parser::HeaderParser::parse",)):
    """Every loop iteration of a parser function consumes input: for each loop
    header enumerate the acyclic paths back to it; a path without a consuming
    call must be infeasible under the kind constraints collected along it (all
    tests on such a path speak about the same, unconsumed token)."""
    P = T.P
    fns = sorted(set(k[0] for k in T.results)) + [f for f in extra_fns if P.body(f) is not None]
    n_loops = n_paths = 0
    ok = True
    for fn in fns:
        b = P.body(fn)
        cfg = P.cfg(b)
        heads = set()
        for comp in cfg.sccs():
            if len(comp) > 1 or comp[0] in b.succ(comp[0]):
                # loop headers = blocks of the SCC with a predecessor outside it
                cs = set(comp)
                for x in comp:
                    if any(p not in cs for p in b.preds(x)) or x == 0:
                        heads.add((x, frozenset(cs)))
        for h, comp in sorted(heads, key=lambda x: x[0]):
            n_loops += 1
            outside = set(b.reachable_blocks()) - comp
            bad = []
            for path in cfg.paths(h, avoid=outside, limit=50000):
                if not (isinstance(path[-1], tuple) and path[-1][1] == h):
                    continue
                n_paths += 1
                pi = tab.PathInfo(P, b, path)
                K = T.FULL
                consumed = False
                decs = {}
                for d in pi.decisions():
                    decs.setdefault(d[1], []).append(d)
                seq = pi.path + [h]
                # walk blocks in order, interleaving calls and decisions
                for i, bb in enumerate(pi.path):
                    t = b.term(bb)
                    if t["t"] == "call":
                        nm = callee_name(t)[0]
                        if nm in ("parser::Parser::get", "parser::Parser::skip", "parser::Parser::expect") or nm.endswith("logos::Lexer<Token> as std::iter::Iterator>::next"):
                            consumed = True
                            break
                        if nm in P.f.bodies and T._is_parser_fn(nm) and nm not in PRIMS:
                            sums = [v for k, v in T.summaries.items() if k[0] == nm and v is not None]
                            if sums and all(v[2] >= 1 for v in sums):
                                consumed = True
                                break
                            if sums:
                                Kok = frozenset()
                                for v in sums:
                                    Kok |= v[0]
                                K = K & Kok     # zero tokens consumed => same next token
                    elif t["t"] == "switch":
                        nxt = seq[i + 1]
                        vals, other, listed = cfg.edge_values(bb, nxt)
                        dterm = terms.strip(pi.term(t["discr"], bb))
                        c = canon(dterm)
                        if dterm[0] == "discr" and canon(dterm[1]) == "Parser::peek(self)":
                            from . import pan
                            vs = pan._variants_of_discr(b, t["discr"], bb) or []
                            names = frozenset(v["name"] for v in vs if v["discr"] in vals or (other and v["discr"] not in listed))
                            K = K & names
                        elif t["dty"] == "bool":
                            truth = not (vals == {0} and not other)
                            m = re.fullmatch(r"Parser::at\(self, (?:lexer::token::)?TokenKind::(\w+)\{\}\)", c)
                            if m:
                                k = frozenset([m.group(1)])
                                K = (K & k) if truth else (K - k)
                            elif c.endswith("is_binary_op(Parser::peek(self))"):
                                pred = None
                                for n_ in P.f.bodies:
                                    if n_.endswith("is_binary_op"):
                                        pred = T.kind_pred(n_)
                                if pred is not None:
                                    K = (K & pred) if truth else (K - pred)
                    if not K:
                        break
                if not consumed and K:
                    bad.append((path, sorted(K)))
            site = "%s:%d" % (b.file, b.term(h)["span"]["line"])
            key = "tka:progress:%s:loop@%s" % (fn, _loop_label(P, b, h))
            if bad:
                ok = False
                chk.fail("TKA", key, "a loop iteration can complete without consuming a token when the next token is one of %s (possible non-termination)" % bad[0][1][:8], site)
            else:
                chk.ok("TKA", key, "every feasible iteration consumes at least one token", site)
    chk.analysed["tka_progress"] = {"loops": n_loops, "iteration_paths": n_paths}
    chk.floor("TKA", "parser loops", n_loops, 5)
    return ok


def _loop_label(P, b, h):
    """Stable label of a loop: ordinal of its header among the function's loop headers in source order."""
    cfg = P.cfg(b)
    heads = []
    for comp in cfg.sccs():
        if len(comp) > 1 or comp[0] in b.succ(comp[0]):
            cs = set(comp)
            for x in comp:
                if any(p not in cs for p in b.preds(x)):
                    heads.append(x)
    heads = sorted(set(heads), key=lambda x: (b.term(x)["span"]["line"], x))
    return str(heads.index(h) + 1) if h in heads else "?"
