"""FOLD: exact constant folding of an integer MIR body over a finite parameter
domain, with machine semantics for both overflow-check modes.

`mode='checked'`  : a failing Overflow/Division Assert is a panic (dev/test builds);
`mode='unchecked'`: Overflow Asserts are ignored and the wrapped value is used
                    (release semantics); division Asserts still trap.
Only integer/bool locals, tuples produced by *WithOverflow, casts, comparisons,
switches and crate-local calls of the same kind are supported; anything else
yields ('unsupported', why) and the caller fails closed.
"""
import re
from .facts import callee_name

INT_RE = re.compile(r"^(i|u)(8|16|32|64|128|size)$")


def int_ty(ty):
    m = INT_RE.match(ty)
    if not m:
        if ty == "bool":
            return (False, 1)
        return None
    bits = 64 if m.group(2) == "size" else int(m.group(2))
    return (m.group(1) == "i", bits)


def wrap(v, ty):
    it = int_ty(ty)
    if it is None:
        return v
    signed, bits = it
    v &= (1 << bits) - 1
    if signed and v >> (bits - 1):
        v -= 1 << bits
    return v


def in_range(v, ty):
    signed, bits = int_ty(ty)
    if signed:
        return -(1 << (bits - 1)) <= v < (1 << (bits - 1))
    return 0 <= v < (1 << bits)


class Unsupported(Exception):
    pass


class Panic(Exception):
    def __init__(self, kind, site):
        self.kind = kind
        self.site = site


class Folder:
    def __init__(self, P, mode="checked", max_steps=20000, depth=4):
        self.P = P
        self.mode = mode
        self.max_steps = max_steps
        self.depth = depth
        self.asserts_seen = {}

    def run(self, body, args, depth=0):
        """args: list of python ints for parameters 1..n.  Returns value of _0."""
        env = {}
        for i, a in enumerate(args, start=1):
            env[i] = a
        bb = 0
        steps = 0
        while True:
            steps += 1
            if steps > self.max_steps:
                raise Unsupported("step limit")
            blk = body.blocks[bb]
            for st in blk["stmts"]:
                if st["s"] != "assign":
                    raise Unsupported("statement %s" % st["s"])
                v = self.rvalue(body, env, st["rv"], st["lhs"])
                self.store(body, env, st["lhs"], v)
            t = blk["term"]
            k = t["t"]
            if k == "goto":
                bb = t["target"]
            elif k == "return":
                return env.get(0)
            elif k == "switch":
                d = self.operand(body, env, t["discr"])
                if isinstance(d, bool):
                    d = int(d)
                d &= (1 << 128) - 1 if d < 0 else d
                tgt = t["otherwise"]
                for val, b2 in t["targets"]:
                    if val == d:
                        tgt = b2
                        break
                bb = tgt
            elif k == "assert":
                c = self.operand(body, env, t["cond"])
                ak = t["msg"]["ak"]
                key = (body.name, bb)
                self.asserts_seen[key] = ak + ("(%s)" % t["msg"]["op"] if "op" in t["msg"] else "")
                if bool(c) != t["expected"]:
                    if ak.startswith("UB:"):
                        raise Unsupported("UB assert failed")
                    if ak.startswith("Overflow") and self.mode == "unchecked":
                        pass
                    else:
                        raise Panic(self.asserts_seen[key], "%s:%d" % (t["span"]["file"], t["span"]["line"]))
                bb = t["target"]
            elif k == "call":
                nm, f = callee_name(t)
                argv = [self.operand(body, env, a) for a in t["args"]]
                cb = self.P.body(nm)
                if cb is not None and depth < self.depth:
                    r = self.run(cb, argv, depth + 1)
                else:
                    r = self.intrinsic(nm, f, argv, t)
                self.store(body, env, t["dest"], r)
                if t["target"] is None:
                    raise Unsupported("diverging call")
                bb = t["target"]
            elif k == "drop":
                bb = t["target"]
            elif k == "unreachable":
                raise Unsupported("unreachable reached")
            else:
                raise Unsupported("terminator %s" % k)

    def const_item(self, name):
        """Value of a crate-local `const` item: its initialiser is folded once (always with checks on: the
        compiler evaluates it that way, a failing check there is a build error)."""
        from .facts import norm_name
        cache = self.__dict__.setdefault("_consts", {})
        nm = norm_name(name)
        if nm not in cache:
            b = self.P.body(nm)
            if b is None:
                raise Unsupported("const item %s has no body in the facts" % nm)
            sub = Folder(self.P, "checked", self.max_steps, self.depth)
            try:
                cache[nm] = sub.run(b, [])
            except Panic as p:
                raise Unsupported("const item %s fails to evaluate (%s)" % (nm, p.kind))
        v = cache[nm]
        return list(v) if isinstance(v, list) else v

    def intrinsic(self, nm, f, argv, t):
        if nm in ("std::cmp::Ord::min", "std::cmp::min") and len(argv) == 2 and all(isinstance(a, int) for a in argv):
            return min(argv)
        if nm in ("std::cmp::Ord::max", "std::cmp::max") and len(argv) == 2 and all(isinstance(a, int) for a in argv):
            return max(argv)
        m = re.search(r"<impl (i|u)(8|16|32|64|128|size)>::(\w+)$", nm)
        if m:
            ty = m.group(1) + m.group(2)
            op = m.group(3)
            signed, bits = int_ty(ty)
            a = argv[0]
            if op in ("wrapping_add", "wrapping_sub", "wrapping_mul"):
                r = {"wrapping_add": a + argv[1], "wrapping_sub": a - argv[1], "wrapping_mul": a * argv[1]}[op]
                return wrap(r, ty)
            if op in ("wrapping_shl", "wrapping_shr"):
                sh = argv[1] & (bits - 1)
                return wrap(a << sh, ty) if op == "wrapping_shl" else wrap(a >> sh, ty)
            if op in ("checked_shl", "checked_shr"):
                if argv[1] >= bits:
                    return ("None",)
                return ("Some", wrap(a << argv[1], ty) if op == "checked_shl" else wrap(a >> argv[1], ty))
            if op == "wrapping_neg":
                return wrap(-a, ty)
        raise Unsupported("call %s" % nm)

    def store(self, body, env, place, v):
        if not place["p"]:
            env[place["l"]] = list(v) if isinstance(v, list) else v
            return
        if len(place["p"]) == 1 and isinstance(place["p"][0], dict) and "idx" in place["p"][0] and isinstance(env.get(place["l"]), list):
            i = env.get(place["p"][0]["idx"])
            arr = env[place["l"]]
            if not isinstance(i, int) or not 0 <= i < len(arr):
                raise Unsupported("array store out of range")
            arr[i] = v
            return
        raise Unsupported("store through projection")

    def load(self, body, env, place):
        if place["l"] not in env:
            raise Unsupported("read of uninitialised local _%d" % place["l"])
        v = env[place["l"]]
        for e in place["p"]:
            if isinstance(e, dict) and "f" in e and isinstance(v, tuple):
                if v and v[0] in ("Some", "None"):
                    v = v[1 + int(e["i"])]
                else:
                    v = v[int(e["i"])]
            elif isinstance(e, dict) and "dc" in e and isinstance(v, tuple):
                if v[0] != e["dc"]:
                    raise Unsupported("downcast mismatch")
            elif e == "*":
                pass
            elif isinstance(e, dict) and "idx" in e and isinstance(v, list):
                i = env.get(e["idx"])
                if not isinstance(i, int) or not 0 <= i < len(v):
                    raise Unsupported("array read out of range")
                v = v[i]
            elif isinstance(e, dict) and "ci" in e and isinstance(v, list):
                v = v[int(e["ci"])]
            else:
                raise Unsupported("projection %s" % (e,))
        return v

    def operand(self, body, env, o):
        k = o.get("k")
        if k in ("copy", "move"):
            return self.load(body, env, o)
        if k == "const":
            if "int" in o:
                return o["int"]
            if "uneval" in o:
                return self.const_item(o["uneval"])
            if o.get("ty") == "()":
                return ()
            raise Unsupported("constant %s" % o.get("v"))
        raise Unsupported("operand")

    def rvalue(self, body, env, rv, lhs):
        r = rv["r"]
        if r == "use":
            return self.operand(body, env, rv["a"])
        if r == "ref" or r == "copy_for_deref":
            return self.load(body, env, rv["a"])
        if r == "discr":
            v = self.load(body, env, rv["a"])
            if isinstance(v, tuple) and v and v[0] in ("Some", "None"):
                return 1 if v[0] == "Some" else 0
            raise Unsupported("discriminant")
        if r == "cast":
            v = self.operand(body, env, rv["a"])
            if rv["ck"].startswith("IntToInt"):
                if isinstance(v, bool):
                    v = int(v)
                return wrap(v, rv["to"])
            raise Unsupported("cast %s" % rv["ck"])
        if r == "un":
            v = self.operand(body, env, rv["a"])
            ty = lhs["ty"]
            if rv["op"] == "Not":
                if ty == "bool":
                    return not v
                return wrap(~v, ty)
            if rv["op"] == "Neg":
                return wrap(-v, ty)
            raise Unsupported("unary %s" % rv["op"])
        if r == "bin":
            a = self.operand(body, env, rv["a"])
            b = self.operand(body, env, rv["b"])
            op = rv["op"]
            aty = rv["a"].get("ty", "")
            if op in ("Lt", "Le", "Gt", "Ge", "Eq", "Ne"):
                return {"Lt": a < b, "Le": a <= b, "Gt": a > b, "Ge": a >= b, "Eq": a == b, "Ne": a != b}[op]
            if op in ("AddWithOverflow", "SubWithOverflow", "MulWithOverflow"):
                full = {"A": a + b, "S": a - b, "M": a * b}[op[0]]
                return (wrap(full, aty), not in_range(full, aty))
            if op in ("Add", "Sub", "Mul"):
                full = {"A": a + b, "S": a - b, "M": a * b}[op[0]]
                return wrap(full, aty)
            if op in ("BitAnd", "BitOr", "BitXor"):
                if isinstance(a, bool) and isinstance(b, bool):
                    return {"BitAnd": a and b, "BitOr": a or b, "BitXor": a != b}[op]
                return wrap({"BitAnd": a & b, "BitOr": a | b, "BitXor": a ^ b}[op], aty)
            if op in ("Shl", "Shr", "ShlUnchecked", "ShrUnchecked"):
                signed, bits = int_ty(aty)
                sh = b & (bits - 1)
                if op.startswith("Shl"):
                    return wrap(a << sh, aty)
                return wrap(a >> sh, aty)
            if op in ("Div", "Rem"):
                if b == 0:
                    raise Panic("DivisionByZero", "")
                q = abs(a) // abs(b)
                if (a < 0) != (b < 0):
                    q = -q
                return wrap(q, aty) if op == "Div" else wrap(a - q * b, aty)
            raise Unsupported("binop %s" % op)
        if r == "agg" and rv["ak"] == "tuple":
            return tuple(self.operand(body, env, x) for x in rv["ops"])
        if r == "agg" and rv["ak"] == "array":
            return [self.operand(body, env, x) for x in rv["ops"]]
        if r == "repeat":
            m = re.match(r"^(\d+)", str(rv.get("n", "")))
            if not m or int(m.group(1)) > 4096:
                raise Unsupported("repeat count %s" % rv.get("n"))
            x = self.operand(body, env, rv["a"])
            return [x for _ in range(int(m.group(1)))]
        raise Unsupported("rvalue %s" % r)


def fold_fn(P, body, domain, mode):
    """Evaluate `body` for each argument tuple in domain.
    -> dict args -> ('ret', v) | ('panic', kind, site) | ('unsupported', why)"""
    out = {}
    f = Folder(P, mode)
    for args in domain:
        try:
            out[args] = ("ret", f.run(body, list(args)))
        except Panic as p:
            out[args] = ("panic", p.kind, p.site)
        except Unsupported as u:
            out[args] = ("unsupported", str(u))
    return out, f.asserts_seen
