"""Origin slices: backward def-use from an operand to an expression *term*.

A term is a nested tuple (see `Slicer`).  No values are computed; this is pure
dataflow (reaching definitions on the MIR CFG), used by the ORG / GUARD / TAB
rule templates."""
from .facts import callee_name

TRANSPARENT_CALLS = (
    "::ops::Deref>::deref", "::ops::DerefMut>::deref_mut", "::borrow::Borrow", "::borrow::BorrowMut",
    "::convert::AsRef", "::convert::AsMut",
)


import re as _re
_STR_CONST = _re.compile(r"^Ty\(&'\{erased\} str, \"(.*)\"\)$")



RET_QUERIED = set()   # functions whose return value some rule has read in this run (see props/retmut.py)

class Slicer:
    def __init__(self, body, max_depth=250):
        self.b = body
        self.max_depth = max_depth
        self._rd = {}
        self._defs_by_local = body.defs()
        self.is_closure = body.kind == "Closure"

    # ---- reaching definitions -----------------------------------------------
    def whole_defs(self, l):
        return [d for d in self._defs_by_local.get(l, []) if not (d[3]["lhs"] if d[2] != "call" else d[3]["dest"])["p"]]

    def partial_defs(self, l):
        return [d for d in self._defs_by_local.get(l, []) if (d[3]["lhs"] if d[2] != "call" else d[3]["dest"])["p"]]

    def reaching(self, l, bb, idx):
        """Definitions of whole local `l` that reach the point just before
        statement `idx` of block `bb`.  Returns list of defs; the pseudo def
        ('entry',) stands for the value at function entry."""
        key = (l, bb, idx)
        if key in self._rd:
            return self._rd[key]
        defs = self.whole_defs(l)
        by_block = {}
        for d in defs:
            by_block.setdefault(d[0], []).append(d)
        res = []
        seen = set()
        work = [(bb, idx)]
        while work:
            b, i = work.pop()
            found = None
            for d in sorted(by_block.get(b, []), key=lambda d: -d[1]):
                if d[1] < i:
                    found = d
                    break
            if found is not None:
                if found not in res:
                    res.append(found)
                continue
            if b == 0:
                if ("entry",) not in res:
                    res.append(("entry",))
            for p in self.b.preds(b):
                if p in seen:
                    continue
                seen.add(p)
                # a call's destination is defined on the edge to its target
                work.append((p, len(self.b.blocks[p]["stmts"]) + 1))
        self._rd[key] = res
        return res

    # ---- terms ----------------------------------------------------------------
    def local(self, l, bb, idx, depth=0, stack=()):
        if depth > self.max_depth:
            return ("unknown", "depth")
        rds = self.reaching(l, bb, idx)
        # a loop-carried variable: same local with the same reaching-definition set
        key = (l, tuple(sorted((d[0], d[1]) if d != ("entry",) else (-1, -1) for d in rds)))
        if key in stack:
            return ("cycle", l, self.b.local_name(l))
        stack = stack + (key,)
        terms = []
        for d in rds:
            if d == ("entry",):
                if 1 <= l <= self.b.arg_count:
                    terms.append(("arg", l, self.b.local_name(l)))
                else:
                    terms.append(("uninit", l))
                continue
            dbb, di, kind, payload = d
            if kind == "assign":
                terms.append(self.rvalue(payload["rv"], dbb, di, depth + 1, stack))
            elif kind == "call":
                terms.append(self.call_term(payload, dbb, depth + 1, stack))
            else:
                terms.append(("unknown", kind))
        # drop uninit alternatives when a real def exists (StorageLive paths)
        real = [t for t in terms if t[0] != "uninit"]
        if real:
            terms = real
        uniq = []
        for t in terms:
            if t not in uniq:
                uniq.append(t)
        if len(uniq) == 1:
            res = uniq[0]
        elif not uniq:
            return ("uninit", l)
        else:
            res = ("phi", tuple(uniq))
        w = self._unconfirmed_writes().get(l)
        if w:
            # the local is modified in place by something the reference tree does not do (core/mutab.py):
            # what it denotes is no longer what it was built as
            return ("mutated", res, tuple(w))
        return res

    def _unconfirmed_writes(self):
        if getattr(self, "_ucw", None) is None:
            from . import mutab
            try:
                self._ucw = mutab.unconfirmed(self.b)
            except Exception:
                self._ucw = {}
        return self._ucw

    def call_term(self, t, bb, depth=0, stack=()):
        nm, f = callee_name(t)
        nidx = len(self.b.blocks[bb]["stmts"])
        args = tuple(self.operand(a, bb, nidx, depth + 1, stack) for a in t["args"])
        if nm == "<indirect>":
            fn = self.operand(t["func"], bb, nidx, depth + 1, stack)
            return ("icall", fn, args, bb)
        if nm.endswith("box_assume_init_into_vec_unsafe"):
            # `vec![a, b, ..]`: the array is written through the box pointer in the same block
            for i, st in enumerate(self.b.blocks[bb]["stmts"]):
                if st["s"] == "assign" and st["rv"]["r"] == "agg" and st["rv"]["ak"] == "array" and "*" in st["lhs"]["p"]:
                    arr = self.rvalue(st["rv"], bb, i, depth + 1, stack)
                    return ("call", "vec!", (arr,), bb)
        return ("call", nm, args, bb)

    def place(self, p, bb, idx, depth=0, stack=()):
        t = self.local(p["l"], bb, idx, depth, stack)
        return self.project(t, p["p"], bb, idx, depth, stack)

    def project(self, t, proj, bb, idx, depth=0, stack=()):
        for e in proj:
            if e == "*":
                t = deref(t)
            elif isinstance(e, dict):
                if "f" in e:
                    t = field(t, e["f"], e.get("i"))
                elif "dc" in e:
                    t = ("downcast", t, e["dc"])
                elif "idx" in e:
                    t = ("index", t, self.local(e["idx"], bb, idx, depth + 1, stack))
                elif "cidx" in e:
                    t = ("cindex", t, e["cidx"], e["from_end"])
                elif "sub" in e:
                    t = ("subslice", t, e["sub"], e["to"], e["from_end"])
            else:
                t = ("proj", t, str(e))
        return t

    def operand(self, o, bb, idx, depth=0, stack=()):
        k = o.get("k")
        if k in ("copy", "move"):
            return self.place(o, bb, idx, depth, stack)
        if k == "const":
            if "fn" in o:
                return ("const", "fn", callee_name({"func": o})[0])
            if "int" in o:
                return ("const", "int", o["int"], o["ty"])
            if "str" in o:
                return ("const", "str", o["str"])
            m = _STR_CONST.match(o.get("v", ""))
            if m:
                return ("const", "str", m.group(1))
            if "promoted" in o:
                return ("const", "promoted", o["promoted"])
            if "uneval" in o:
                return ("const", "item", o["uneval"])
            return ("const", "other", o["v"])
        return ("unknown", "operand")

    def rvalue(self, rv, bb, idx, depth=0, stack=()):
        k = rv["r"]
        if k == "use" or k == "copy_for_deref":
            if k == "use":
                return self.operand(rv["a"], bb, idx, depth, stack)
            return self.place(rv["a"], bb, idx, depth, stack)
        if k == "ref":
            return ("ref", self.place(rv["a"], bb, idx, depth, stack), rv["bk"])
        if k == "rawptr":
            return ("ref", self.place(rv["a"], bb, idx, depth, stack), "raw")
        if k == "cast":
            return ("cast", rv["ck"], self.operand(rv["a"], bb, idx, depth, stack), rv["to"])
        if k == "bin":
            return ("bin", rv["op"], self.operand(rv["a"], bb, idx, depth, stack), self.operand(rv["b"], bb, idx, depth, stack))
        if k == "un":
            return ("un", rv["op"], self.operand(rv["a"], bb, idx, depth, stack))
        if k == "discr":
            return ("discr", self.place(rv["a"], bb, idx, depth, stack), rv.get("enum", ""))
        if k == "agg":
            ops = tuple(self.operand(x, bb, idx, depth, stack) for x in rv["ops"])
            if rv["ak"] == "adt":
                nm = rv["adt"] + ("::" + rv["variant"] if rv["is_enum"] else "")
                return ("agg", "adt", nm, tuple(zip(rv["fields"], ops)))
            if rv["ak"] == "closure":
                return ("agg", "closure", rv["closure"], ops)
            return ("agg", rv["ak"], "", ops)
        if k == "repeat":
            return ("repeat", self.operand(rv["a"], bb, idx, depth, stack), rv["n"])
        return ("unknown", k)

    # convenience: term of the returned value at a return block
    def ret(self, bb):
        RET_QUERIED.add(self.b.name)
        return self.local(0, bb, len(self.b.blocks[bb]["stmts"]))

    def call_args(self, bb):
        t = self.b.term(bb)
        n = len(self.b.blocks[bb]["stmts"])
        return [self.operand(a, bb, n) for a in t["args"]]


def deref(t):
    if t[0] == "ref":
        return t[1]
    return ("deref", t)


def field(t, name, i=None):
    if t[0] == "agg":
        if t[1] == "adt":
            for f, v in t[3]:
                if f == name:
                    return v
        elif t[1] in ("tuple", "closure") and i is not None and i < len(t[3]):
            return t[3][i]
    if t[0] == "phi":
        alts = tuple(field(a, name, i) for a in t[1])
        u = []
        for a in alts:
            if a not in u:
                u.append(a)
        return u[0] if len(u) == 1 else ("phi", tuple(u))
    return ("field", t, name)


def is_transparent_call(name):
    return any(s in name for s in TRANSPARENT_CALLS)


def strip(t, casts=True, calls=True, clones=False):
    """Remove value-preserving wrappers: refs, derefs, pointer/identity casts,
    Deref/Borrow/AsRef calls (optionally Clone), `Into::into`/`From::from`
    identity conversions are NOT stripped (they may convert)."""
    while True:
        if t[0] == "ref":
            t = t[1]
        elif t[0] == "deref":
            t = t[1]
        elif t[0] == "cast" and casts and ("Pointer" in t[1] or "Unsize" in t[1] or t[1].startswith("PtrToPtr") or "Transmute" in t[1]):
            t = t[2]
        elif t[0] == "field" and t[2] == "pointer" and t[1][0] == "field" and t[1][2] == "0":
            t = t[1][1]     # Box<T> internals: (*box) is (*(box.0.pointer))
        elif t[0] == "call" and calls and is_transparent_call(t[1]) and len(t[2]) >= 1:
            t = t[2][0]
        elif t[0] == "call" and clones and t[1].endswith("::clone::Clone>::clone") and len(t[2]) == 1:
            t = t[2][0]
        else:
            return t


def walk(t):
    """Yield all sub-terms (pre-order)."""
    yield t
    if not isinstance(t, tuple):
        return
    tag = t[0]
    if tag in ("ref", "deref", "discr"):
        yield from walk(t[1])
    elif tag in ("field", "downcast", "cindex", "subslice", "proj"):
        yield from walk(t[1])
    elif tag == "index":
        yield from walk(t[1])
        yield from walk(t[2])
    elif tag == "bin":
        yield from walk(t[2])
        yield from walk(t[3])
    elif tag == "un":
        yield from walk(t[2])
    elif tag == "cast":
        yield from walk(t[2])
    elif tag == "agg":
        if t[1] == "adt":
            for f, v in t[3]:
                yield from walk(v)
        else:
            for v in t[3]:
                yield from walk(v)
    elif tag == "call":
        for a in t[2]:
            yield from walk(a)
    elif tag == "icall":
        yield from walk(t[1])
        for a in t[2]:
            yield from walk(a)
    elif tag == "phi":
        for a in t[1]:
            yield from walk(a)
    elif tag == "repeat":
        yield from walk(t[1])


def show(t, depth=0):
    if not isinstance(t, tuple):
        return str(t)
    tag = t[0]
    if depth > 12:
        return "…"
    d = depth + 1
    if tag == "arg":
        return t[2]
    if tag == "const":
        return repr(t[2]) if t[1] != "fn" else "fn " + t[2]
    if tag == "ref":
        return "&" + show(t[1], d)
    if tag == "deref":
        return "*" + show(t[1], d)
    if tag == "field":
        return "%s.%s" % (show(t[1], d), t[2])
    if tag == "downcast":
        return "(%s as %s)" % (show(t[1], d), t[2])
    if tag == "index":
        return "%s[%s]" % (show(t[1], d), show(t[2], d))
    if tag == "cindex":
        return "%s[%s%d]" % (show(t[1], d), "-" if t[3] else "", t[2])
    if tag == "bin":
        return "%s(%s, %s)" % (t[1], show(t[2], d), show(t[3], d))
    if tag == "un":
        return "%s(%s)" % (t[1], show(t[2], d))
    if tag == "cast":
        return "(%s as %s)" % (show(t[2], d), t[3])
    if tag == "discr":
        return "discr(%s)" % show(t[1], d)
    if tag == "agg":
        if t[1] == "adt":
            return "%s{%s}" % (t[2], ", ".join("%s: %s" % (f, show(v, d)) for f, v in t[3]))
        return "%s%s(%s)" % (t[1], (":" + t[2]) if t[2] else "", ", ".join(show(v, d) for v in t[3]))
    if tag == "call":
        return "%s(%s)" % (t[1], ", ".join(show(a, d) for a in t[2]))
    if tag == "icall":
        return "(%s)(%s)" % (show(t[1], d), ", ".join(show(a, d) for a in t[2]))
    if tag == "phi":
        return "phi(%s)" % " | ".join(show(a, d) for a in t[1])
    return "%s" % (t,)


class PathSlicer(Slicer):
    """Reaching definitions restricted to one acyclic block path (path-sensitive
    terms for table extraction)."""

    def __init__(self, body, path, max_depth=250):
        super().__init__(body, max_depth)
        self.path = [p for p in path if not isinstance(p, tuple)]
        self.pos = {bb: i for i, bb in enumerate(self.path)}

    def reaching(self, l, bb, idx):
        key = (l, bb, idx)
        if key in self._rd:
            return self._rd[key]
        defs = self.whole_defs(l)
        by_block = {}
        for d in defs:
            by_block.setdefault(d[0], []).append(d)
        res = None
        i = self.pos.get(bb)
        if i is None:
            return super().reaching(l, bb, idx)
        limit = idx
        while i >= 0:
            b = self.path[i]
            cands = [d for d in by_block.get(b, []) if d[1] < limit]
            if cands:
                res = max(cands, key=lambda d: d[1])
                break
            i -= 1
            limit = 10 ** 9
        if res is not None:
            out = [res]
        elif self.path and self.path[0] != 0:
            # the path starts in the middle of the function: definitions made before it
            # are taken from the ordinary (path-insensitive) reaching-definition search
            saved = self._rd
            self._rd = {}
            out = Slicer.reaching(self, l, self.path[0], 0)
            self._rd = saved
        else:
            out = [("entry",)]
        self._rd[key] = out
        return out
