"""Fact extraction driver + loader.

`load(repo, config)` runs the `mirx` rustc driver under `cargo +nightly check
--lib` on the *current working tree* of the repository (digest-keyed cache, so
an edited tree always re-extracts) and returns a `Facts` object.
"""
import hashlib
import json
import os
import re
import shutil
import subprocess
import sys
import time

VERIF = os.path.dirname(os.path.dirname(os.path.dirname(os.path.dirname(os.path.abspath(__file__)))))
CACHE = os.environ.get("VERIF_CACHE") or os.path.join(VERIF, ".cache")   # VERIF_CACHE: private cache for parallel scratch runs (self-test sweep)
MIRX_DIR = os.path.join(VERIF, "engine", "mirx")
MIRX_BIN = os.path.join(MIRX_DIR, "target", "debug", "mirx")

CONFIGS = {
    # dev profile: overflow checks and debug assertions on (superset of panics)
    "dev": "-Zmir-opt-level=0 -Awarnings",
    # release semantics: wrapping arithmetic instead of overflow panics
    "rel": "-Zmir-opt-level=0 -Awarnings -C overflow-checks=off -C debug-assertions=off",
}


class InfraError(Exception):
    pass


def _sysroot():
    return subprocess.check_output(["rustc", "+nightly", "--print", "sysroot"], text=True).strip()


def source_digest(repo):
    h = hashlib.sha256()
    files = []
    for root, dirs, fs in os.walk(os.path.join(repo, "src")):
        dirs.sort()
        for f in sorted(fs):
            files.append(os.path.join(root, f))
    for f in ("Cargo.toml", "Cargo.lock", "build.rs", ".cargo/config.toml", ".cargo/config", "rust-toolchain.toml", "rust-toolchain"):
        p = os.path.join(repo, f)
        if os.path.exists(p):
            files.append(p)
    for p in files:
        h.update(os.path.relpath(p, repo).encode())
        h.update(b"\0")
        with open(p, "rb") as fh:
            h.update(fh.read())
        h.update(b"\0")
    return h.hexdigest(), files


def _bin_digest():
    if not os.path.exists(MIRX_BIN):
        raise InfraError("mirx extractor is not built; run MANIFEST.setup_cmd (cd engine/mirx && cargo +nightly build --offline)")
    h = hashlib.sha256()
    with open(MIRX_BIN, "rb") as fh:
        h.update(fh.read())
    return h.hexdigest()


def extract(repo="/repo", config="dev", force=False):
    """Return path of facts.json for the current working tree of `repo`."""
    os.makedirs(CACHE, exist_ok=True)
    sd, files = source_digest(repo)
    key = hashlib.sha256((sd + _bin_digest() + config + CONFIGS[config]).encode()).hexdigest()[:24]
    out = os.path.join(CACHE, "facts-%s-%s.json" % (config, key))
    if os.path.exists(out) and not force:
        return out, {"cached": True, "digest": sd, "files": len(files)}
    # serialise concurrent extractions (20 quick commands may run in parallel)
    lock = os.path.join(CACHE, "extract.lock")
    import fcntl
    with open(lock, "w") as lf:
        fcntl.flock(lf, fcntl.LOCK_EX)
        if os.path.exists(out) and not force:
            return out, {"cached": True, "digest": sd, "files": len(files)}
        tdir = os.path.join(CACHE, "target-" + config)
        # cargo's freshness cache would silently skip the wrapper: drop the
        # workspace member's fingerprints so the driver always runs.
        fp = os.path.join(tdir, "debug", ".fingerprint")
        if os.path.isdir(fp):
            for d in os.listdir(fp):
                if d.startswith("digital_test_runner-") or d.startswith("digital-test-runner-"):
                    shutil.rmtree(os.path.join(fp, d), ignore_errors=True)
        tmp_out = out + ".tmp.%d" % os.getpid()
        if os.path.exists(tmp_out):
            os.remove(tmp_out)
        env = dict(os.environ)
        env["LD_LIBRARY_PATH"] = os.path.join(_sysroot(), "lib") + ":" + env.get("LD_LIBRARY_PATH", "")
        env["RUSTFLAGS"] = CONFIGS[config]
        env["RUSTC_WORKSPACE_WRAPPER"] = MIRX_BIN
        env["MIRX_OUT"] = tmp_out
        env["CARGO_TARGET_DIR"] = tdir
        env["CARGO_NET_OFFLINE"] = "true"
        env.pop("RUSTC_WRAPPER", None)
        t0 = time.time()
        p = subprocess.run(
            ["cargo", "+nightly", "check", "--offline", "--lib"],
            cwd=repo, env=env, stdout=subprocess.PIPE, stderr=subprocess.STDOUT, text=True,
        )
        if p.returncode != 0 or not os.path.exists(tmp_out):
            sys.stderr.write(p.stdout[-6000:])
            raise InfraError("fact extraction failed (cargo exit %s, fact file %s)" % (
                p.returncode, "present" if os.path.exists(tmp_out) else "missing"))
        os.replace(tmp_out, out)
        # keep the cache small: only the sixteen most recent fact files of this config stay (several trees may be checked at the
        # same time — scratch copies in the self-test — and must not evict one another between extraction and load)
        olds = sorted((f for f in os.listdir(CACHE) if f.startswith("facts-%s-" % config) and f.endswith(".json") and os.path.join(CACHE, f) != out),
                      key=lambda f: os.path.getmtime(os.path.join(CACHE, f)), reverse=True)
        for f in olds[15:]:
            try:
                os.remove(os.path.join(CACHE, f))
            except OSError:
                pass
        return out, {"cached": False, "digest": sd, "files": len(files), "extract_s": round(time.time() - t0, 2)}


# ---------------------------------------------------------------------------

def _split_top(s, sep=","):
    parts, depth, cur = [], 0, ""
    for i, c in enumerate(s):
        if c in "<([":
            depth += 1
        elif c in ")]" or (c == ">" and (i == 0 or s[i - 1] != "-")):
            depth -= 1
        if c == sep and depth == 0:
            parts.append(cur)
            cur = ""
        else:
            cur += c
    if cur.strip():
        parts.append(cur)
    return [p.strip() for p in parts]


def norm_name(n, keep=False):
    """Stable names: generic argument lists attached to a path segment are
    dropped (`a::B::<'a, T>::f` -> `a::B::f`); inside a qualified path or an
    `impl` header the type arguments are kept but lifetimes are dropped
    (`<a::B<'a> as From<C<'a>>>::f` -> `<a::B as From<C>>::f`)."""
    out = []
    i = 0
    L = len(n)
    while i < L:
        c = n[i]
        if c == "<":
            depth = 0
            j = i
            while j < L:
                if n[j] == "<":
                    depth += 1
                elif n[j] == ">" and (j == 0 or n[j - 1] != "-"):
                    depth -= 1
                    if depth == 0:
                        break
                j += 1
            inner = n[i + 1:j]
            prev = "".join(out)
            attached = bool(prev) and (prev[-1].isalnum() or prev[-1] == "_" or prev.endswith("::")) and not inner.startswith("impl ")
            if not attached:
                out.append("<" + norm_name(inner, True) + ">")
            elif keep:
                args = [norm_name(a, True) for a in _split_top(inner) if not re.match(r"^'\w+$", a)]
                if prev.endswith("::"):
                    out.append("")  # keep turbofish marker out
                    out = ["".join(out)[:-2]]
                if args:
                    out.append("<" + ", ".join(args) + ">")
            else:
                if prev.endswith("::"):
                    out = [prev[:-2]]
            i = j + 1
            continue
        out.append(c)
        i += 1
    s = "".join(out)
    s = re.sub(r"&'\w+ ", "&", s)
    return s


class Body:
    def __init__(self, j, facts):
        self.j = j
        self.facts = facts
        self.raw_name = j["name"]
        self.name = norm_name(j["name"])
        self.kind = j["kind"]
        self.blocks = j["blocks"]
        self.locals = j["locals"]
        self.arg_count = j["arg_count"]
        self.span = j["span"]
        self.file = j["span"]["file"]
        self.line = j["span"]["line"]
        self.derived = bool(j.get("def_exp"))
        self.reachable = j.get("reachable")
        self.root = norm_name(j["root"]) if "root" in j else None
        self.parent = norm_name(j["parent"]) if "parent" in j else None
        self.is_promoted = "::promoted[" in self.name
        self._succ = None
        self._preds = None
        self._defs = None
        self.debug_names = {}
        self.inlined_local_names = set(d["name"] for d in j.get("debug", []) if d.get("inlined_from"))
        for d in j.get("debug", []):
            pl = d["place"]
            if not pl["p"]:
                self.debug_names.setdefault(pl["l"], d["name"])

    def __repr__(self):
        return "<Body %s>" % self.name

    # ---- CFG (cleanup blocks and unwind edges removed) -------------------
    def term(self, bb):
        return self.blocks[bb]["term"]

    def succ(self, bb):
        if self._succ is None:
            self._succ = [self._succ_of(i) for i in range(len(self.blocks))]
        return self._succ[bb]

    def _succ_of(self, bb):
        t = self.blocks[bb]["term"]
        k = t["t"]
        if k == "goto":
            return [t["target"]]
        if k == "switch":
            out = []
            for v, b in t["targets"]:
                if b not in out:
                    out.append(b)
            if t["otherwise"] not in out:
                out.append(t["otherwise"])
            return out
        if k in ("drop", "assert"):
            return [t["target"]]
        if k == "call":
            return [t["target"]] if t["target"] is not None else []
        return []

    def preds(self, bb):
        if self._preds is None:
            self._preds = [[] for _ in self.blocks]
            reach = self.reachable_blocks()
            for i in range(len(self.blocks)):
                if self.blocks[i]["cleanup"] or i not in reach:   # an unreachable block is nobody's predecessor
                    continue
                for s in self.succ(i):
                    self._preds[s].append(i)
        return self._preds[bb]

    def reachable_blocks(self):
        seen = set()
        st = [0]
        while st:
            b = st.pop()
            if b in seen:
                continue
            seen.add(b)
            st.extend(self.succ(b))
        return seen

    def local_name(self, l):
        if l == 0:
            return "_0"
        return self.debug_names.get(l, "_%d" % l)

    def local_ty(self, l):
        return self.locals[l]["ty"]

    # ---- definitions ---------------------------------------------------------
    def defs(self):
        """local -> list of (bb, idx, kind, payload); kind in assign|call|arg.
        Only whole-local definitions (`_n = ...`) and partial ones (projection
        non-empty) are recorded, flagged."""
        if self._defs is None:
            d = {}
            rb = self.reachable_blocks()
            for bb in sorted(rb):
                blk = self.blocks[bb]
                for i, st in enumerate(blk["stmts"]):
                    if st["s"] == "assign":
                        l = st["lhs"]["l"]
                        d.setdefault(l, []).append((bb, i, "assign", st))
                    elif st["s"] == "setdiscr":
                        l = st["lhs"]["l"]
                        d.setdefault(l, []).append((bb, i, "setdiscr", st))
                t = blk["term"]
                if t["t"] == "call":
                    l = t["dest"]["l"]
                    d.setdefault(l, []).append((bb, len(blk["stmts"]), "call", t))
            self._defs = d
        return self._defs

    def calls(self):
        """Yield (bb, term) for all call terminators in reachable non-cleanup blocks."""
        for bb in sorted(self.reachable_blocks()):
            t = self.blocks[bb]["term"]
            if t["t"] == "call":
                yield bb, t


def callee_name(term):
    """Best name of a call's callee: resolved instance if crate-local or
    resolvable, else the trait method path.  Returns (name, info)."""
    f = term["func"]
    if f.get("k") != "const" or "fn" not in f:
        return ("<indirect>", f)
    if "res" in f and f.get("res_k") in ("item",):
        return (norm_name(f["res"]), f)
    return (norm_name(f["fn"]), f)


_CLOSURE_NO = re.compile(r"\{closure#(\d+)\}$")


def closure_signatures(bodies_json, depth):
    """{parent raw name: [(closure raw name, signature)]} for parents at closure-nesting `depth`
    (0 = ordinary functions), each list in closure-number order.  The signature says how the
    closure is used: the callee it is passed to, the argument position, its own parameter count."""
    byname = {b["name"]: b for b in bodies_json}
    out = {}
    for b in bodies_json:
        if b["name"].count("{closure#") != depth or "::promoted[" in b["name"]:
            continue
        for blk in b["blocks"]:
            for st in blk["stmts"]:
                if st["s"] == "assign" and st["rv"]["r"] == "agg" and st["rv"].get("ak") == "closure":
                    cname = st["rv"]["closure"]
                    L = st["lhs"]["l"]
                    sig = ("?", -1)
                    for blk2 in b["blocks"]:
                        t = blk2["term"]
                        if t["t"] == "call":
                            for ai, a_ in enumerate(t["args"]):
                                if a_.get("k") in ("move", "copy") and a_.get("l") == L and not a_.get("p"):
                                    sig = (re.sub(r"<.*", "", t["func"].get("fn", "?")).split("::")[-1] if "fn" in t["func"] else "?", ai)
                                    full = t["func"].get("fn", "?")
                                    sig = (re.sub(r"^.*::(\w+::\w+)$", r"\1", re.sub(r"<[^<>]*>", "", full)), ai)
                    cb = byname.get(cname)
                    ent = (cname, [sig[0], sig[1], cb["arg_count"] if cb else -1])
                    lst = out.setdefault(b["name"], [])
                    if all(e[0] != cname for e in lst):
                        lst.append(ent)
    for k in out:
        out[k].sort(key=lambda e: int(_CLOSURE_NO.search(e[0]).group(1)) if _CLOSURE_NO.search(e[0]) else 0)
    return out


def _embeddings(ref, cur, limit=2):
    """Order-preserving embeddings of sequence ref into cur (as index lists), at most `limit`."""
    res = []

    def go(i, j, acc):
        if len(res) >= limit:
            return
        if i == len(ref):
            res.append(list(acc))
            return
        for k in range(j, len(cur) - (len(ref) - i) + 1):
            if cur[k] == ref[i]:
                acc.append(k)
                go(i + 1, k + 1, acc)
                acc.pop()
    go(0, 0, [])
    return res


def _rename_closures(bodies_json, ren):
    """Apply {old raw closure name: new raw closure name} to every name that has one of them as a prefix."""
    if not ren:
        return
    olds = sorted(ren, key=len, reverse=True)

    def fix(nm):
        for o in olds:
            if nm == o or nm.startswith(o + "::"):
                return ren[o] + nm[len(o):]
        return nm
    for b in bodies_json:
        for k in ("name", "root", "parent"):
            if k in b:
                b[k] = fix(b[k])
        for blk in b["blocks"]:
            for st in blk["stmts"]:
                if st["s"] == "assign" and st["rv"]["r"] == "agg" and st["rv"].get("ak") == "closure":
                    st["rv"]["closure"] = fix(st["rv"]["closure"])


def apply_closure_reference(bodies_json, ref):
    """Closures are numbered by rustc in source order, so adding one renumbers the later ones of the
    same function.  The rule texts use the numbers of the reference tree; when the reference closures
    of a function embed in exactly one order-preserving way into the current ones (same use
    signature), the current closures are renumbered to the reference numbers and the additional
    ones get the numbers after them."""
    applied = []
    for depth in range(0, 3):
        cur = closure_signatures(bodies_json, depth)
        ren = {}
        for parent, lst in cur.items():
            rsig = ref.get(parent)
            if rsig is None:
                continue
            csig = [e[1] for e in lst]
            if csig == rsig or len(csig) < len(rsig):
                continue
            emb = _embeddings(rsig, csig)
            if len(emb) != 1:
                continue
            used = emb[0]
            nxt = len(rsig)
            for idx, (cname, _) in enumerate(lst):
                if idx in used:
                    no = used.index(idx)
                else:
                    no = nxt
                    nxt += 1
                new = _CLOSURE_NO.sub("{closure#%d}" % no, cname)
                if new != cname:
                    ren[cname] = new
                    applied.append((cname, new))
        if ren:
            # two-step to allow swaps
            tmp = dict((o, o + "\x00tmp") for o in ren)
            _rename_closures(bodies_json, tmp)
            _rename_closures(bodies_json, dict((tmp[o], ren[o]) for o in ren))
    return applied


def function_signatures(bodies_json):
    """{raw name: [prefix, [return type, parameter types...]]} of the hand-written free functions and
    inherent methods (trait methods cannot be renamed locally)."""
    out = {}
    for b in bodies_json:
        if b["kind"] not in ("Fn", "AssocFn") or b.get("def_exp") or b.get("impl_trait") or "{closure#" in b["name"] or "::promoted[" in b["name"]:
            continue
        if "/tests" in b["span"]["file"] or b["span"]["file"].endswith("tests.rs"):
            continue
        nm = b["name"]
        out[nm] = [nm.rsplit("::", 1)[0] if "::" in nm else "", [b["locals"][i]["ty"] for i in range(0, b["arg_count"] + 1)]]
    return out


def apply_function_reference(bodies_json, ref):
    """A private function that was merely renamed (same module / impl, same parameter and return types,
    and the only unmatched function there with that signature) is read under its reference name."""
    cur = function_signatures(bodies_json)
    missing = [m for m in ref if m not in cur]
    new = [n for n in cur if n not in ref]
    pairs = {}
    for m in missing:
        c = [n for n in new if cur[n] == ref[m]]
        if len(c) == 1:
            pairs.setdefault(c[0], []).append(m)
    ren = dict((n, ms[0]) for n, ms in pairs.items() if len(ms) == 1)
    # a function that kept its name and signature but moved to another module / impl block of the crate
    moved = {}
    for m in missing:
        if m in ren.values():
            continue
        last = m.rsplit("::", 1)[-1]
        c = [n for n in new if n not in ren and n.rsplit("::", 1)[-1] == last and cur[n][1] == ref[m][1]]
        if len(c) == 1:
            moved.setdefault(c[0], []).append(m)
    ren.update((n, ms[0]) for n, ms in moved.items() if len(ms) == 1)
    if not ren:
        return []
    olds = sorted(ren, key=len, reverse=True)

    def fix(nm):
        if not isinstance(nm, str):
            return nm
        for o in olds:
            if nm == o or nm.startswith(o + "::{") or nm.startswith(o + "::promoted["):
                return ren[o] + nm[len(o):]
        return nm
    for b in bodies_json:
        for k in ("name", "root", "parent"):
            if k in b:
                b[k] = fix(b[k])
        for blk in b["blocks"]:
            for st in blk["stmts"]:
                if st["s"] == "assign":
                    rv = st["rv"]
                    if rv["r"] == "agg" and rv.get("ak") == "closure":
                        rv["closure"] = fix(rv["closure"])
                    for key in ("a", "b"):
                        o = rv.get(key)
                        if isinstance(o, dict) and "fn" in o:
                            for k in ("fn", "res", "fn_full"):
                                if k in o:
                                    o[k] = fix(o[k])
                    for o in rv.get("ops", []) if isinstance(rv.get("ops"), list) else []:
                        if isinstance(o, dict) and "fn" in o:
                            for k in ("fn", "res", "fn_full"):
                                if k in o:
                                    o[k] = fix(o[k])
            t = blk["term"]
            if t["t"] == "call":
                f = t["func"]
                for k in ("fn", "res", "fn_full"):
                    if k in f:
                        f[k] = fix(f[k])
                for a_ in t["args"]:
                    if isinstance(a_, dict) and "fn" in a_:
                        for k in ("fn", "res", "fn_full"):
                            if k in a_:
                                a_[k] = fix(a_[k])
    return sorted(ren.items())


# ---------------------------------------------------------------------------------------------------------
# New private helper functions are read where they are called (MIR-level inlining on the fact file).
# A refactoring that moves part of a function into a helper of its own leaves the behaviour alone; the rules
# are written against the functions of the reference tree, so a function that the reference tree does not
# have (after rename / move aliasing), that is not public, not recursive and not used as a value, is spliced
# into each of its call sites: its locals and blocks are appended to the caller (indices shifted), arguments
# become assignments to its parameter locals, `return` becomes an assignment of its return place to the call's
# destination followed by a jump to the call's target; its closures and promoted constants are adopted by the
# caller.  Inlining preserves behaviour, so whatever the rules decide on the result holds for the tree.

def _shift_locals(x, off, child_ren=None, owner_ren=None):
    if isinstance(x, dict):
        if isinstance(x.get("l"), int) and "p" in x:
            x["l"] += off
            for e in x["p"]:
                if isinstance(e, dict) and set(e.keys()) == {"idx"} and isinstance(e["idx"], int):
                    e["idx"] += off
        if child_ren:
            if x.get("r") == "agg" and x.get("ak") == "closure" and x.get("closure") in child_ren:
                x["closure"] = child_ren[x["closure"]]
            if "uneval" in x and "promoted" in x and (x["uneval"], x["promoted"]) in owner_ren:
                x["uneval"], x["promoted"] = owner_ren[(x["uneval"], x["promoted"])]
        for k, v in x.items():
            if k in ("span", "fn_span", "ty", "variants"):
                continue
            _shift_locals(v, off, child_ren, owner_ren)
    elif isinstance(x, list):
        for v in x:
            _shift_locals(v, off, child_ren, owner_ren)


def _shift_blocks(t, off):
    for k in ("target", "otherwise", "unwind"):
        if isinstance(t.get(k), int) and not isinstance(t.get(k), bool):
            t[k] += off
    if "targets" in t:
        t["targets"] = [[v, tg + off] for v, tg in t["targets"]]


def _local_callee(t):
    f = t.get("func")
    if t.get("t") == "call" and isinstance(f, dict) and f.get("local") and "fn" in f:
        return f["fn"]
    return None


def _count_fn_refs(x, name):
    n = 0
    if isinstance(x, dict):
        if x.get("fn") == name or x.get("res") == name:
            n += 1
        for k, v in x.items():
            if k not in ("span", "fn_span"):
                n += _count_fn_refs(v, name)
    elif isinstance(x, list):
        for v in x:
            n += _count_fn_refs(v, name)
    return n


def _inline_at(bodies_json, b, bi, h):
    import copy
    t = b["blocks"][bi]["term"]
    off_l, off_b = len(b["locals"]), len(b["blocks"])
    hn, bn = h["name"], b["name"]
    # adopt the helper's closures and promoted constants (deep copies, renumbered after the caller's own)
    n_cl = len([x for x in bodies_json if x.get("parent") == bn and x["kind"] == "Closure" and "::promoted[" not in x["name"][len(bn):]])
    n_pr = len([x for x in bodies_json if x["name"].startswith(bn + "::promoted[")])
    child_ren, owner_ren, adopted = {}, {}, []
    kids = [x for x in bodies_json if x["name"].startswith(hn + "::")]
    direct_cl = sorted([x["name"] for x in kids if re.fullmatch(re.escape(hn) + r"::\{closure#\d+\}", x["name"])], key=lambda s_: int(re.search(r"#(\d+)\}$", s_).group(1)))
    for k_, nm in enumerate(direct_cl):
        child_ren[nm] = "%s::{closure#%d}" % (bn, n_cl + k_)
    direct_pr = sorted([x["name"] for x in kids if re.fullmatch(re.escape(hn) + r"::promoted\[\d+\]", x["name"])], key=lambda s_: int(re.search(r"\[(\d+)\]$", s_).group(1)))
    for k_, nm in enumerate(direct_pr):
        old_idx = int(re.search(r"\[(\d+)\]$", nm).group(1))
        owner_ren[(hn, old_idx)] = (bn, n_pr + k_)
        child_ren[nm] = "%s::promoted[%d]" % (bn, n_pr + k_)

    def ren(nm):
        if not isinstance(nm, str):
            return nm
        for o in sorted(child_ren, key=len, reverse=True):
            if nm == o or nm.startswith(o + "::"):
                return child_ren[o] + nm[len(o):]
        if nm == hn:
            return bn
        return nm
    for x in kids:
        c = copy.deepcopy(x)
        old = c["name"]
        c["name"] = ren(old)
        if c["name"] == old:
            continue
        for k_ in ("root", "parent"):
            if k_ in c:
                c[k_] = ren(c[k_]) if c[k_] != hn else bn
        if "root" in c and "root" in b:
            c["root"] = b["root"]
        # references from inside the adopted child to its own siblings / promoteds
        sub_owner = {}
        for blk in c["blocks"]:
            _rename_refs(blk, ren)
        adopted.append(c)
    hb = copy.deepcopy(h["blocks"])
    for blk in hb:
        _shift_locals(blk["stmts"], off_l, child_ren, owner_ren)
        _shift_locals(blk["term"], off_l, child_ren, owner_ren)
        _shift_blocks(blk["term"], off_b)
        _rename_refs(blk, ren, only_closure=True)
    b["locals"].extend(copy.deepcopy(h["locals"]))
    for d in h.get("debug", []):
        dd = copy.deepcopy(d)
        _shift_locals(dd, off_l)
        dd["arg"] = None
        dd["inlined_from"] = hn
        b.setdefault("debug", []).append(dd)
    blk = b["blocks"][bi]
    for i, a in enumerate(t["args"]):
        blk["stmts"].append({"s": "assign", "lhs": {"l": off_l + 1 + i, "p": [], "ty": h["locals"][1 + i]["ty"]}, "rv": {"r": "use", "a": a}, "span": t["span"]})
    blk["term"] = {"t": "goto", "target": off_b, "span": t["span"]}
    for hblk in hb:
        ht = hblk["term"]
        if ht["t"] == "return":
            if t.get("target") is None:
                hblk["term"] = {"t": "unreachable", "span": ht["span"]}
            else:
                hblk["stmts"].append({"s": "assign", "lhs": copy.deepcopy(t["dest"]), "rv": {"r": "use", "a": {"k": "move", "l": off_l, "p": [], "ty": h["locals"][0]["ty"]}}, "span": ht["span"]})
                hblk["term"] = {"t": "goto", "target": t["target"], "span": ht["span"]}
        elif ht["t"] == "resume" and isinstance(t.get("unwind"), int) and not isinstance(t.get("unwind"), bool):
            hblk["term"] = {"t": "goto", "target": t["unwind"], "span": ht["span"]}
    b["blocks"].extend(hb)
    bodies_json.extend(adopted)


def _rename_refs(x, ren, only_closure=False):
    if isinstance(x, dict):
        if x.get("r") == "agg" and x.get("ak") == "closure" and "closure" in x:
            x["closure"] = ren(x["closure"])
        if not only_closure and "uneval" in x and "promoted" in x:
            full = ren("%s::promoted[%d]" % (x["uneval"], x["promoted"]))
            m = re.fullmatch(r"(.*)::promoted\[(\d+)\]", full)
            if m:
                x["uneval"], x["promoted"] = m.group(1), int(m.group(2))
        for k, v in x.items():
            if k not in ("span", "fn_span", "ty"):
                _rename_refs(v, ren, only_closure)
    elif isinstance(x, list):
        for v in x:
            _rename_refs(v, ren, only_closure)


def inline_new_helpers(bodies_json, ref, limit_blocks=250):
    cur = function_signatures(bodies_json)
    new = [n for n in cur if n not in ref]
    if not new:
        return []
    by = {b["name"]: b for b in bodies_json}
    cands = []
    for n in new:
        h = by[n]
        if h.get("vis_pub") or len(h["blocks"]) > limit_blocks:
            continue
        if any(_local_callee(blk["term"]) == n for x in bodies_json if x["name"] == n or x["name"].startswith(n + "::") for blk in x["blocks"]):
            continue   # recursive
        cands.append(n)
    done = []
    for _round in range(5):
        progress = False
        for n in list(cands):
            h = by[n]
            inner = [_local_callee(blk["term"]) for x in bodies_json if x["name"] == n or x["name"].startswith(n + "::") for blk in x["blocks"]]
            if any(c in cands and c != n for c in inner):
                continue   # inline what it calls first
            sites = [(b, bi) for b in bodies_json if b["name"] != n and not b["name"].startswith(n + "::") for bi, blk in enumerate(b["blocks"]) if _local_callee(blk["term"]) == n]
            refs = sum(_count_fn_refs(b["blocks"], n) for b in bodies_json)
            if not sites or refs != len(sites):   # unused, or also used as a function value
                cands.remove(n)
                continue
            for b, bi in sites:
                _inline_at(bodies_json, b, bi, h)
            bodies_json[:] = [x for x in bodies_json if x["name"] != n and not x["name"].startswith(n + "::")]
            by = {b["name"]: b for b in bodies_json}
            cands.remove(n)
            done.append((n, sorted(set(b["name"] for b, _ in sites))))
            progress = True
        if not progress:
            break
    return done


def adt_fields(adts_json):
    """{adt raw name: {variant: [[field name, type], ...]}} for crate-local ADTs with named fields."""
    out = {}
    for a in adts_json:
        vs = {}
        for v in a.get("variants", []):
            fl = [[f["name"], f["ty"]] for f in v.get("fields", [])]
            if fl and not all(re.fullmatch(r"\d+", f[0]) for f in fl):
                vs[v["name"]] = fl
        if vs:
            out[a["name"]] = vs
    return out


def apply_field_order(j, ref):
    """Aggregate literals list their fields in declaration order; a reordered declaration (same field
    names) is read in the reference order, so that reordering fields alone never changes a term."""
    n = 0

    def walk(o):
        nonlocal n
        if isinstance(o, dict):
            if o.get("r") == "agg" and o.get("ak") == "adt" and o.get("adt") in ref and isinstance(o.get("fields"), list) and isinstance(o.get("ops"), list) and len(o["fields"]) == len(o["ops"]):
                rf = ref[o["adt"]].get(o.get("variant"))
                if rf:
                    order = [r[0] for r in rf]
                    if sorted(order) == sorted(o["fields"]) and order != o["fields"]:
                        idx = [o["fields"].index(nm) for nm in order]
                        o["fields"] = [o["fields"][i] for i in idx]
                        o["ops"] = [o["ops"][i] for i in idx]
                        n += 1
            for v in o.values():
                walk(v)
        elif isinstance(o, list):
            for v in o:
                walk(v)
    for b in j["bodies"]:
        walk(b["blocks"])
    return n


def apply_field_reference(j, ref):
    """A field that was merely renamed (same ADT and variant, same position, same type, and the new name
    is not the old name of another field) is read under its reference name."""
    cur = adt_fields(j["adts"])
    ren = {}     # (adt, variant, new) -> old
    for adt, vs in ref.items():
        cvs = cur.get(adt)
        if not cvs:
            continue
        for vname, rf in vs.items():
            cf = cvs.get(vname)
            if not cf or len(cf) != len(rf) or any(c[1] != r[1] for c, r in zip(cf, rf)):
                continue
            rnames = [r[0] for r in rf]
            cnames = [c[0] for c in cf]
            if rnames == cnames or any(c != r and c in rnames for c, r in zip(cnames, rnames)):
                continue
            for c, r in zip(cnames, rnames):
                if c != r:
                    ren[(adt, vname, c)] = r
    if not ren:
        return []
    by_adt = {}
    for (adt, vname, c), r in ren.items():
        by_adt.setdefault(adt, {})[c] = r     # field names are unique per variant; struct-like enums rarely share names across variants with different meanings
    for a in j["adts"]:
        m = by_adt.get(a["name"])
        if m:
            for v in a.get("variants", []):
                for f in v.get("fields", []):
                    if (a["name"], v["name"], f["name"]) in ren:
                        f["name"] = ren[(a["name"], v["name"], f["name"])]

    def fix_place(pl):
        for e in pl.get("p", []) if isinstance(pl, dict) else []:
            if isinstance(e, dict) and "f" in e and e.get("of") in by_adt and e["f"] in by_adt[e["of"]]:
                e["f"] = by_adt[e["of"]][e["f"]]

    def walk(o):
        if isinstance(o, dict):
            if "p" in o and "l" in o:
                fix_place(o)
            if o.get("r") == "agg" and o.get("ak") == "adt" and o.get("adt") in by_adt:
                o["fields"] = [ren.get((o["adt"], o.get("variant"), f), f) for f in o.get("fields", [])]
            for v in o.values():
                walk(v)
        elif isinstance(o, list):
            for v in o:
                walk(v)
    for b in j["bodies"]:
        walk(b["blocks"])
        for d in b.get("debug", []):
            walk(d)
    return sorted(("%s::%s.%s" % k, v) for k, v in ren.items())


def prune_literal_try(bodies_json):
    """`Err(e)?` / `None?` never continues: the `?` applied to a value that is, at that point, a literal `Err(..)` / `None`
    built just before (`return Err(e)` spelled `Err(e)?`) only ever takes its Break edge.  The Continue edge is removed from
    the CFG, so that dominance-based rules (guards, typestate) read the two spellings alike.  Returns the number of edges removed."""
    n = 0
    for b in bodies_json:
        blocks = b.get("blocks", [])
        # definitions per local (whole-local assignments and call destinations)
        ndefs, aggdef = {}, {}
        for blk in blocks:
            for st in blk["stmts"]:
                if st.get("s") == "assign":
                    l = st["lhs"]["l"]
                    ndefs[l] = ndefs.get(l, 0) + 1
                    if not st["lhs"]["p"] and st["rv"].get("r") == "agg" and st["rv"].get("variant") in ("Err", "None") and str(st["rv"].get("adt", "")).split("<")[0].endswith(("result::Result", "option::Option")):
                        aggdef[l] = st["rv"]["variant"]
            t = blk["term"]
            if t.get("t") == "call" and t.get("dest"):
                l = t["dest"]["l"]
                ndefs[l] = ndefs.get(l, 0) + 1
        for blk in blocks:
            t = blk["term"]
            if t.get("t") != "call" or t.get("target") is None or len(t.get("args", [])) != 1:
                continue
            f = t.get("func", {})
            if not str(f.get("fn", "")).endswith("ops::Try::branch") and not str(f.get("res", "")).endswith("Try>::branch"):
                continue
            a = t["args"][0]
            if a.get("k") not in ("move", "copy") or a.get("p") or aggdef.get(a["l"]) is None or ndefs.get(a["l"]) != 1:
                continue
            tb = blocks[t["target"]]
            tt = tb["term"]
            if tt.get("t") != "switch":
                continue
            dl = t["dest"]["l"]
            disc = None
            for st in tb["stmts"]:
                if st.get("s") == "assign" and st["rv"].get("r") == "discr" and st["rv"]["a"].get("l") == dl and not st["rv"]["a"].get("p"):
                    disc = st
            if disc is None or tt["discr"].get("l") != disc["lhs"]["l"]:
                continue
            brk = [v["discr"] for v in disc["rv"].get("variants", []) if v["name"] == "Break"]
            tg = dict((v, k) for v, k in tt["targets"])
            if len(brk) == 1 and brk[0] in tg:
                tb["term"] = {"t": "goto", "target": tg[brk[0]], "span": tt.get("span")}
                n += 1
    return n


def fold_literal_const_items(bodies_json):
    """A named constant whose initialiser is one literal (`const MAX_BITS: i64 = 64;`, `const NAME: &str = "n";`) is read as that
    literal wherever it is used: naming a magic number is not a change of behaviour.  Returns {const item: literal} for the
    evidence.  Anything else (a computed constant, a table) stays a reference to the item and is folded by the rules that need it."""
    lit = {}
    for b in bodies_json:
        if not str(b.get("kind", "")).startswith("Const") or len(b.get("blocks", [])) != 1:
            continue
        blk = b["blocks"][0]
        if blk["term"].get("t") != "return" or len(blk["stmts"]) != 1:
            continue
        st = blk["stmts"][0]
        if st.get("s") != "assign" or st["lhs"].get("l") != 0 or st["lhs"].get("p") or st["rv"].get("r") != "use":
            continue
        a = st["rv"]["a"]
        if isinstance(a, dict) and a.get("k") == "const" and ("int" in a or "str" in a or _STR_LIT.match(a.get("v", "") or "")) and "uneval" not in a and "promoted" not in a:
            lit[b["name"]] = a
    if not lit:
        return {}
    used = {}

    def walk(x):
        if isinstance(x, dict):
            if x.get("k") == "const" and "uneval" in x and "promoted" not in x and x["uneval"] in lit:
                src = lit[x["uneval"]]
                nm = x["uneval"]
                for k_ in list(x.keys()):
                    if k_ not in ("k",):
                        del x[k_]
                x.update({k_: v_ for k_, v_ in src.items()})
                used[nm] = src.get("int", src.get("str", src.get("v")))
                return
            for v in x.values():
                walk(v)
        elif isinstance(x, list):
            for v in x:
                walk(v)
    for b in bodies_json:
        if b["name"] in lit:
            continue
        walk(b["blocks"])
    return used


_STR_LIT = re.compile(r'^const "')


class Facts:
    def __init__(self, path, meta=None, inline=True):
        self._inline = inline
        self._raw = None
        with open(path) as fh:
            self.j = json.load(fh)
        self.closure_aliases = []
        self.function_aliases = []
        self.field_aliases = []
        self.field_reorders = 0
        self.inlined_helpers = []
        _ref_path = os.path.join(os.path.dirname(os.path.dirname(os.path.dirname(os.path.abspath(__file__)))), "reference_names.json")
        if os.path.exists(_ref_path):
            with open(_ref_path) as fh:
                _ref = json.load(fh)
            self.field_aliases = apply_field_reference(self.j, _ref.get("fields", {}))
            self.field_reorders = apply_field_order(self.j, _ref.get("fields", {}))
            self.function_aliases = apply_function_reference(self.j["bodies"], _ref.get("functions", {}))
            self.inlined_helpers = []
            try:
                import copy as _copy
                _backup = _copy.deepcopy(self.j["bodies"])
                self.inlined_helpers = inline_new_helpers(self.j["bodies"], _ref.get("functions", {})) if inline else []
            except Exception as _e:   # never let the convenience break a check: analyse the tree as written
                self.j["bodies"] = _backup
                self.inlined_helpers = []
                self.inline_error = repr(_e)
            self.closure_aliases = apply_closure_reference(self.j["bodies"], _ref.get("closures", {}))
        self.literal_consts = fold_literal_const_items(self.j["bodies"])
        self.pruned_literal_try = prune_literal_try(self.j["bodies"])
        self.path = path
        self.meta = meta or {}
        self.config = self.j["config"]
        if self.config.get("crate") != "digital_test_runner":
            raise InfraError("fact file is for a foreign crate: %r" % self.config.get("crate"))
        self.bodies = {}
        self.all_bodies = []
        for bj in self.j["bodies"]:
            b = Body(bj, self)
            self.all_bodies.append(b)
            # names are unique in practice; keep first and flag duplicates
            if b.name in self.bodies:
                k = 1
                while "%s#%d" % (b.name, k) in self.bodies:
                    k += 1
                b.name = "%s#%d" % (b.name, k)
            self.bodies[b.name] = b
        self.aliases = self._apply_reference_names()
        self.adts = {norm_name(a["name"]): a for a in self.j["adts"]}
        self.items = self.j["items"]
        self.logos = {e["enum"].split("::", 1)[1] if "::" in e["enum"] else e["enum"]: e for e in self.j["logos"]}

    def _apply_reference_names(self):
        """Parameters are identified by position.  The rule texts spell a parameter with the name it
        has in the reference tree (engine/reference_names.json, generated by engine/mkreference.py);
        when a function keeps its parameter list (same count, same types) but a parameter was merely
        renamed, the reference name is used as an alias so that a rename alone never changes a verdict.
        No alias is applied if the new name set overlaps the old one at other positions (a reorder)."""
        ref_path = os.path.join(os.path.dirname(os.path.dirname(os.path.dirname(os.path.abspath(__file__)))), "reference_names.json")
        applied = []
        if not os.path.exists(ref_path):
            return applied
        with open(ref_path) as fh:
            ref = json.load(fh)
        for name, rec in ref.get("params", {}).items():
            b = self.bodies.get(name)
            if b is None or b.kind == "Closure" or b.arg_count != len(rec):
                continue
            cur = [(b.debug_names.get(i + 1), b.locals[i + 1]["ty"]) for i in range(b.arg_count)]
            if any(c[1] != r[1] for c, r in zip(cur, rec)):
                continue
            cur_names = [c[0] for c in cur]
            rec_names = [r[0] for r in rec]
            if cur_names == rec_names:
                continue
            moved = any(c is not None and c != r and c in rec_names for c, r in zip(cur_names, rec_names))
            if moved:
                continue
            for i, (c, r) in enumerate(zip(cur_names, rec_names)):
                if c != r and r is not None:
                    b.debug_names[i + 1] = r
                    applied.append((name, c, r))
        return applied

    def raw(self):
        """The same tree with new helpers left where they are (for the analyses that are interprocedural by themselves)."""
        if not self.inlined_helpers:
            return self
        if self._raw is None:
            self._raw = Facts(self.path, self.meta, inline=False)
        return self._raw

    def hand_bodies(self):
        return [b for b in self.all_bodies if not b.derived]

    def body(self, name):
        return self.bodies.get(name)

    def find(self, pred):
        return [b for b in self.all_bodies if pred(b)]

    def closures_of(self, name):
        return [b for b in self.all_bodies if b.kind == "Closure" and b.parent == name and not b.is_promoted]

    def promoted(self, name, idx):
        return self.bodies.get("%s::promoted[%d]" % (name, idx))


def load(repo="/repo", config="dev"):
    path, meta = extract(repo, config)
    f = Facts(path, meta)
    return f
