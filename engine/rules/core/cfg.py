"""CFG utilities over a `Body`: dominators, edge conditions, path enumeration,
SCCs, call counting."""
import sys

sys.setrecursionlimit(20000)


class Cfg:
    def __init__(self, body):
        self.b = body
        self.n = len(body.blocks)
        self.reach = body.reachable_blocks()
        self._idom = None
        self._rpo = None

    # ---- orders ------------------------------------------------------------
    def rpo(self):
        if self._rpo is None:
            seen, order = set(), []
            stack = [(0, iter(self.b.succ(0)))]
            seen.add(0)
            while stack:
                node, it = stack[-1]
                adv = False
                for s in it:
                    if s not in seen:
                        seen.add(s)
                        stack.append((s, iter(self.b.succ(s))))
                        adv = True
                        break
                if not adv:
                    order.append(node)
                    stack.pop()
            order.reverse()
            self._rpo = order
        return self._rpo

    def idom(self):
        if self._idom is None:
            rpo = self.rpo()
            idx = {b: i for i, b in enumerate(rpo)}
            idom = {0: 0}
            changed = True

            def inter(a, b):
                while a != b:
                    while idx[a] > idx[b]:
                        a = idom[a]
                    while idx[b] > idx[a]:
                        b = idom[b]
                return a

            while changed:
                changed = False
                for b in rpo[1:]:
                    ps = [p for p in self.b.preds(b) if p in idom and p in idx]
                    if not ps:
                        continue
                    new = ps[0]
                    for p in ps[1:]:
                        new = inter(p, new)
                    if idom.get(b) != new:
                        idom[b] = new
                        changed = True
            self._idom = idom
        return self._idom

    def dominates(self, a, b):
        idom = self.idom()
        if b not in idom:
            return False
        while True:
            if a == b:
                return True
            if b == 0:
                return False
            b = idom[b]

    def dom_chain(self, b):
        idom = self.idom()
        out = [b]
        while b != 0 and b in idom:
            b = idom[b]
            out.append(b)
        return out

    # ---- branch conditions that hold at a block ---------------------------
    def edge_values(self, p, x):
        """Values of switch at block p that lead to x: (set(values), is_otherwise, all_listed_values)."""
        t = self.b.term(p)
        if t["t"] != "switch":
            return None
        vals = set(v for v, bb in t["targets"] if bb == x)
        listed = set(v for v, bb in t["targets"])
        other = t["otherwise"] == x
        return (vals, other, listed)

    def conditions_at(self, bb):
        """List of (switch_block, values, is_otherwise, listed) for switch edges
        that every path from entry to `bb` must take."""
        out = []
        chain = self.dom_chain(bb)
        for x in chain:
            if x == 0:
                break
            ps = [p for p in self.b.preds(x) if p in self.reach]
            if len(ps) != 1:
                # all preds must come through the same switch edge: accept if
                # every pred is dominated by x (back edges) except one
                fwd = [p for p in ps if not self.dominates(x, p)]
                if len(fwd) != 1:
                    continue
                p = fwd[0]
            else:
                p = ps[0]
            ev = self.edge_values(p, x)
            if ev is None:
                continue
            out.append((p,) + ev)
        return out

    # ---- SCCs -----------------------------------------------------------------
    def sccs(self):
        index = {}
        low = {}
        onst = set()
        st = []
        res = []
        counter = [0]

        def strong(v):
            index[v] = low[v] = counter[0]
            counter[0] += 1
            st.append(v)
            onst.add(v)
            for w in self.b.succ(v):
                if w not in index:
                    strong(w)
                    low[v] = min(low[v], low[w])
                elif w in onst:
                    low[v] = min(low[v], index[w])
            if low[v] == index[v]:
                comp = []
                while True:
                    w = st.pop()
                    onst.discard(w)
                    comp.append(w)
                    if w == v:
                        break
                res.append(comp)

        for v in sorted(self.reach):
            if v not in index:
                strong(v)
        return res

    def cyclic_blocks(self):
        out = set()
        for comp in self.sccs():
            if len(comp) > 1 or comp[0] in self.b.succ(comp[0]):
                out.update(comp)
        return out

    # ---- path enumeration ----------------------------------------------------
    def paths(self, start=0, stop=None, limit=200000, avoid=None):
        """Enumerate acyclic paths from `start` to a terminal block (no
        successors) or to a block for which stop(bb) is true, or to a back edge
        (the path then ends with ('back', target)).  Yields lists of blocks."""
        count = [0]
        avoid = avoid or set()

        def rec(bb, path, onpath):
            if count[0] > limit:
                raise RuntimeError("path limit exceeded in %s" % self.b.name)
            path.append(bb)
            onpath.add(bb)
            if stop is not None and stop(bb) and len(path) > 1:
                count[0] += 1
                yield list(path)
            else:
                ss = [s for s in self.b.succ(bb) if s not in avoid]
                if not ss:
                    count[0] += 1
                    yield list(path)
                for s in ss:
                    if s in onpath:
                        count[0] += 1
                        yield list(path) + [("back", s)]
                    else:
                        yield from rec(s, path, onpath)
            path.pop()
            onpath.discard(bb)

        yield from rec(start, [], set())

    def can_reach(self, a, targets, avoid=frozenset()):
        """Is some block of `targets` reachable from `a` (a itself counts) without passing `avoid`?"""
        seen = set()
        st = [a]
        while st:
            x = st.pop()
            if x in seen or x in avoid:
                continue
            seen.add(x)
            if x in targets:
                return True
            st.extend(self.b.succ(x))
        return False

    def reach_from(self, a, avoid=frozenset()):
        seen = set()
        st = [a]
        while st:
            x = st.pop()
            if x in seen or x in avoid:
                continue
            seen.add(x)
            st.extend(self.b.succ(x))
        return seen

    def return_blocks(self):
        return [b for b in self.reach if self.b.term(b)["t"] == "return"]
