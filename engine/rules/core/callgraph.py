"""Whole-crate call graph over extracted bodies (crate-local nodes)."""
from .facts import callee_name, norm_name


import re
_FMT_RE = re.compile(r" as std::fmt::(Display|Debug|Binary|LowerHex|UpperHex|Octal|LowerExp|UpperExp|Pointer)>::fmt$")


class CallGraph:
    def __init__(self, facts):
        self.f = facts
        self.edges = {}        # caller -> set(callee local body names)
        self.sites = {}        # callee name (local or external) -> list of (caller body, bb)
        self.ext_calls = {}    # caller -> list of (bb, name, info)
        self.addr_taken = set()
        self.impl_methods = {}  # impl self type (normalised) -> [body names] for trait impls
        for b in facts.all_bodies:
            j = b.j
            if j.get("impl_trait") and "impl_self" in j and not b.is_promoted and b.kind == "AssocFn":
                self.impl_methods.setdefault(norm_name(j["impl_self"], True), []).append(b.name)
        for b in facts.all_bodies:
            self._scan(b)
        # indirect calls may reach any address-taken function
        for b in facts.all_bodies:
            for bb, t in b.calls():
                nm, f = callee_name(t)
                if nm == "<indirect>":
                    self.edges.setdefault(b.name, set()).update(self.addr_taken)

    def _scan(self, b):
        es = self.edges.setdefault(b.name, set())
        for bb in sorted(b.reachable_blocks()):
            blk = b.blocks[bb]
            for st in blk["stmts"]:
                if st["s"] != "assign":
                    continue
                rv = st["rv"]
                if rv["r"] == "agg" and rv["ak"] == "closure":
                    es.add(norm_name(rv["closure"]))
                for o in _operands(rv):
                    if o.get("k") == "const":
                        if "fn" in o:
                            nm = callee_name({"func": o})[0]
                            if nm in self.f.bodies:
                                # taking the address is not a call: reached only through indirect calls
                                self.addr_taken.add(nm)
                        if "promoted" in o:
                            pn = "%s::promoted[%d]" % (b.name.split("::promoted[")[0], o["promoted"])
                            if pn in self.f.bodies:
                                es.add(pn)
                        elif "uneval" in o:
                            un = norm_name(o["uneval"])
                            if un in self.f.bodies:
                                es.add(un)
            t = blk["term"]
            if t["t"] == "call":
                nm, f = callee_name(t)
                self.sites.setdefault(nm, []).append((b, bb))
                if nm in self.f.bodies:
                    es.add(nm)
                if f.get("trait") and f.get("local") and f.get("res_k") != "item":
                    # unresolved call of a crate-local trait method: every local impl may run
                    meth = f.get("method")
                    tr = norm_name(f["trait"])
                    for ms in self.impl_methods.values():
                        for m in ms:
                            if m.endswith(" as %s>::%s" % (tr, meth)):
                                es.add(m)
                if nm in self.f.bodies:
                    pass
                elif nm != "<indirect>":
                    self.ext_calls.setdefault(b.name, []).append((bb, nm, f))
                    # external generic code may call back into local trait impls
                    # of local types named in its generic arguments
                    blob = " ".join(f.get("fn_args", [])) + " " + " ".join(f.get("res_args", []))
                    for ty, methods in self.impl_methods.items():
                        base = ty.split("<")[0]
                        if base and re.search(r"(?<![A-Za-z0-9_:])" + re.escape(base) + r"(?![A-Za-z0-9_])", blob):
                            for m in methods:
                                # an external generic function can only call methods of traits it is bounded on;
                                # approximate the bound by the callee's name for the common std traits
                                low = nm.lower()
                                if "std::convert::From<" in m and not ("convert::Into" in nm or "convert::From" in nm or "from_residual" in nm):
                                    continue
                                if " as std::str::FromStr>::" in m and not nm.endswith("str>::parse"):
                                    continue
                                if " as std::iter::Iterator>::" in m and not ("iter" in low or "peekable" in low or "collect" in low or "extend" in low):
                                    continue
                                if " as std::default::Default>::" in m and not ("default" in low or "mem::take" in nm):
                                    continue
                                if " as std::iter::Extend<" in m and not ("extend" in low or "unzip" in low or "partition" in low):
                                    continue
                                if " as std::iter::IntoIterator>::" in m and not ("iter" in low or "extend" in low or "collect" in low or "zip" in low or "chain" in low or "flat" in low):
                                    continue
                                if " as std::iter::FromIterator<" in m and not ("collect" in low or "from_iter" in low or "unzip" in low or "partition" in low):
                                    continue
                                if (" as std::convert::TryFrom<" in m or " as std::convert::TryInto<" in m) and not ("try_from" in low or "try_into" in low):
                                    continue
                                if (" as std::ops::Index<" in m or " as std::ops::IndexMut<" in m) and "index" not in low:
                                    continue
                                if (" as std::convert::AsRef<" in m or " as std::borrow::Borrow<" in m) and not ("as_ref" in low or "borrow" in low):
                                    continue
                                # formatting impls are only reached through the fmt machinery of the matching trait
                                fm = _FMT_RE.search(m)
                                if fm:
                                    tr = fm.group(1).lower()
                                    if not (("fmt" in nm and ("new_" + tr) in nm) or (tr == "display" and "ToString" in nm) or (tr in nm.lower() and "fmt" in nm)):
                                        continue
                                es.add(m)
                for a in t["args"]:
                    if a.get("k") == "const" and "fn" in a:
                        an = callee_name({"func": a})[0]
                        if an in self.f.bodies:
                            self.addr_taken.add(an)
                            es.add(an)
                    if a.get("k") == "const" and "promoted" in a:
                        pn = "%s::promoted[%d]" % (b.name.split("::promoted[")[0], a["promoted"])
                        if pn in self.f.bodies:
                            es.add(pn)

    def closure(self, roots):
        seen = set()
        st = list(roots)
        while st:
            x = st.pop()
            if x in seen:
                continue
            seen.add(x)
            st.extend(self.edges.get(x, ()))
        return seen

    def callers_of(self, name):
        return self.sites.get(name, [])

    def reachers(self, targets):
        """All body names that transitively reach a call to a callee in `targets`."""
        direct = set()
        for n, b in self.f.bodies.items():
            for bb, t in b.calls():
                if callee_name(t)[0] in targets:
                    direct.add(n)
                    break
        rev = {}
        for a, bs in self.edges.items():
            for b_ in bs:
                rev.setdefault(b_, set()).add(a)
        seen = set()
        st = list(direct)
        while st:
            x = st.pop()
            if x in seen:
                continue
            seen.add(x)
            st.extend(rev.get(x, ()))
        return seen

    def reaches(self, root, targets):
        """Does `root` transitively reach a call to any callee name in `targets` (local or external)?"""
        for n in self.closure([root]):
            b = self.f.bodies.get(n)
            if b is None:
                continue
            for bb, t in b.calls():
                if callee_name(t)[0] in targets:
                    return True
        return False


def _operands(rv):
    k = rv["r"]
    if k in ("use", "cast", "un", "repeat"):
        yield rv["a"]
    elif k == "bin":
        yield rv["a"]
        yield rv["b"]
    elif k == "agg":
        for o in rv["ops"]:
            yield o
