"""LEX: decidable questions about the `logos` token specifications, by
character-class algebra.  The patterns of this crate are literals, classes,
small alternations and `+ * ?` quantifiers; anything else is reported as
unsupported (the caller fails closed)."""
import re

MAXCP = 0x10FFFF


class CharSet:
    """Set of code points as sorted disjoint intervals; `fuzzy` marks classes
    such as \\d whose non-ASCII part is not enumerated (treated as 'some
    non-ASCII code points')."""

    def __init__(self, ivs=(), fuzzy=False):
        self.ivs = self._norm(list(ivs))
        self.fuzzy = fuzzy

    @staticmethod
    def _norm(ivs):
        ivs = sorted((a, b) for a, b in ivs if a <= b)
        out = []
        for a, b in ivs:
            if out and a <= out[-1][1] + 1:
                out[-1] = (out[-1][0], max(out[-1][1], b))
            else:
                out.append((a, b))
        return out

    @staticmethod
    def of(chars):
        return CharSet([(ord(c), ord(c)) for c in chars])

    def union(self, o):
        return CharSet(self.ivs + o.ivs, self.fuzzy or o.fuzzy)

    def negate(self):
        out = []
        prev = 0
        for a, b in self.ivs:
            if a > prev:
                out.append((prev, a - 1))
            prev = b + 1
        if prev <= MAXCP:
            out.append((prev, MAXCP))
        return CharSet(out, False)

    def contains(self, ch):
        c = ord(ch) if isinstance(ch, str) else ch
        return any(a <= c <= b for a, b in self.ivs)

    def is_ascii(self):
        return not self.fuzzy and all(b < 128 for a, b in self.ivs)

    def is_all(self):
        return self.ivs == [(0, MAXCP)]

    def subset_of(self, o):
        return all(any(c <= a and b <= d for c, d in o.ivs) for a, b in self.ivs) and (not self.fuzzy or o.fuzzy)

    def __eq__(self, o):
        return self.ivs == o.ivs and self.fuzzy == o.fuzzy

    def __repr__(self):
        def f(c):
            return repr(chr(c))[1:-1] if 32 <= c < 127 else "\\u{%x}" % c
        return "[" + "".join(f(a) if a == b else "%s-%s" % (f(a), f(b)) for a, b in self.ivs) + ("+Nd" if self.fuzzy else "") + "]"


ESC = {"t": "\t", "r": "\r", "n": "\n", "f": "\f", "v": "\v", "0": "\0"}


class Unsupported(Exception):
    pass


def parse_regex(src):
    """-> node: ('seq', [nodes]) | ('alt', [nodes]) | ('set', CharSet) | ('rep', node, min, max|None)"""
    pos = [0]

    def peek():
        return src[pos[0]] if pos[0] < len(src) else None

    def take():
        c = src[pos[0]]
        pos[0] += 1
        return c

    def esc_set():
        c = take()
        if c == "d":
            return CharSet([(48, 57)], fuzzy=True)
        if c in ESC:
            return CharSet.of(ESC[c])
        if c in "sS":
            # regex-syntax's Unicode White_Space property (logos compiles &str patterns in Unicode mode)
            ws = CharSet([(9, 13), (32, 32), (0x85, 0x85), (0xA0, 0xA0), (0x1680, 0x1680), (0x2000, 0x200A),
                          (0x2028, 0x2029), (0x202F, 0x202F), (0x205F, 0x205F), (0x3000, 0x3000)])
            return ws if c == "s" else ws.negate()
        if c in "wWDbBpPxuU":
            raise Unsupported("escape \\%s" % c)
        return CharSet.of(c)

    def cls():
        neg = False
        if peek() == "^":
            take()
            neg = True
        cs = CharSet()
        first = True
        while True:
            c = peek()
            if c is None:
                raise Unsupported("unterminated class")
            if c == "]" and not first:
                take()
                break
            first = False
            take()
            if c == "\\":
                lo = esc_set()
                if len(lo.ivs) != 1 or lo.ivs[0][0] != lo.ivs[0][1] or lo.fuzzy:
                    cs = cs.union(lo)
                    continue
                lo_c = lo.ivs[0][0]
            else:
                lo_c = ord(c)
            if peek() == "-" and pos[0] + 1 < len(src) and src[pos[0] + 1] != "]":
                take()
                h = take()
                if h == "\\":
                    hs = esc_set()
                    hi_c = hs.ivs[0][0]
                else:
                    hi_c = ord(h)
                cs = cs.union(CharSet([(lo_c, hi_c)]))
            else:
                cs = cs.union(CharSet([(lo_c, lo_c)]))
        return cs.negate() if neg else cs

    def atom():
        c = take()
        if c == "[":
            return ("set", cls())
        if c == "(":
            if src[pos[0]:pos[0] + 2] == "?:":
                pos[0] += 2
            elif peek() == "?":
                raise Unsupported("group flags")
            n = alt()
            if take() != ")":
                raise Unsupported("unbalanced group")
            return n
        if c == "\\":
            return ("set", esc_set())
        if c == ".":
            return ("set", CharSet.of("\n").negate())
        if c in "^$":
            raise Unsupported("anchor")
        return ("set", CharSet.of(c))

    def rep():
        a = atom()
        while peek() in ("*", "+", "?", "{"):
            q = take()
            if q == "*":
                a = ("rep", a, 0, None)
            elif q == "+":
                a = ("rep", a, 1, None)
            elif q == "?":
                a = ("rep", a, 0, 1)
            else:
                # counted repetition {m}, {m,}, {m,n}: m copies, then the rest optional (or a star)
                num = ""
                while peek() is not None and peek() != "}":
                    num += take()
                if peek() != "}":
                    raise Unsupported("unterminated counted repetition")
                take()
                mm = re.fullmatch(r"(\d+)(,(\d*))?", num.strip())
                if not mm:
                    raise Unsupported("counted repetition {%s}" % num)
                lo = int(mm.group(1))
                hi = lo if mm.group(2) is None else (None if mm.group(3) == "" else int(mm.group(3)))
                if lo > 64 or (hi is not None and (hi > 64 or hi < lo)):
                    raise Unsupported("counted repetition {%s}" % num)
                items = [a] * lo
                if hi is None:
                    items.append(("rep", a, 0, None))
                else:
                    items.extend([("rep", a, 0, 1)] * (hi - lo))
                a = ("seq", items)
            if peek() == "?":
                raise Unsupported("lazy quantifier")
        return a

    def seq():
        items = []
        while peek() is not None and peek() not in ("|", ")"):
            items.append(rep())
        return ("seq", items)

    def alt():
        alts = [seq()]
        while peek() == "|":
            take()
            alts.append(seq())
        return alts[0] if len(alts) == 1 else ("alt", alts)

    n = alt()
    if pos[0] != len(src):
        raise Unsupported("trailing input")
    return n


def literal_node(s):
    return ("seq", [("set", CharSet.of(c)) for c in s])


def all_sets(n):
    if n[0] == "set":
        yield n[1]
    elif n[0] in ("seq", "alt"):
        for x in n[1]:
            yield from all_sets(x)
    elif n[0] == "rep":
        yield from all_sets(n[1])


def nullable(n):
    if n[0] == "set":
        return False
    if n[0] == "seq":
        return all(nullable(x) for x in n[1])
    if n[0] == "alt":
        return any(nullable(x) for x in n[1])
    return n[2] == 0 or nullable(n[1])


def first(n):
    if n[0] == "set":
        return n[1]
    if n[0] == "alt":
        cs = CharSet()
        for x in n[1]:
            cs = cs.union(first(x))
        return cs
    if n[0] == "rep":
        return first(n[1])
    cs = CharSet()
    for x in n[1]:
        cs = cs.union(first(x))
        if not nullable(x):
            break
    return cs


def single(n):
    """Characters c such that the one-character string c is in the language of n."""
    if n[0] == "set":
        return n[1]
    if n[0] == "alt":
        cs = CharSet()
        for x in n[1]:
            cs = cs.union(single(x))
        return cs
    if n[0] == "rep":
        if n[2] <= 1 or nullable(n[1]):
            return single(n[1])
        return CharSet()
    cs = CharSet()
    for i, x in enumerate(n[1]):
        if all(nullable(y) for j, y in enumerate(n[1]) if j != i):
            cs = cs.union(single(x))
    return cs


def mandatory_prefix(n):
    """List of CharSets for the leading positions every match must have."""
    if n[0] == "set":
        return [n[1]]
    if n[0] == "rep":
        return mandatory_prefix(n[1]) if n[2] >= 1 and n[1][0] == "set" and n[2] == 1 and n[3] == 1 else (mandatory_prefix(n[1])[:1] if n[2] >= 1 else [])
    if n[0] == "alt":
        ps = [mandatory_prefix(x) for x in n[1]]
        k = min(len(p) for p in ps)
        out = []
        for i in range(k):
            cs = CharSet()
            for p in ps:
                cs = cs.union(p[i])
            out.append(cs)
        return out
    out = []
    for x in n[1]:
        if x[0] == "set":
            out.append(x[1])
            continue
        p = mandatory_prefix(x)
        out.extend(p)
        break
    return out


def normalize(n):
    """Canonical structure for language comparison of the simple shapes used here:
    flatten seqs, merge alternations of single sets into one set."""
    if n[0] == "set":
        return ("set", tuple(n[1].ivs), n[1].fuzzy)
    if n[0] == "rep":
        return ("rep", normalize(n[1]), n[2], n[3])
    if n[0] == "alt":
        subs = [normalize(x) for x in n[1]]
        # alternation of one-set sequences == union set
        flat = []
        for s_ in subs:
            while s_[0] == "seq" and len(s_[1]) == 1:
                s_ = s_[1][0]
            flat.append(s_)
        if all(s_[0] == "set" for s_ in flat):
            cs = CharSet()
            fz = False
            for s_ in flat:
                cs = cs.union(CharSet(list(s_[1])))
                fz = fz or s_[2]
            return ("set", tuple(cs.ivs), fz)
        return ("alt", tuple(sorted(flat, key=repr)))
    items = []
    for x in n[1]:
        y = normalize(x)
        if y[0] == "seq":
            items.extend(y[1])
        else:
            items.append(y)
    # x x* == x+ (and x{m,} written out): merge a factor with an adjacent unbounded repetition of the same factor
    changed = True
    while changed:
        changed = False
        for i in range(len(items) - 1):
            a, b = items[i], items[i + 1]
            if b[0] == "rep" and b[3] is None and b[1] == a:
                items[i:i + 2] = [("rep", a, b[2] + 1, None)]
                changed = True
                break
            if a[0] == "rep" and a[3] is None and a[1] == b:
                items[i:i + 2] = [("rep", b, a[2] + 1, None)]
                changed = True
                break
    if len(items) == 1:
        return items[0]
    return ("seq", tuple(items))


class Spec:
    def __init__(self, enum_name, j):
        self.enum = enum_name
        self.tokens = {}      # variant -> dict(kind: token|regex|none, src, node, skip, callbacks)
        self.errors = []
        self.extras = [a for a in j.get("attrs", [])]
        for v in j["variants"]:
            ents = []
            for a in v["attrs"]:
                if a["attr"] not in ("token", "regex"):
                    continue
                args = a["args"]
                src = None
                cbs = []
                for x in args:
                    if x.get("m") == "str" and src is None:
                        src = x["v"]
                    elif x.get("m") == "path":
                        cbs.append(x["path"])
                        if "value" in x or "list" in x:
                            cbs.append("<%s>" % x["path"])
                    else:
                        cbs.append("<other>")
                try:
                    node = literal_node(src) if a["attr"] == "token" else parse_regex(src)
                except Unsupported as e:
                    node = None
                    self.errors.append("%s::%s: unsupported pattern %r (%s)" % (enum_name, v["name"], src, e))
                ents.append({"kind": a["attr"], "src": src, "node": node, "callbacks": cbs})
            self.tokens[v["name"]] = ents

    def patterns(self, kind):
        return self.tokens.get(kind, [])

    def has_pattern(self, kind):
        return bool(self.tokens.get(kind))

    def is_skipped(self, kind):
        ps = self.patterns(kind)
        return bool(ps) and all(p["callbacks"] == ["logos::skip"] for p in ps)

    def yielded_kinds(self):
        return [k for k, ps in self.tokens.items() if ps and not self.is_skipped(k)]

    def literal(self, kind):
        ps = self.patterns(kind)
        if len(ps) == 1 and ps[0]["kind"] == "token":
            return ps[0]["src"]
        return None

    def min_ascii_prefix(self, kind, n):
        ps = self.patterns(kind)
        if not ps:
            return False
        for p in ps:
            if p["node"] is None:
                return False
            pre = mandatory_prefix(p["node"])
            if len(pre) < n or not all(cs.is_ascii() for cs in pre[:n]):
                return False
        return True

    def uncovered(self):
        """Code points c for which no pattern matches the one-character string c (None if a pattern is
        unsupported).  If this is empty some pattern matches at every position of every input, so the
        lexer can never yield an error; covering only the *first*-character classes would not be enough."""
        cs = CharSet()
        for k, ps in self.tokens.items():
            for p in ps:
                if p["node"] is None:
                    return None
                cs = cs.union(single(p["node"]))
        return cs.negate()

    def total(self):
        u = self.uncovered()
        return u is not None and not u.ivs

    def kinds_containing(self, ch):
        out = []
        for k, ps in self.tokens.items():
            for p in ps:
                if p["node"] is None or any(cs.contains(ch) for cs in all_sets(p["node"])):
                    out.append(k)
                    break
        return out

    def same_language(self, kind, regex):
        ps = self.patterns(kind)
        if len(ps) != 1 or ps[0]["node"] is None:
            return False
        return normalize(ps[0]["node"]) == normalize(parse_regex(regex))


def load(facts, enum):
    j = facts.logos.get(enum)
    if j is None:
        return None
    return Spec(enum, j)
