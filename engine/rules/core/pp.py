"""Readable rendering of extracted MIR (development aid and report text)."""
from .facts import callee_name


def place(b, p):
    s = b.local_name(p["l"]) if b else "_%d" % p["l"]
    for e in p["p"]:
        if e == "*":
            s = "(*%s)" % s
        elif isinstance(e, dict):
            if "f" in e:
                s = "%s.%s" % (s, e["f"])
            elif "idx" in e:
                s = "%s[%s]" % (s, b.local_name(e["idx"]) if b else "_%d" % e["idx"])
            elif "cidx" in e:
                s = "%s[%s%d]" % (s, "-" if e["from_end"] else "", e["cidx"])
            elif "sub" in e:
                s = "%s[%d..%s%d]" % (s, e["sub"], "-" if e["from_end"] else "", e["to"])
            elif "dc" in e:
                s = "(%s as %s)" % (s, e["dc"])
        else:
            s = "%s.<%s>" % (s, e)
    return s


def operand(b, o):
    k = o.get("k")
    if k in ("copy", "move"):
        return ("move " if k == "move" else "") + place(b, o)
    if k == "const":
        if "fn" in o:
            return "fn:" + o["fn"]
        if "int" in o:
            return "%d_%s" % (o["int"], o["ty"])
        if "str" in o:
            return repr(o["str"])
        return "const %s" % o["v"]
    return str(o.get("v"))


def rvalue(b, r):
    k = r["r"]
    if k == "use":
        return operand(b, r["a"])
    if k == "ref":
        return "&%s%s" % ("mut " if r["bk"] == "mut" else "", place(b, r["a"]))
    if k == "rawptr":
        return "&raw %s" % place(b, r["a"])
    if k == "cast":
        return "%s as %s (%s)" % (operand(b, r["a"]), r["to"], r["ck"])
    if k == "bin":
        return "%s(%s, %s)" % (r["op"], operand(b, r["a"]), operand(b, r["b"]))
    if k == "un":
        return "%s(%s)" % (r["op"], operand(b, r["a"]))
    if k == "discr":
        return "discriminant(%s)" % place(b, r["a"])
    if k == "agg":
        ops = ", ".join(operand(b, x) for x in r["ops"])
        if r["ak"] == "adt":
            nm = r["adt"] + ("::" + r["variant"] if r["is_enum"] else "")
            if r["fields"] and not r["fields"][0].isdigit():
                ops = ", ".join("%s: %s" % (f, operand(b, x)) for f, x in zip(r["fields"], r["ops"]))
                return "%s { %s }" % (nm, ops)
            return "%s(%s)" % (nm, ops)
        if r["ak"] == "closure":
            return "closure %s [%s]" % (r["closure"], ops)
        if r["ak"] == "array":
            return "[%s]" % ops
        return "(%s)" % ops
    if k == "copy_for_deref":
        return "deref_copy %s" % place(b, r["a"])
    if k == "repeat":
        return "[%s; %s]" % (operand(b, r["a"]), r["n"])
    return str(r.get("v", k))


def terminator(b, t):
    k = t["t"]
    if k == "goto":
        return "goto bb%d" % t["target"]
    if k == "switch":
        ts = ", ".join("%d: bb%d" % (v, bb) for v, bb in t["targets"])
        return "switchInt(%s) [%s, otherwise: bb%d]" % (operand(b, t["discr"]), ts, t["otherwise"])
    if k == "call":
        nm, f = callee_name(t)
        if nm == "<indirect>":
            nm = "(%s)" % operand(b, t["func"])
        args = ", ".join(operand(b, a) for a in t["args"])
        tgt = "bb%d" % t["target"] if t["target"] is not None else "!"
        return "%s = %s(%s) -> %s" % (place(b, t["dest"]), nm, args, tgt)
    if k == "assert":
        m = t["msg"]
        return "assert(%s%s, %s) -> bb%d" % ("" if t["expected"] else "!", operand(b, t["cond"]), m["ak"] + (":" + m["op"] if "op" in m else ""), t["target"])
    if k == "drop":
        return "drop(%s) -> bb%d" % (place(b, t["place"]), t["target"])
    return k


def body(b, cleanup=False):
    out = ["fn %s  [%s:%d]  args=%d" % (b.name, b.file, b.line, b.arg_count)]
    for i, l in enumerate(b.locals):
        out.append("    let %s: %s" % (b.local_name(i) + ("(_%d)" % i if b.local_name(i) != "_%d" % i else ""), l["ty"]))
    rb = b.reachable_blocks()
    for i, blk in enumerate(b.blocks):
        if blk["cleanup"] and not cleanup:
            continue
        if i not in rb and not cleanup:
            continue
        out.append("  bb%d:%s" % (i, " (cleanup)" if blk["cleanup"] else ""))
        for st in blk["stmts"]:
            if st["s"] == "assign":
                out.append("    %s = %s    // L%d" % (place(b, st["lhs"]), rvalue(b, st["rv"]), st["span"]["line"]))
            else:
                out.append("    %s" % st)
        out.append("    %s    // L%d" % (terminator(b, blk["term"]), blk["term"]["span"]["line"]))
    return "\n".join(out)
