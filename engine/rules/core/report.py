"""Obligation bookkeeping, known findings, evidence files, verdict lines."""
import json
import os
import sys
import time

VERIF = os.path.dirname(os.path.dirname(os.path.dirname(os.path.dirname(os.path.abspath(__file__)))))
KNOWN = os.path.join(VERIF, "known_findings.json")
EVID = os.environ.get("VERIF_EVIDENCE_DIR") or os.path.join(VERIF, "evidence")


def site_of(body, bb=None, span=None):
    if span is None and body is not None and bb is not None:
        span = body.term(bb)["span"]
    if span is None and body is not None:
        span = body.span
    if span is None:
        return "?"
    return "%s:%d" % (span["file"], span["line"])


class Check:
    def __init__(self, prop, tier="quick", seed=0):
        self.prop = prop
        self.tier = tier
        self.seed = seed
        self.t0 = time.time()
        self.obligations = []   # dicts: rule, id, ok, detail, site
        self.violations = []    # dicts: key, msg, site, rule
        self.samples = []
        self.analysed = {}
        self.assumptions = []
        self.trusted = []
        self.explanation = ""
        self.not_decided = []
        self.extra = {}
        self._keys_seen = {}

    # -- obligations ---------------------------------------------------------
    def ok(self, rule, oid, detail="", site="", nontrivial=True):
        self.obligations.append({"rule": rule, "id": oid, "ok": True, "detail": detail, "site": site, "nontrivial": nontrivial})

    def fail(self, rule, key, msg, site="", detail=""):
        """Record a violated obligation.  `key` must be stable (no line numbers)."""
        n = self._keys_seen.get(key, 0)
        self._keys_seen[key] = n + 1
        if n:
            key = "%s#%d" % (key, n + 1)
        self.obligations.append({"rule": rule, "id": key, "ok": False, "detail": msg, "site": site, "nontrivial": True})
        self.violations.append({"key": key, "msg": msg, "site": site, "rule": rule, "detail": detail})

    def require(self, cond, rule, key, ok_detail, fail_msg, site=""):
        if cond:
            self.ok(rule, key, ok_detail, site)
        else:
            self.fail(rule, key, fail_msg, site)
        return cond

    def floor(self, rule, what, count, minimum):
        """Fail closed when a rule matched fewer instances than were confirmed by hand."""
        if count < minimum:
            self.fail("FLOOR", "floor:%s:%s" % (rule, what),
                      "rule %s matched %d instance(s) of %s, below the hand-confirmed floor %d: the structure the property rests on is no longer recognised" % (rule, count, what, minimum))
        else:
            self.ok("FLOOR", "floor:%s:%s" % (rule, what), "%d >= %d" % (count, minimum), nontrivial=False)

    def anchor(self, role, found, site=""):
        if not found:
            self.fail("ANCHOR", "anchor:%s" % role, "anchor for role '%s' not found or not unique" % role)
            return False
        self.ok("ANCHOR", "anchor:%s" % role, str(found), site, nontrivial=False)
        return True

    def only(self, substrings, _also=None):
        """A view of this check that keeps just the obligations whose key contains one of `substrings`
        (for a property that rests on part of another property's rule set); anchors that fail are kept,
        floors and everything else of the borrowed module (explanation, samples, extra) is dropped."""
        outer = self

        class _View:
            def __init__(self):
                self.explanation = ""
                self.trusted = []
                self.assumptions = []
                self.not_decided = []
                self.extra = {}
                self.analysed = {}
                self.samples = []
                self.prop, self.tier, self.seed = outer.prop, outer.tier, outer.seed

            def _keep(self, key):
                return any(x in key for x in substrings) and (_also is None or _also(key))

            def ok(self, rule, oid, detail="", site="", nontrivial=True):
                if self._keep(oid):
                    outer.ok(rule, oid, detail, site, nontrivial)

            def fail(self, rule, key, msg, site="", detail=""):
                if self._keep(key) or rule == "ANCHOR":
                    outer.fail(rule, key, msg, site, detail)

            def require(self, cond, rule, key, ok_detail, fail_msg, site=""):
                if self._keep(key):
                    return outer.require(cond, rule, key, ok_detail, fail_msg, site)
                return cond

            def floor(self, rule, what, count, minimum):
                return None

            def anchor(self, role, found, site=""):
                if not found:
                    outer.fail("ANCHOR", "anchor:%s" % role, "anchor for role '%s' not found or not unique" % role)
                    return False
                return True

            def sample(self, s_):
                return None

            def only(self, subs):
                # a borrowed module that borrows in turn: both filters apply
                return outer.only(subs, _also=self._keep)
        return _View()

    def sample(self, s):
        if len(self.samples) < 40:
            self.samples.append(s)

    # -- finish -----------------------------------------------------------------
    def finish(self, facts=None):
        known = {}
        fixed = {}
        if os.path.exists(KNOWN):
            with open(KNOWN) as fh:
                kf = json.load(fh)
            for f in kf.get("findings", []):
                if f.get("property") != self.prop:
                    continue
                if f.get("status") == "known":
                    known[f["key"]] = f
                elif f.get("status") == "fixed":
                    fixed[f["key"]] = f
        new, listed = [], []
        def base(k):
            # the release-configuration re-run of the thorough tier reports the same construct under a `rel:` prefix
            return k[4:] if k.startswith("rel:") else k
        for v in self.violations:
            if base(v["key"]) in known:
                listed.append(v)
            else:
                new.append(v)
        printed = set()
        for v in listed:
            if base(v["key"]) in printed:
                continue
            printed.add(base(v["key"]))
            print("KNOWN-FINDING: property=%s %s [%s] at %s" % (self.prop, known[base(v["key"])].get("what", v["msg"]), base(v["key"]), v["site"]))
        os.makedirs(EVID, exist_ok=True)
        replay = os.path.join(EVID, "%s.violations.json" % self.prop)
        if new:
            with open(replay, "w") as fh:
                json.dump({"property": self.prop, "violations": new}, fh, indent=1)
            for v in new:
                print("  violation [%s] %s: %s  (%s)" % (v["rule"], v["key"], v["msg"], v["site"]))
            print("VIOLATION property=%s replay=%s" % (self.prop, replay))
        elif os.path.exists(replay):
            os.remove(replay)
        n_ob = len(self.obligations)
        n_ok = sum(1 for o in self.obligations if o["ok"])
        nontriv = len(set(o["id"] for o in self.obligations if o.get("nontrivial")))
        cov = {
            "explanation": self.explanation,
            "obligations": n_ob,
            "discharged": n_ok,
            "evaluations": n_ob,
            "distinct_nontrivial": nontriv,
            "rule": "each evaluation is one rule instance (rule template applied to a concrete construct of the extracted MIR/AST of /repo's working tree); non-trivial = instance bound to a concrete site (anchor/floor bookkeeping instances are not counted); distinct by instance id",
            "samples": self.samples[:40] or [o for o in self.obligations[:10]],
            "checker_cmd": "./check %s --tier %s" % (self.prop, self.tier),
            "trusted_base": self.trusted,
            "analysed": self.analysed,
            "not_decided": self.not_decided,
            "known_findings_reported": [v["key"] for v in listed],
            "new_violations": [v["key"] for v in new],
            "obligation_list": [{"rule": o["rule"], "id": o["id"], "ok": o["ok"], "site": o["site"], "detail": o["detail"][:300]} for o in self.obligations][:400],
        }
        cov.update({k: v for k, v in self.extra.items() if not k.startswith("_")})
        if facts is not None:
            cov["build_config"] = facts.config
            cov["extraction"] = facts.meta
        ev = {
            "property_id": self.prop,
            "tier": self.tier,
            "seed": self.seed,
            "level": "other",
            "coverage": cov,
            "assumptions": self.assumptions,
            "wall_s": round(time.time() - self.t0, 3),
            "violations": len(new),
        }
        with open(os.path.join(EVID, "%s.json" % self.prop), "w") as fh:
            json.dump(ev, fh, indent=1, default=str)
        print("%s: %d rule instances, %d discharged, %d known finding(s), %d new violation(s) [%s tier, %.1fs]" % (
            self.prop, n_ob, n_ok, len(listed), len(new), self.tier, time.time() - self.t0))
        return 1 if new else 0
