"""ORD / CNT helpers on acyclic path enumerations."""
from . import tab, terms
from .facts import callee_name
from .prog import canon


def agg_blocks(P, b, adt_variant):
    """Blocks of body b that build `adt_variant`."""
    return sorted(set(bb for (cb, bb, i, st) in P.constructors(adt_variant) if cb is b))


def paths_to(P, b, target_bb, limit=20000):
    """Acyclic paths entry -> target_bb."""
    for pi in tab.paths(P, b, stop=lambda x: x == target_bb, limit=limit):
        if pi.path and pi.path[-1] == target_bb and pi.back is None:
            yield pi


def call_sequence(pi, names=None):
    """[(bb, callee)] along the path (optionally restricted to callee names)."""
    out = []
    for bb, nm, args in pi.calls():
        if names is None or nm in names:
            out.append((bb, nm))
    return out


def propagated(pi, b, call_bb):
    """Was the Result of the call in `call_bb` taken through the Continue/Ok edge on this path
    (i.e. its Err leaves the path)?"""
    t = b.term(call_bb)
    dest = t["dest"]["l"]
    for d in pi.decisions():
        if d[0] != "variant":
            continue
        # subject is Try::branch(<that call>) or the call itself
        subj = terms.strip(d[3])
        inner = subj
        if subj[0] == "call" and subj[1].endswith("::ops::Try>::branch"):
            inner = terms.strip(subj[2][0])
        if inner[0] == "call" and inner[3] == call_bb:
            return d[2] in (("Continue",), ("Ok",))
    return False


def is_subsequence(want, got):
    i = 0
    for g in got:
        if i < len(want) and g == want[i]:
            i += 1
    return i == len(want)


def count_calls_on_paths(P, b, names, to_return_only=True, classify=None):
    """For every entry->return path: number of calls to `names`, grouped by
    classify(pi) (default: shape of the returned value).  -> {class: set(counts)}"""
    out = {}
    n = 0
    for pi in tab.paths(P, b, to_return_only=to_return_only):
        n += 1
        c = sum(1 for bb, nm, a in pi.calls() if nm in names)
        k = classify(pi) if classify else ret_shape(pi)
        out.setdefault(k, set()).add(c)
    return out, n


def ret_shape(pi):
    """'Ok' | 'Err' | 'Some(Ok)' | 'Some(Err)' | 'None' | canon prefix"""
    r = terms.strip(pi.ret())
    return shape_of(r)


def shape_of(r):
    r = terms.strip(r)
    if r[0] == "agg" and r[1] == "adt":
        v = r[2].split("::")[-1]
        if v in ("Some",) and r[3]:
            return "Some(%s)" % shape_of(r[3][0][1])
        if v in ("Ok", "Err", "None"):
            return v
        return v
    if r[0] == "call" and "from_residual" in r[1]:
        return "Err"
    if r[0] == "call" and isinstance(r[1], str) and r[1] in ("std::result::Result::map", "std::result::Result::map_err") and r[2]:
        # `r.map(f)` / `r.map_err(f)` keep the variant of `r`: Ok stays Ok, Err stays Err
        inner = shape_of(r[2][0])
        return inner if inner in ("Ok", "Err") else "Ok|Err"
    if r[0] == "phi":
        return "|".join(sorted(set(shape_of(x) for x in r[1])))
    return "?"
