"""PAN: panic inventory.  Lists every panic-capable construct in the call-graph
closure of a set of entry points; the per-property modules discharge them."""
import re
from .facts import callee_name
from .cfg import Cfg
from . import terms

# ---- classification of external callees ----------------------------------
# may-panic API table: name pattern -> (short, when it panics)
PANICS = [
    (r"^core::panicking::", "panic", "always"),
    (r"^std::rt::(begin_panic|panic_fmt)", "panic", "always"),
    (r"^core::option::(expect_failed|unwrap_failed)", "panic", "always"),
    (r"^core::result::unwrap_failed", "panic", "always"),
    (r"^std::option::Option::(unwrap|expect|unwrap_unchecked)$", "Option::unwrap/expect", "None"),
    (r"^std::result::Result::(unwrap|expect|unwrap_err|expect_err|unwrap_unchecked|into_ok)$", "Result::unwrap/expect", "Err/Ok"),
    (r"as std::ops::Index(<.*>)?>::index$", "Index::index", "index out of range / missing key"),
    (r"as std::ops::IndexMut(<.*>)?>::index_mut$", "IndexMut::index_mut", "index out of range"),
    (r"std::ops::Index<.*> for str>::index$", "str::index", "range out of bounds or not on a char boundary"),
    (r"std::ops::IndexMut<.*> for str>::index_mut$", "str::index", "range out of bounds or not on a char boundary"),
    (r"^std::cell::RefCell::(borrow|borrow_mut)$", "RefCell::borrow", "already borrowed"),
    (r"^rand::Rng::(gen_range|gen_ratio|gen_bool)$", "Rng::gen_range", "empty range"),
    (r"^rand::.*::(new|new_inclusive|sample_single|sample_single_inclusive)$", "rand::Uniform", "empty range"),
    (r"::from_str_radix$", "from_str_radix", "radix outside 2..=36"),
    (r"^std::iter::Iterator::(sum|product)$", "Iterator::sum", "arithmetic overflow (debug)"),
    (r"^std::iter::Iterator::step_by$", "Iterator::step_by", "step == 0"),
    (r"^std::slice::<impl \[T\]>::(sort_by|sort_unstable_by|sort_by_key|sort_unstable_by_key|sort_by_cached_key|sort|sort_unstable)$", "slice::sort", "comparator is not a total order"),
    (r"^std::vec::Vec::(remove|insert|swap_remove|split_off|drain|splice|extend_from_within)$", "Vec::remove/insert/drain", "index/range out of bounds"),
    (r"^std::vec::Vec::(with_capacity|reserve|reserve_exact)$", "Vec::with_capacity", "capacity overflow"),
    (r"^std::collections::VecDeque::(remove|insert|swap|range|drain|split_off|swap_remove_back|swap_remove_front|rotate_left|rotate_right)", "VecDeque", "index out of bounds"),
    (r"^core::slice::<impl \[T\]>::(split_at|split_at_mut|copy_from_slice|clone_from_slice|swap|chunks|chunks_exact|chunks_mut|windows|rchunks|copy_within|rotate_left|rotate_right|swap_with_slice|select_nth_unstable|split_first_chunk|as_chunks)", "slice op", "index/length precondition"),
    (r"^core::str::<impl str>::(split_at|split_at_mut)$", "str::split_at", "not on a char boundary"),
    (r"^std::str::<impl str>::repeat$", "str::repeat", "capacity overflow"),
    (r"^std::vec::from_elem$", "vec![x; n]", "capacity overflow"),
    (r"^std::string::String::(insert|insert_str|remove|truncate|split_off|drain|replace_range)$", "String op", "index not on a char boundary / out of range"),
    (r"^core::num::<impl [iu](8|16|32|64|128|size)>::(pow|abs|div_euclid|rem_euclid|isqrt|ilog|ilog2|ilog10|next_power_of_two|strict_|unchecked_|abs_diff|midpoint|next_multiple_of|div_ceil|div_floor)", "integer op", "overflow / zero"),
    (r"^core::num::<impl [iu](8|16|32|64|128|size)>::(wrapping|overflowing|saturating)_(div|rem|div_euclid|rem_euclid)$", "integer division", "zero divisor (the wrapping/overflowing/saturating forms only tame MIN / -1)"),
    (r"^core::char::(from_digit|methods::<impl char>::(from_digit|to_digit))$", "char digit", "radix > 36"),
    (r"^std::process::(exit|abort)$", "process exit", "always"),
    (r"^std::thread::", "thread", "may panic"),
    (r"^std::sync::.*::(lock|read|write)$", "lock", "poison is unwrap'd separately"),
    (r"^std::time::(Instant|SystemTime|Duration)", "time arithmetic", "overflow"),
    (r"^std::alloc::", "alloc", "abort"),
    (r"^std::boxed::box_assume_init_into_vec_unsafe$", None, None),  # vec! literal plumbing -> safe, see SAFE
]

# non-panicking by documented contract (pattern list; anything external that is
# in neither table is reported as "unclassified external callee").
SAFE = [
    r"^<.* as std::ops::Try>::branch$", r"as std::ops::FromResidual<.*>>::from_residual$",
    r"as std::ops::Deref>::deref$", r"as std::ops::DerefMut>::deref_mut$", r"as std::ops::Drop>::drop$",
    r"as std::iter::IntoIterator>::into_iter$", r"^core::slice::iter::<impl std::iter::IntoIterator for &(mut )?\[T\]>::into_iter$",
    r"^<I as std::iter::IntoIterator>::into_iter$",
    r"as std::iter::Iterator>::(next|any|all|find|find_map|position|rposition|count|map|filter|fold|for_each|last|nth|size_hint|collect|rev|zip|enumerate|chain|take|skip|cloned|copied|peekable|min|max|min_by_key|max_by_key|min_by|max_by|flat_map|flatten|filter_map|take_while|skip_while|by_ref|try_fold|partition|unzip|cmp|eq|next_back|rfind)$",
    r"as std::iter::DoubleEndedIterator>::(next_back|rfind|rfold|nth_back)$",
    r"^std::iter::Iterator::(next|any|all|find|find_map|position|rposition|count|map|filter|fold|for_each|last|nth|size_hint|collect|rev|zip|enumerate|chain|take|skip|cloned|copied|peekable|min|max|min_by_key|max_by_key|min_by|max_by|flat_map|flatten|filter_map|take_while|skip_while|by_ref|try_fold|partition|unzip|cmp|eq|inspect|fuse|cycle|scan|map_while|try_for_each|reduce|is_sorted)$",
    r"^std::iter::(Peekable|Enumerate|Rev|Zip|Map|Filter)::", r"^std::iter::(once|empty|repeat|zip|from_fn|successors)$",
    r"as std::iter::Extend<.*>>::extend$", r"as std::iter::FromIterator<.*>>::from_iter$", r"^std::iter::DoubleEndedIterator::",
    r"^std::iter::ExactSizeIterator::len$",
    r"as std::clone::Clone>::(clone|clone_from)$", r"^std::clone::Clone::(clone|clone_from)$",
    r"as std::cmp::(PartialEq|Eq|PartialOrd|Ord)(<.*>)?>::(eq|ne|cmp|partial_cmp|lt|le|gt|ge|max|min)$", r"^std::cmp::(PartialEq|PartialOrd|Ord)::(eq|ne|cmp|partial_cmp|lt|le|gt|ge|max|min)$",
    r"^std::cmp::impls::<impl std::cmp::(PartialEq|Ord|PartialOrd)(<.*>)? for .*>::(eq|ne|cmp|partial_cmp|lt|le|gt|ge)$",
    r"^core::str::traits::<impl std::cmp::(PartialEq|Ord|PartialOrd) for str>::",
    r"^core::(tuple|array|slice)::.*<impl std::cmp::(PartialEq|Eq|PartialOrd|Ord)(<.*>)? for .*>::(eq|ne|cmp|partial_cmp|lt|le|gt|ge)$",
    r"^std::cmp::(min|max|Ordering::.*)$",
    r"as std::convert::(From|Into|AsRef|AsMut)(<.*>)?>::(from|into|as_ref|as_mut)$", r"^std::convert::(Into::into|From::from|AsRef::as_ref|AsMut::as_mut|identity)$", r"^<T as std::convert::Into<U>>::into$",
    r"^std::convert::num::<impl std::convert::From<(bool|char|[iu](8|16|32|64|128|size))> for [iuf](8|16|32|64|128|size)>::from$",   # lossless primitive widenings
    r"^<T as std::borrow::ToOwned>::to_owned$", r"^std::borrow::(Borrow::borrow|BorrowMut::borrow_mut|ToOwned::to_owned)$", r"as std::borrow::(Borrow|BorrowMut)(<.*>)?>::",
    r"^<T as std::string::ToString>::to_string$", r"^std::string::ToString::to_string$",
    r"^std::(str|slice)::<impl std::borrow::ToOwned for (str|\[T\])>::to_owned$",
    r"^(std|core)::bool::<impl bool>::(then|then_some)$",
    r"as std::convert::(TryFrom|TryInto)(<.*>)?>::(try_from|try_into)$", r"^std::convert::num::<impl std::convert::TryFrom<.*> for [iu](8|16|32|64|128|size)>::try_from$",   # return a Result
    r"as std::default::Default>::default$", r"^std::default::Default::default$", r"^std::array::<impl std::default::Default for .*>::default$",
    r"as std::ops::(BitAnd|BitOr|BitXor|Not)(<.*>)?>::(bitand|bitor|bitxor|not)$",
    r"^<std::string::String as std::ops::Add<&str>>::add$",
    r"as std::hash::Hash>::hash$",
    r"as std::fmt::(Display|Debug|Binary|LowerHex|UpperHex|Octal|Write)>::(fmt|write_str|write_fmt|write_char)$", r"^std::fmt::", r"^core::fmt::", r"^std::hint::must_use$",
    r"^std::option::Option::(is_some|is_none|is_some_and|is_none_or|map|map_or|map_or_else|and_then|and|or|or_else|unwrap_or|unwrap_or_else|unwrap_or_default|ok_or|ok_or_else|cloned|copied|as_ref|as_mut|as_deref|as_deref_mut|take|replace|filter|iter|iter_mut|zip|xor|get_or_insert|get_or_insert_with|insert|flatten|inspect|then|then_some)$",
    r"^std::result::Result::(is_ok|is_err|is_ok_and|is_err_and|map|map_err|map_or|map_or_else|and_then|and|or|or_else|unwrap_or|unwrap_or_else|unwrap_or_default|ok|err|as_ref|as_mut|as_deref|iter|cloned|copied|inspect|inspect_err|flatten)$",
    r"^std::vec::Vec::(new|push|pop|len|is_empty|truncate|clear|extend_from_slice|as_slice|as_mut_slice|capacity|retain|retain_mut|dedup|dedup_by_key|dedup_by|append|into_boxed_slice|shrink_to_fit|leak|resize|resize_with)$",
    r"^core::slice::<impl \[T\]>::(iter|iter_mut|len|is_empty|first|last|first_mut|last_mut|get|get_mut|contains|starts_with|ends_with|to_vec|binary_search|binary_search_by|binary_search_by_key|split_first|split_last|reverse|fill|concat|is_sorted|iter_mut)$",
    r"^std::slice::<impl \[T\]>::(to_vec|join|concat|into_vec)$",
    r"^std::boxed::Box::(new|leak|into_raw|new_uninit|pin)$", r"^std::boxed::box_assume_init_into_vec_unsafe$", r"^std::boxed::box_new_uninit$",
    r"^std::mem::(replace|swap|take|drop|size_of|forget)$",
    r"^std::cell::RefCell::(new|into_inner|get_mut|try_borrow|try_borrow_mut)$", r"^std::cell::Cell::(new|get|set|replace|take)$",
    r"^std::collections::(HashMap|HashSet|BTreeMap|BTreeSet)::(new|with_capacity|insert|get|get_mut|contains|contains_key|entry|remove|len|is_empty|iter|iter_mut|keys|values|values_mut|into_keys|into_values|is_subset|is_superset|is_disjoint|difference|union|intersection|symmetric_difference|clear|extend|retain|get_key_value|first_key_value|last_key_value|range|drain|take|replace)$",
    r"^std::collections::hash_map::(Entry|OccupiedEntry|VacantEntry)::(or_insert|or_insert_with|or_default|and_modify|key|get|get_mut|insert|into_mut|remove)$",
    r"^std::collections::btree_map::(Entry|OccupiedEntry|VacantEntry)::(or_insert|or_insert_with|or_default|and_modify|key|get|get_mut|insert|into_mut|remove)$",
    r"^std::string::String::(new|from|push|push_str|len|is_empty|as_str|clear|with_capacity|into_bytes|as_bytes|from_utf8_lossy|from_utf8|pop|chars|into_boxed_str|as_mut_str)$",
    r"^core::str::<impl str>::(len|is_empty|lines|parse|strip_suffix|strip_prefix|starts_with|ends_with|contains|find|rfind|chars|char_indices|bytes|as_bytes|trim|trim_start|trim_end|trim_matches|trim_start_matches|trim_end_matches|split|rsplit|splitn|split_whitespace|split_once|rsplit_once|get|is_char_boundary|to_lowercase|to_uppercase|eq_ignore_ascii_case|split_terminator|split_ascii_whitespace|as_ptr)$",
    r"^std::str::<impl str>::(to_string|to_owned|to_lowercase|to_uppercase|replace|replacen|into_string|to_ascii_lowercase|to_ascii_uppercase)$",
    r"^core::num::<impl [iu](8|16|32|64|128|size)>::(from_le_bytes|from_be_bytes|from_ne_bytes|to_le_bytes|to_be_bytes|wrapping_\w+|overflowing_\w+|checked_\w+|saturating_\w+|count_ones|count_zeros|leading_zeros|trailing_zeros|leading_ones|trailing_ones|rotate_left|rotate_right|swap_bytes|signum|is_positive|is_negative|unsigned_abs|min|max|cast_signed|cast_unsigned|is_power_of_two|reverse_bits|to_le|to_be|from_le|from_be)$",
    r"^std::path::Path::", r"^std::fs::read_to_string$", r"^std::ffi::",
    r"^logos::(Lexer|SpannedIter|Logos)::", r"^<logos::.* as std::iter::Iterator>::next$", r"^<logos::.* as std::ops::Deref(Mut)?>::deref(_mut)?$",
    r"^roxmltree::", r"^miette::NamedSource::new$", r"^rand::SeedableRng::seed_from_u64$", r"^getrandom::getrandom$",
    r"^std::ops::Fn(Mut|Once)?::call(_mut|_once)?$",
    r"^std::ops::(Range|RangeInclusive|RangeFrom|RangeTo)::(contains|is_empty|start|end|new)$", r"as std::ops::RangeBounds<.*>>::",
    r"^std::ptr::", r"^std::intrinsics::", r"^core::intrinsics::", r"^std::hint::",
    r"^std::any::", r"^std::marker::",
    r"^std::error::Error::",
]

_PAN_RE = [(re.compile(p), s, w) for p, s, w in PANICS]
_SAFE_RE = [re.compile(p) for p in SAFE]


def classify_external(name):
    """-> ('panics', short, when) | ('safe',) | ('unknown',)"""
    for r, s, w in _PAN_RE:
        if r.search(name):
            if s is None:
                return ("safe",)
            return ("panics", s, w)
    for r in _SAFE_RE:
        if r.search(name):
            return ("safe",)
    return ("unknown",)


UB_ASSERTS = ("UB:Misaligned", "UB:Null", "UB:InvalidEnum")


class Site:
    def __init__(self, body, bb, kind, construct, span, term, extra=None):
        self.body = body
        self.bb = bb
        self.kind = kind            # assert | macro | call | unknown-ext | indirect
        self.construct = construct  # e.g. Overflow(Add), unreachable!, Option::expect
        self.span = span
        self.term = term
        self.extra = extra or {}
        self.key = None
        self.discharged = None      # reason string

    @property
    def site(self):
        return "%s:%d" % (self.span["file"], self.span["line"])

    def __repr__(self):
        return "<Site %s %s %s>" % (self.body.name, self.construct, self.site)


def arm_context(body, bb, cfg=None):
    """Describe the enum-variant match arms that dominate `bb` (innermost first)."""
    cfg = cfg or Cfg(body)
    sl = terms.Slicer(body)
    out = []
    for (p, vals, other, listed) in cfg.conditions_at(bb):
        t = body.term(p)
        d = sl.operand(t["discr"], p, len(body.blocks[p]["stmts"]))
        d0 = d
        if d[0] == "discr":
            # find variants table from the defining statement
            variants = _variants_of_discr(body, t["discr"], p)
            if variants is not None:
                names = [v["name"] for v in variants if v["discr"] in vals]
                if other:
                    names += [v["name"] for v in variants if v["discr"] not in listed]
                out.append({"switch": p, "enum": d[2], "variants": names, "otherwise": bool(other), "on": d[1]})
                continue
        out.append({"switch": p, "cond": d0, "values": sorted(vals), "otherwise": other, "listed": sorted(listed)})
    return out


def _variants_of_discr(body, discr_op, bb):
    """The switch operand is `move _n` with `_n = discriminant(place)` in the same block (MIR building idiom)."""
    if discr_op.get("k") not in ("copy", "move") or discr_op["p"]:
        return None
    l = discr_op["l"]
    for d in body.defs().get(l, []):
        if d[2] == "assign" and d[3]["rv"]["r"] == "discr":
            return d[3]["rv"].get("variants")
    return None


def inventory(facts, cg, roots, skip_derived=True):
    """All panic-capable sites in the closure of `roots`.
    Returns (sites, analysed_body_names, external_callee_names)."""
    names = cg.closure(roots)
    sites = []
    ext_seen = {}
    analysed = []
    for n in sorted(names):
        b = facts.bodies.get(n)
        if b is None:
            continue
        if b.derived and skip_derived:
            continue
        if b.kind.startswith("Const") or b.kind.startswith("Static") or b.kind in ("AnonConst", "InlineConst"):
            # initialisers of consts and statics are evaluated by the compiler: a panic there is a build
            # error, not a run-time panic (the *uses* of the value are ordinary sites of the using function)
            continue
        analysed.append(n)
        for bb in sorted(b.reachable_blocks()):
            t = b.term(bb)
            if t["t"] == "assert":
                ak = t["msg"]["ak"]
                if ak in UB_ASSERTS:
                    continue
                c = ak + ("(%s)" % t["msg"]["op"] if "op" in t["msg"] else "")
                sites.append(Site(b, bb, "assert", c, t["span"], t))
            elif t["t"] == "call":
                nm, f = callee_name(t)
                if nm == "<indirect>":
                    continue
                if nm in facts.bodies:
                    continue
                ext_seen[nm] = ext_seen.get(nm, 0) + 1
                cl = classify_external(nm)
                if cl[0] == "panics":
                    if cl[1] == "panic":
                        macros = t["span"].get("macros") or []
                        m = [x for x in macros if x in ("unreachable!", "todo!", "panic!", "unimplemented!", "assert!", "assert_eq!", "assert_ne!", "debug_assert!", "debug_assert_eq!")]
                        mac = m[-1] if m else (macros[-1] if macros else nm.split("::")[-1])
                        sites.append(Site(b, bb, "macro", mac, t["span"], t))
                    else:
                        sites.append(Site(b, bb, "call", cl[1], t["span"], t, {"callee": nm, "when": cl[2]}))
                elif cl[0] == "unknown":
                    sites.append(Site(b, bb, "unknown-ext", nm, t["span"], t, {"callee": nm}))
    # stable keys: function + construct + ordinal in source order
    groups = {}
    for s in sites:
        groups.setdefault((s.body.name, s.construct), []).append(s)
    for (fn, c), ss in groups.items():
        ss.sort(key=lambda s: (s.span["line"], s.span["col"], s.bb))
        for i, s in enumerate(ss):
            s.key = "PAN:%s:%s" % (fn, c) + ("#%d" % (i + 1) if len(ss) > 1 else "")
    sites.sort(key=lambda s: (s.body.file, s.span["line"], s.span["col"]))
    return sites, analysed, ext_seen
