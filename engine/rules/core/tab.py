"""TAB: table extraction by acyclic path enumeration with path-sensitive terms."""
from . import terms
from .terms import PathSlicer
from .prog import canon
from . import pan


def emptiness_facts(facts):
    """`x.len() == 0` / `!= 0` / `> 0` / `0 < x.len()` are the same tests as `x.is_empty()`."""
    import re as _re
    out = []
    for f in facts:
        if f[0] in ("Eq", "Ne", "Gt", "Le", "Lt", "Ge") and f[2] == "0":
            m = _re.fullmatch(r"(Vec|\[T\]|String|str|HashMap|HashSet)::len\((.*)\)", f[1])
            if m:
                empty = {"Eq": True, "Le": True, "Ne": False, "Gt": False}.get(f[0])
                if empty is not None:
                    kind = "Vec" if m.group(1) in ("Vec", "[T]") else m.group(1)
                    out.append(("call", "%s::is_empty" % kind, (m.group(2),), empty))
    return out


class PathInfo:
    def __init__(self, P, b, path):
        self.P = P
        self.b = b
        self.path = [p for p in path if not isinstance(p, tuple)]
        self.back = path[-1][1] if path and isinstance(path[-1], tuple) else None
        self.sl = PathSlicer(b, self.path)
        self._dec = None

    def term(self, op, bb, idx=None):
        if idx is None:
            idx = len(self.b.blocks[bb]["stmts"])
        return self.P.resolve(self.b, self.sl.operand(op, bb, idx))

    def local(self, l, bb, idx=None):
        if idx is None:
            idx = len(self.b.blocks[bb]["stmts"])
        return self.P.resolve(self.b, self.sl.local(l, bb, idx))

    def ret(self):
        last = self.path[-1]
        return self.P.resolve(self.b, self.sl.ret(last))

    def decisions(self):
        """[(kind, subject canon, value)] with kind 'variant' (value = tuple of names),
        'bool' (value True/False, subject = condition canon), 'int' (value = tuple of ints / 'otherwise')."""
        if self._dec is not None:
            return self._dec
        out = []
        cfg = self.P.cfg(self.b)
        seq = self.path + ([self.back] if self.back is not None else [])
        for i in range(len(seq) - 1):
            p, n = seq[i], seq[i + 1]
            t = self.b.term(p)
            if t["t"] != "switch":
                continue
            vals, other, listed = cfg.edge_values(p, n)
            d = self.term(t["discr"], p)
            ds = terms.strip(d)
            if ds[0] == "discr":
                vs = pan._variants_of_discr(self.b, t["discr"], p)
                if vs is not None:
                    if other:
                        names = tuple(v["name"] for v in vs if v["discr"] not in listed or v["discr"] in vals)
                    else:
                        names = tuple(v["name"] for v in vs if v["discr"] in vals)
                    subj_t = ds[1]
                    # `opt.ok_or(e)?` / `opt.ok_or_else(f)?` decide on `opt` itself: Continue is Some, Break is None
                    s0 = terms.strip(subj_t)
                    if s0[0] == "call" and isinstance(s0[1], str) and s0[1].endswith("::ops::Try>::branch") and s0[2]:
                        s1 = terms.strip(s0[2][0])
                        if s1[0] == "call" and s1[1] in ("std::option::Option::ok_or", "std::option::Option::ok_or_else") and s1[2]:
                            subj_t = s1[2][0]
                            names = tuple({"Continue": "Some", "Break": "None"}.get(n_, n_) for n_ in names)
                    out.append(("variant", canon(subj_t), names, subj_t))
                    continue
            if t["dty"] == "bool":
                truth = not (vals == {0} and not other)
                out.append(("bool", canon(ds), truth, ds))
            else:
                out.append(("int", canon(ds), tuple(sorted(vals)) if not other else ("otherwise",) + tuple(sorted(listed)), ds))
        # the results of two different calls are two values even when the calls read alike (`peek()` before and after a token
        # was consumed): later call sites of one canonical subject get an ordinal, so that their decisions are neither merged
        # nor played off against each other as contradictory
        sites = {}
        for i, d in enumerate(out):
            if d[0] not in ("variant", "bool", "int"):
                continue
            subj = terms.strip(d[3])
            if subj and subj[0] == "call" and len(subj) > 3 and isinstance(subj[3], int):
                seen_sites = sites.setdefault(d[1], [])
                if subj[3] not in seen_sites:
                    seen_sites.append(subj[3])
                k = seen_sites.index(subj[3])
                if k:
                    out[i] = (d[0], "%s#%d" % (d[1], k + 1), d[2], d[3])
        self._dec = out
        return out

    def feasible(self):
        seen = {}
        for d in self.decisions():
            if d[0] == "variant":
                prev = seen.get(d[1])
                cur = set(d[2])
                if prev is not None:
                    cur = prev & cur
                    if not cur:
                        return False
                seen[d[1]] = cur
                # `?` applied to a literal Err(..)/None (resp. Ok/Some) takes only one edge
                subj = terms.strip(d[3])
                # the subject is, on this path, a literal variant constructor
                if subj[0] == "agg" and subj[1] == "adt" and subj[2].split("::")[-1] not in d[2] and "::" in subj[2]:
                    return False
                if subj[0] == "call" and subj[1].endswith("::ops::Try>::branch") and subj[2]:
                    x = terms.strip(subj[2][0])
                    if x[0] == "agg" and x[1] == "adt":
                        v = x[2].split("::")[-1]
                        if v in ("Err", "None") and "Continue" in d[2] and "Break" not in d[2]:
                            return False
                        if v in ("Ok", "Some") and "Break" in d[2] and "Continue" not in d[2]:
                            return False
                    if x[0] == "call" and isinstance(x[1], str) and x[1].endswith("::from_residual") and "Continue" in d[2] and "Break" not in d[2]:
                        return False   # an error handed on by `?` (a helper's error return, read at its call site) never continues
            elif d[0] == "int":
                c = terms.strip(d[3])
                if c[0] == "const" and c[1] == "int":
                    # switch on a value that is a literal on this path
                    if d[2] and d[2][0] == "otherwise":
                        if c[2] in d[2][1:]:
                            return False
                    elif c[2] not in d[2]:
                        return False
            elif d[0] == "bool":
                c = terms.strip(d[3])
                if c[0] == "const" and c[1] == "int" and bool(c[2]) != d[2]:
                    return False      # `matches!`-style flag set to a literal earlier on this path
                if c[0] == "bin" and c[1] in ("Eq", "Ne", "Lt", "Le", "Gt", "Ge"):
                    l_, r_ = terms.strip(c[2]), terms.strip(c[3])
                    if l_[0] == "const" and r_[0] == "const" and l_[1] == "int" and r_[1] == "int":
                        # both operands are literals on this path (e.g. a radix chosen by an earlier match arm)
                        val = {"Eq": l_[2] == r_[2], "Ne": l_[2] != r_[2], "Lt": l_[2] < r_[2], "Le": l_[2] <= r_[2], "Gt": l_[2] > r_[2], "Ge": l_[2] >= r_[2]}[c[1]]
                        if val != d[2]:
                            return False
                prev = seen.get(("b", d[1]))
                if prev is not None and prev != d[2]:
                    return False
                seen[("b", d[1])] = d[2]
        return True

    def cmp_facts(self):
        """Comparison facts established along the path, canonicalised: every
        (op, lhs, rhs) is present in both orientations and with negated tests
        turned into the positive opposite.  Plus ('call', short name, args, truth)."""
        from .prog import short
        FLIP = {"Lt": "Gt", "Gt": "Lt", "Le": "Ge", "Ge": "Le", "Eq": "Eq", "Ne": "Ne"}
        NEG = {"Lt": "Ge", "Ge": "Lt", "Gt": "Le", "Le": "Gt", "Eq": "Ne", "Ne": "Eq"}
        out = []
        for d in self.decisions():
            if d[0] == "int" and d[2]:
                # `match x { 0 => .., _ => .. }` tests x against one literal: the same fact as `x == 0` / `x != 0`
                if len(d[2]) == 1 and d[2][0] != "otherwise":
                    out.append(("Eq", d[1], str(d[2][0])))
                    out.append(("Eq", str(d[2][0]), d[1]))
                elif len(d[2]) == 2 and d[2][0] == "otherwise":
                    out.append(("Ne", d[1], str(d[2][1])))
                    out.append(("Ne", str(d[2][1]), d[1]))
                continue
            if d[0] != "bool":
                continue
            ds = terms.strip(d[3])
            truth = d[2]
            while ds[0] == "un" and ds[1] == "Not":
                ds = terms.strip(ds[2])
                truth = not truth
            if ds[0] == "bin" and ds[1] in FLIP:
                op = ds[1] if truth else NEG[ds[1]]
                l, r = canon(ds[2]), canon(ds[3])
                out.append((op, l, r))
                out.append((FLIP[op], r, l))
            elif ds[0] == "call":
                nm = short(ds[1])
                args = tuple(canon(a) for a in ds[2])
                if (nm.endswith("::eq") or nm.endswith("::ne")) and len(args) == 2:
                    op = "Eq" if nm.endswith("::eq") else "Ne"
                    if not truth:
                        op = NEG[op]
                    out.append((op, args[0], args[1]))
                    out.append((op, args[1], args[0]))
                else:
                    out.append(("call", nm, args, truth))
            elif ds[0] != "const":
                # a plain boolean (flag field, parameter, local): the test of the value itself
                out.append(("is", canon(ds), None, truth))
        out.extend(emptiness_facts(out))
        return out

    def calls(self):
        """[(bb, callee name, [arg terms])] along the path, in order."""
        from .facts import callee_name
        out = []
        for bb in self.path:
            t = self.b.term(bb)
            if t["t"] == "call":
                nm = callee_name(t)[0]
                n = len(self.b.blocks[bb]["stmts"])
                args = [self.P.resolve(self.b, self.sl.operand(a, bb, n)) for a in t["args"]]
                out.append((bb, nm, args))
        return out


def paths(P, b, start=0, stop=None, limit=20000, to_return_only=False, prune=True):
    """Acyclic paths as PathInfo.  With prune, paths that decide the discriminant of
    the same value twice with disjoint variant sets (typically the drop-elaboration
    re-tests after a match) are infeasible and skipped."""
    cfg = P.cfg(b)
    for path in cfg.paths(start, stop, limit):
        last = path[-1]
        if to_return_only:
            if isinstance(last, tuple) or b.term(last)["t"] != "return":
                continue
        pi = PathInfo(P, b, path)
        if prune and not pi.feasible():
            continue
        yield pi


def variant_table(P, b, subject=None, enum_suffix=None):
    """Map variant name -> set of canonical return terms, over all entry->return
    paths, for decisions on the discriminant of `subject` (canon string) or of an
    enum whose path ends with enum_suffix.  Paths that panic are skipped
    (recorded under key '!panic')."""
    table = {}
    n = 0
    for pi in paths(P, b):
        last = pi.path[-1]
        tt = b.term(last)["t"]
        n += 1
        names = None
        for d in pi.decisions():
            if d[0] == "variant" and (subject is None or d[1] == subject):
                names = d[2] if names is None else tuple(x for x in names if x in d[2])
        if names is None:
            names = ("*",)
        if tt == "return" and pi.back is None:
            r = canon(pi.ret())
        elif tt == "call" and b.term(last)["target"] is None:
            r = "!panic"
        elif tt == "unreachable":
            continue  # compiler-proven unreachable (exhaustive match)
        else:
            r = "!" + tt
        for v in names:
            table.setdefault(v, set()).add(r)
    return table


def predicate_table(P, b):
    """For a small pure function/closure: set of (frozenset of canonical facts on the path, shape of the result)."""
    from .ordrules import shape_of
    out = set()
    for pi in paths(P, b, to_return_only=True):
        facts = []
        for f in pi.cmp_facts():
            if f[0] == "call":
                facts.append(("%s(%s)" % (f[1], ", ".join(f[2])), f[3]))
            elif f[0] == "is":
                facts.append((f[1], f[3]))
            elif f[1] <= f[2]:
                facts.append(("%s(%s, %s)" % (f[0], f[1], f[2]), True))
        for d in pi.decisions():
            if d[0] == "variant":
                facts.append(("variant(%s)" % d[1], d[2]))
        r = pi.ret()
        out.add((frozenset(facts), shape_of(r) if shape_of(r) != "?" else canon(r)))
    return out


PLUMBING = ("::iter::IntoIterator>::into_iter", "::iter::Iterator>::next", "::ops::Deref>::deref", "::ops::DerefMut>::deref_mut",
            "::clone::Clone>::clone", "::convert::Into<", "::convert::From<", "::borrow::Borrow", "::convert::AsRef")


def path_facts(pi):
    facts = []
    for f in pi.cmp_facts():
        if f[0] == "call":
            facts.append(("%s(%s)" % (f[1], ", ".join(f[2])), f[3]))
        elif f[0] == "is":
            facts.append((f[1], f[3]))
        elif f[1] <= f[2]:
            facts.append(("%s(%s, %s)" % (f[0], f[1], f[2]), True))
    for d in pi.decisions():
        if d[0] == "variant":
            facts.append(("variant(%s)" % d[1], d[2]))
        elif d[0] == "int":
            facts.append(("int(%s)" % d[1], d[2]))
    return frozenset(facts)


def iteration_table(P, b, header, effects=None):
    """Exact behaviour of one trip of the loop whose header block is `header`
    (normally the block calling Iterator::next): the set of
    (facts decided on the path, effect calls in order with canonical arguments, 'back' | 'exit' | 'return').
    `effects`: predicate on the callee name; default = every call that is not iterator/deref plumbing."""
    from .prog import short
    rows = set()
    for pi in paths(P, b, start=header):
        last = pi.path[-1]
        if pi.back is not None:
            how = "back" if pi.back == header else "back:%s" % pi.back
        else:
            tt = b.term(last)["t"]
            how = "return" if tt == "return" else ("panic" if tt == "call" and b.term(last)["target"] is None else tt)
            if how == "return":
                from .ordrules import ret_shape
                sh = ret_shape(pi)
                if sh in ("Ok", "Err", "Some", "None"):
                    how = "return:" + sh
        eff = []
        for bb, nm, args in pi.calls():
            if bb == header:
                continue
            if effects is not None:
                if not effects(nm):
                    continue
            elif any(p in nm for p in PLUMBING):
                continue
            eff.append("%s(%s)" % (short(nm), ", ".join(canon(a) for a in args)))
        rows.add((path_facts(pi), tuple(eff), how))
    return rows


# ---- order-independent comparison of decision tables -------------------------------------------
def _split_top(s):
    out, depth, cur = [], 0, ""
    for ch in s:
        if ch in "([{":
            depth += 1
        elif ch in ")]}":
            depth -= 1
        if ch == "," and depth == 0:
            out.append(cur.strip())
            cur = ""
        else:
            cur += ch
    if cur.strip():
        out.append(cur.strip())
    return out


_NEGOP = {"Ne": "Eq", "Ge": "Lt", "Le": "Gt"}


def _norm_fact(name, val):
    import re
    m = re.match(r"^(Eq|Ne|Lt|Le|Gt|Ge)\((.*)\)$", name)
    if m and isinstance(val, bool):
        op, args = m.group(1), _split_top(m.group(2))
        if len(args) == 2:
            l, r = args
            if l > r:
                l, r = r, l
                op = {"Lt": "Gt", "Gt": "Lt", "Le": "Ge", "Ge": "Le"}.get(op, op)
            if op in _NEGOP:
                op, val = _NEGOP[op], not val
            return "%s(%s, %s)" % (op, l, r), val
    return name, val


def _result_atom(res):
    """A boolean result that is itself a test: (atom name, polarity) or None."""
    import re
    neg = False
    r = res
    while r.startswith("Not(") and r.endswith(")"):
        r, neg = r[4:-1], not neg
    m = re.match(r"^PartialEq(?:<.*?> for .*?>)?::(eq|ne)\((.*)\)$", r)
    if m:
        args = _split_top(m.group(2))
        if len(args) == 2:
            n, v = _norm_fact("%s(%s, %s)" % ("Eq" if m.group(1) == "eq" else "Ne", args[0], args[1]), True)
            return n, (v != neg)
    m = re.match(r"^(Eq|Ne|Lt|Le|Gt|Ge)\(", r)
    if m:
        n, v = _norm_fact(r, True)
        return n, (v != neg)
    if re.match(r"^[A-Za-z_\[<&]", r) and "(" in r:
        return r, (not neg)
    return None


def _norm_rows(pt, bool_result):
    rows = []
    for fs, res in pt:
        facts, dead = {}, False
        for name, val in fs:
            name, val = _norm_fact(name, val)
            if name in facts and facts[name] != val:
                if isinstance(val, tuple) and isinstance(facts[name], tuple):
                    val = tuple(x for x in val if x in facts[name])
                    dead = dead or not val
                else:
                    dead = True
            facts[name] = val
        if dead:
            continue
        ra = _result_atom(res) if bool_result and res not in ("0", "1") else None
        if ra is not None:
            n, pol = ra
            for tv in (True, False):
                if n in facts and facts[n] != tv:
                    continue
                rows.append((dict(facts, **{n: tv}), "1" if tv == pol else "0"))
        else:
            rows.append((facts, res))
    return rows


def same_function(got, want, bool_result=False, cap=1 << 14):
    """Do two predicate tables denote the same function of their (pure) atoms?  Independent of
    the order in which the atoms are tested and of short-circuiting; a redundant re-test is
    accepted, a test that changes an outcome is not.  Falls back to equality above `cap` assignments."""
    import itertools
    if got == want:
        return True
    g, w = _norm_rows(got, bool_result), _norm_rows(want, bool_result)
    dom = {}
    for rows in (g, w):
        for facts, _ in rows:
            for n, v in facts.items():
                d = dom.setdefault(n, set())
                if isinstance(v, bool):
                    d.update((True, False))
                else:
                    d.update(v)
                    d.add("*other*")
    names = sorted(dom)
    size = 1
    for n in names:
        size *= len(dom[n])
    if size > cap:
        return False
    def results(rows, asg):
        out = set()
        for facts, res in rows:
            if all((asg[n] == v) if isinstance(v, bool) else (asg[n] in v) for n, v in facts.items()):
                out.add(res)
        return out
    for combo in itertools.product(*[sorted(dom[n], key=str) for n in names]):
        asg = dict(zip(names, combo))
        if results(g, asg) != results(w, asg):
            return False
    return True
