"""Program-level helpers on top of facts: cached CFGs/slicers, closure upvar
resolution, canonical term strings, WHO queries (constructors / field writers /
callers)."""
import re
from .facts import callee_name, norm_name
from .cfg import Cfg
from .terms import Slicer, strip, walk, show, is_transparent_call
from .callgraph import CallGraph


class Prog:
    def __init__(self, facts):
        self.f = facts
        self._cfg = {}
        self._sl = {}
        self._cg = None
        self._closure_site = {}

    @property
    def cg(self):
        if self._cg is None:
            self._cg = CallGraph(self.f)
        return self._cg

    def body(self, name):
        return self.f.bodies.get(name)

    def cfg(self, b):
        if b.name not in self._cfg:
            self._cfg[b.name] = Cfg(b)
        return self._cfg[b.name]

    def sl(self, b):
        if b.name not in self._sl:
            self._sl[b.name] = Slicer(b)
        return self._sl[b.name]

    # ---- closures -------------------------------------------------------------
    def closure_creation(self, cb):
        """(parent body, bb, stmt idx, rvalue) where closure body `cb` is created."""
        if cb.name in self._closure_site:
            return self._closure_site[cb.name]
        res = None
        pb = self.body(cb.parent) if cb.parent else None
        if pb is not None:
            for bb in sorted(pb.reachable_blocks()):
                for i, st in enumerate(pb.blocks[bb]["stmts"]):
                    if st["s"] == "assign" and st["rv"]["r"] == "agg" and st["rv"]["ak"] == "closure" and norm_name(st["rv"]["closure"]) == cb.name:
                        res = (pb, bb, i, st)
                        break
                if res:
                    break
        self._closure_site[cb.name] = res
        return res

    def upvar(self, cb, k):
        """Term (in the parent's frame) captured as upvar k of closure body cb."""
        cs = self.closure_creation(cb)
        if cs is None:
            return ("unknown", "upvar")
        pb, bb, i, st = cs
        ops = st["rv"]["ops"]
        if k >= len(ops):
            return ("unknown", "upvar")
        t = self.sl(pb).operand(ops[k], bb, i)
        return self.resolve(pb, t)

    def closure_use(self, cb):
        """The call in the parent that receives the closure value: (callee name, [arg terms], bb, position of closure arg)."""
        cs = self.closure_creation(cb)
        if cs is None:
            return None
        pb, cbb, ci, st = cs
        l = st["lhs"]["l"]
        for bb, t in pb.calls():
            for ai, a in enumerate(t["args"]):
                if a.get("k") in ("move", "copy") and a["l"] == l and not a["p"]:
                    nm, _ = callee_name(t)
                    args = [self.resolve(pb, x) for x in self.sl(pb).call_args(bb)]
                    return (nm, args, bb, ai, pb)
        return None

    def resolve(self, b, t):
        """Replace upvar accesses inside a closure-body term by the parent's terms,
        closure parameters by ('elem', <receiver of the adaptor call>), and
        promoted constants by the value their promoted body builds."""
        return self._resolve(b, t)

    def promoted_value(self, b, k):
        pb = self.f.bodies.get("%s::promoted[%d]" % (b.name.split("::promoted[")[0], k))
        if pb is None:
            return ("const", "promoted", k)
        rbs = self.cfg(pb).return_blocks()
        if not rbs:
            return ("const", "promoted", k)
        return self.sl(pb).ret(rbs[0])

    def _resolve(self, b, t):
        if not isinstance(t, tuple):
            return t
        tag = t[0]
        if tag == "const":
            if t[1] == "promoted" and not b.is_promoted:
                return self.promoted_value(b, t[2])
            return t
        if b.kind != "Closure" or b.is_promoted:
            return self._resolve_rec(b, t)
        # upvar: field k of (deref) arg 1
        if tag == "field":
            base = t[1]
            inner = base[1] if base[0] == "deref" else base
            if inner[0] == "arg" and inner[1] == 1 and t[2].isdigit():
                return self.upvar(b, int(t[2]))
        if tag == "arg" and t[1] >= 2:
            use = self.closure_use(b)
            if use is not None:
                nm, args, bb, ai, pb = use
                recv = args[0] if args else ("unknown", "recv")
                return ("elem", recv, nm, t[1], t[2])
            return t
        return self._resolve_rec(b, t)

    def _resolve_rec(self, b, t):
        tag = t[0]
        # generic recursion
        if tag in ("ref",):
            return (tag, self._resolve(b, t[1])) + t[2:]
        if tag in ("deref", "discr"):
            return (tag, self._resolve(b, t[1])) + t[2:]
        if tag in ("field", "downcast", "cindex", "subslice", "proj"):
            return (tag, self._resolve(b, t[1])) + t[2:]
        if tag == "index":
            return (tag, self._resolve(b, t[1]), self._resolve(b, t[2]))
        if tag == "bin":
            return (tag, t[1], self._resolve(b, t[2]), self._resolve(b, t[3]))
        if tag == "un":
            return (tag, t[1], self._resolve(b, t[2]))
        if tag == "cast":
            return (tag, t[1], self._resolve(b, t[2]), t[3])
        if tag == "agg":
            if t[1] == "adt":
                return (tag, t[1], t[2], tuple((f, self._resolve(b, v)) for f, v in t[3]))
            return (tag, t[1], t[2], tuple(self._resolve(b, v) for v in t[3]))
        if tag == "call":
            return (tag, t[1], tuple(self._resolve(b, a) for a in t[2]), t[3])
        if tag == "icall":
            return (tag, self._resolve(b, t[1]), tuple(self._resolve(b, a) for a in t[2]), t[3])
        if tag == "phi":
            return (tag, tuple(self._resolve(b, a) for a in t[1]))
        return t

    # ---- terms at sites ---------------------------------------------------------
    def operand_term(self, b, bb, op, idx=None):
        if idx is None:
            idx = len(b.blocks[bb]["stmts"])
        return self.resolve(b, self.sl(b).operand(op, bb, idx))

    def place_term(self, b, bb, pl, idx=None):
        if idx is None:
            idx = len(b.blocks[bb]["stmts"])
        return self.resolve(b, self.sl(b).place(pl, bb, idx))

    def call_arg_terms(self, b, bb):
        return [self.resolve(b, t) for t in self.sl(b).call_args(bb)]

    def S(self, t):
        return canon(t)

    # ---- WHO queries ------------------------------------------------------------
    def constructors(self, adt_variant, include_derived=False):
        """All Aggregate sites building `path` or `path::Variant`: [(body, bb, idx, stmt)]."""
        out = []
        for b in self.f.all_bodies:
            if b.derived and not include_derived:
                continue
            for bb in sorted(b.reachable_blocks()):
                for i, st in enumerate(b.blocks[bb]["stmts"]):
                    if st["s"] == "assign" and st["rv"]["r"] == "agg" and st["rv"]["ak"] == "adt":
                        rv = st["rv"]
                        nm = norm_name(rv["adt"]) + ("::" + rv["variant"] if rv["is_enum"] else "")
                        if nm == adt_variant or (rv["is_enum"] and norm_name(rv["adt"]) == adt_variant):
                            out.append((b, bb, i, st))
        return out

    def field_writers(self, owner, field, include_derived=False):
        """All assignments / &mut borrows / call destinations whose place projects
        through field `field` of ADT `owner`: [(body, bb, idx, kind)]."""
        out = []

        def hits(pl):
            for e in pl["p"]:
                if isinstance(e, dict) and e.get("f") == field and norm_name(e.get("of", "")).split("::<")[0] == owner:
                    return True
            return False

        def whole(ty):
            ty = re.sub(r"^'\w+ ", "", ty or "")
            return norm_name(ty).split("<")[0].strip() == owner

        for b in self.f.all_bodies:
            if b.derived and not include_derived:
                continue
            for bb in sorted(b.reachable_blocks()):
                blk = b.blocks[bb]
                for i, st in enumerate(blk["stmts"]):
                    if st["s"] != "assign":
                        continue
                    if hits(st["lhs"]):
                        out.append((b, bb, i, "assign"))
                    rv = st["rv"]
                    if rv["r"] in ("ref", "rawptr") and rv.get("bk") in ("mut", "Mut") and hits(rv["a"]):
                        out.append((b, bb, i, "borrow_mut"))
                    # the whole struct overwritten through a reference or inside its holder (`*self = ..`): every field is written
                    if st["lhs"]["p"] and whole(st["lhs"].get("ty", "")):
                        out.append((b, bb, i, "assign_whole"))
                t = blk["term"]
                if t["t"] == "call" and hits(t["dest"]):
                    out.append((b, bb, len(blk["stmts"]), "call_dest"))
                if t["t"] == "call" and t["dest"]["p"] and whole(t["dest"].get("ty", "")):
                    out.append((b, bb, len(blk["stmts"]), "call_dest_whole"))
                if t["t"] == "call" and isinstance(t.get("func"), dict) and t["func"].get("fn", "") in ("std::mem::swap", "std::mem::replace", "std::mem::take", "core::mem::swap", "core::mem::replace", "core::mem::take"):
                    for a in t["args"]:
                        ty = a.get("ty", "") if isinstance(a, dict) else ""
                        if ty.startswith("&mut ") and whole(ty[5:]):
                            out.append((b, bb, len(blk["stmts"]), "mem_whole"))
                if t["t"] == "drop" and hits(t["place"]):
                    pass
        return out

    def field_readers(self, owner, field, include_derived=False):
        out = []

        def hits(pl):
            for e in pl.get("p", []):
                if isinstance(e, dict) and e.get("f") == field and norm_name(e.get("of", "")).split("::<")[0] == owner:
                    return True
            return False

        for b in self.f.all_bodies:
            if b.derived and not include_derived:
                continue
            for bb in sorted(b.reachable_blocks()):
                blk = b.blocks[bb]
                for i, st in enumerate(blk["stmts"]):
                    if st["s"] != "assign":
                        continue
                    rv = st["rv"]
                    ops = []
                    if rv["r"] in ("ref", "rawptr", "discr", "copy_for_deref"):
                        ops = [rv["a"]]
                    elif rv["r"] in ("use", "cast", "un", "repeat"):
                        ops = [rv["a"]]
                    elif rv["r"] == "bin":
                        ops = [rv["a"], rv["b"]]
                    elif rv["r"] == "agg":
                        ops = rv["ops"]
                    if any(hits(o) for o in ops if isinstance(o, dict)):
                        out.append((b, bb, i))
                t = blk["term"]
                if t["t"] == "call" and any(hits(a) for a in t["args"]):
                    out.append((b, bb, len(blk["stmts"])))
        return out

    def callers(self, name_pred):
        """Call sites whose callee name satisfies pred: [(body, bb, name)]."""
        out = []
        for b in self.f.all_bodies:
            if b.derived:
                continue
            for bb, t in b.calls():
                nm, _ = callee_name(t)
                if name_pred(nm):
                    out.append((b, bb, nm))
        return out


_ALLOC_RE = re.compile(r"^std::(?:vec::|string::|collections::(?:hash::(?:map|set)::)?)?(Vec|String|HashMap|HashSet|VecDeque)(?:<.*>)?::(new|with_capacity)$")


def alloc_site(term):
    """Identity of a freshly allocated collection: the block of its `new()` / `with_capacity(..)` call (canonical strings drop
    call-site identity — two empty vectors of one function read alike — so rules that must tell them apart use the site)."""
    t = strip(term)
    while t and t[0] == "mutated":
        t = strip(t[1])
    if t and t[0] == "call" and isinstance(t[1], str) and _ALLOC_RE.match(t[1]) and len(t) > 3:
        return t[3]
    return None


def sel_re(inner):
    """Regex (string) for a selection over the iterator matched by `inner` written as `filter_map(it, f)` or as
    `filter(it, p)` followed by `map(.., g)` — the two spellings of "keep some elements and project them"."""
    cl = r"closure\(\{closure#\d+\}\)"
    return r"(?:Iterator::filter_map\(%s, %s\)|Iterator::map\(Iterator::filter\(%s, %s\), %s\))" % (inner, cl, inner, cl, cl)


def selection_of(c, base_iter):
    """Is the canonical string `c` a collected element-wise selection of `base_iter` — `collect(` any chain of
    filter / filter_map / map / cloned / copied `over base_iter)`?  Such a collection has at most one element per element of
    the base, in the base's order, and is empty when the base is.  Returns the list of adaptors (outermost last) or None."""
    m = re.fullmatch(r"Iterator::collect\((.*)\)", c)
    if not m:
        return None
    cur, chain = m.group(1), []
    while cur != base_iter:
        m = re.fullmatch(r"Iterator::(filter|filter_map|map|cloned|copied)\((.*?)(?:, closure\(\{closure#\d+\}\))?\)", cur)
        if not m:
            return None
        chain.append(m.group(1))
        cur = m.group(2)
    return list(reversed(chain))


# ---- canonical strings --------------------------------------------------------

def canon(t, depth=0):
    """Canonical, reference-free rendering of a term.  `?`-plumbing, Option/Result
    payload projections and transparent calls are folded."""
    if not isinstance(t, tuple):
        return str(t)
    if depth > 25:
        return "…"
    d = depth + 1
    t = strip(t)
    tag = t[0]
    if tag == "arg":
        return t[2]
    if tag == "const":
        if t[1] == "fn":
            return "fn:" + t[2]
        return repr(t[2]) if t[1] == "str" else str(t[2])
    if tag == "elem":
        if len(t) > 2 and isinstance(t[2], str) and t[2].endswith("DoubleEndedIterator::rfind"):
            return "elem(Iterator::rev(%s))" % canon(t[1], d)    # the closure of `rfind` sees the elements of the reversed iteration
        return "elem(%s)" % canon(t[1], d)
    if tag == "mutated":
        return "mut!(%s via %s)" % (canon(t[1], d), "/".join(t[2]))
    if tag == "field":
        base = strip(t[1])
        # (x as Continue).0 of Try::branch(x)  =>  try(x)
        if base[0] == "downcast":
            inner = strip(base[1])
            if base[2] == "Continue" and inner[0] == "call" and inner[1].endswith("::ops::Try>::branch"):
                return _try_value(inner[2][0], d)
            if base[2] in ("Some", "Ok", "Err", "Break") and t[2] == "0":
                return "%s!(%s)" % (base[2].lower(), canon(base[1], d))
            return "(%s as %s).%s" % (canon(base[1], d), base[2], t[2])
        return "%s.%s" % (canon(base, d), t[2])
    if tag == "downcast":
        return "(%s as %s)" % (canon(t[1], d), t[2])
    if tag == "index":
        return "%s[%s]" % (canon(t[1], d), canon(t[2], d))
    if tag == "cindex":
        return "%s[%s%d]" % (canon(t[1], d), "-" if t[3] else "", t[2])
    if tag == "subslice":
        return "%s[%d..]" % (canon(t[1], d), t[2])
    if tag == "bin":
        return "%s(%s, %s)" % (t[1], canon(t[2], d), canon(t[3], d))
    if tag == "un":
        if t[1] == "PtrMetadata":
            return "len(%s)" % canon(t[2], d)
        return "%s(%s)" % (t[1], canon(t[2], d))
    if tag == "cast":
        inner = t[2]
        if _INT_TY.match(str(t[3])) and isinstance(inner, tuple) and inner and inner[0] == "cast" and _INT_TY.match(str(inner[3])) and _is_bool_term(inner[2]):
            # a truth value is 0 or 1 in every integer type: `b as i32 as i64` reads as `b as i64`
            return "(%s as %s)" % (canon(inner[2], d), t[3])
        return "(%s as %s)" % (canon(t[2], d), t[3])
    if tag == "discr":
        return "discr(%s)" % canon(t[1], d)
    if tag == "agg":
        if t[1] == "adt":
            return "%s{%s}" % (short(t[2]), ", ".join("%s: %s" % (f, canon(v, d)) for f, v in t[3]))
        if t[1] == "closure":
            return "closure(%s)" % norm_name(t[2]).split("::")[-1]
        return "%s(%s)" % (t[1], ", ".join(canon(v, d) for v in t[3]))
    if tag == "call":
        if t[1] == "<I as std::iter::IntoIterator>::into_iter" and len(t[2]) == 1:
            # the blanket impl for iterators is the identity: `for x in it` and `while let Some(x) = it.next()` read alike
            return canon(t[2][0], d)
        mfb = _FROM_BOOL.match(t[1]) if isinstance(t[1], str) else None
        if mfb and len(t[2]) == 1:
            # `i64::from(b)` for a bool is the cast `b as i64`
            return "(%s as %s)" % (canon(t[2][0], d), mfb.group(1) or mfb.group(2))
        if isinstance(t[1], str) and len(t[2]) == 1:
            # nominal spellings of one operation (Appendix C.1): `for x in &v` / `for x in v.iter()` / `for x in slice`;
            # `s.to_string()` / `s.to_owned()` / `String::from(s)` for a `&str`
            if t[1] in _BYREF_ITER:
                return "[T]::iter(%s)" % canon(t[2][0], d)
            if t[1] in _BYREF_ITER_MUT:
                return "[T]::iter_mut(%s)" % canon(t[2][0], d)
            if t[1] in _STR_TO_STRING:
                return "ToString::to_string(%s)" % canon(t[2][0], d)
            m_cap = _WITH_CAPACITY.match(t[1])
            if m_cap:
                # a capacity hint is not observable: `Vec::with_capacity(n)` is the empty collection `Vec::new()`
                return "%s::new()" % m_cap.group(1)
        if isinstance(t[1], str) and len(t[2]) == 2 and t[1] in ("std::iter::DoubleEndedIterator::rfind", "<I as std::iter::DoubleEndedIterator>::rfind"):
            # `it.rfind(p)` is `it.rev().find(p)`
            return "Iterator::find(Iterator::rev(%s), %s)" % (canon(t[2][0], d), canon(t[2][1], d))
        sn = short(t[1])
        if sn in ("Option::as_ref", "Option::as_deref", "Option::as_mut", "Option::as_deref_mut", "Vec::as_slice", "Vec::as_mut_slice", "String::as_str") and len(t[2]) == 1:
            return canon(t[2][0], d)       # a borrowed view of the same value: terms are reference-free
        if sn in ("Option::copied", "Iterator::copied"):
            sn = sn.replace("copied", "cloned")     # for a `Copy` type the two are one operation
        if sn in ("Option::map_or", "Result::map_or") and len(t[2]) == 3:
            # `x.map_or(d, f)` is `x.map(f).unwrap_or(d)`
            return "%s::unwrap_or(%s::map(%s, %s), %s)" % (sn.split("::")[0], sn.split("::")[0], canon(t[2][0], d), canon(t[2][2], d), canon(t[2][1], d))
        if sn == "Option::is_some_and" and len(t[2]) == 2:
            return "Option::unwrap_or(Option::map(%s, %s), 0)" % (canon(t[2][0], d), canon(t[2][1], d))    # `x.is_some_and(f)` is `x.map(f).unwrap_or(false)`
        if sn == "Option::unwrap_or" and len(t[2]) == 2:
            a0 = strip(t[2][0])
            if a0[0] == "call" and isinstance(a0[1], str) and short(a0[1]) in ("Option::copied", "Option::cloned") and a0[2]:
                # `*opt.unwrap_or(&d)` and `opt.copied().unwrap_or(d)`: terms are reference-free, so these read alike
                return "Option::unwrap_or(%s, %s)" % (canon(a0[2][0], d), canon(t[2][1], d))
        if sn in ("Option::expect", "Result::expect", "Result::expect_err") and len(t[2]) == 2:
            # the panic message is documentation, not behaviour
            return "%s(%s, '_')" % (sn, canon(t[2][0], d))
        return "%s(%s)" % (sn, ", ".join(canon(a, d) for a in t[2]))
    if tag == "icall":
        return "(%s)(%s)" % (canon(t[1], d), ", ".join(canon(a, d) for a in t[2]))
    if tag == "phi":
        return "phi(%s)" % " | ".join(sorted(set(canon(a, d) for a in t[1])))
    if tag == "repeat":
        return "[%s; n]" % canon(t[1], d)
    if tag == "cycle":
        return "loop:%s" % t[2]
    if tag == "uninit":
        return "uninit"
    if tag == "unknown":
        return "?%s" % t[1]
    return str(t)


def _try_value(x, d):
    """The value of `x?` on its continuing side.  `Ok(v)?` / `Some(v)?` is v; an alternative that is a literal `Err(..)`,
    `None` or an error handed on by `from_residual` never continues (this is what a helper that returns a Result
    looks like once it is read at its call site)."""
    x = strip(x)
    if x[0] == "call" and x[1] in ("std::option::Option::ok_or", "std::option::Option::ok_or_else") and x[2]:
        return "some!(%s)" % canon(x[2][0], d)      # the continuing value of `opt.ok_or(..)?` is the payload of `opt`
    if x[0] == "agg" and x[1] == "adt" and isinstance(x[2], str):
        if (x[2].endswith("::Ok") or x[2].endswith("::Some")) and len(x[3]) == 1:
            return canon(x[3][0][1], d)
    if x[0] == "phi":
        keep = []
        for a in x[1]:
            a_ = strip(a)
            if a_[0] == "agg" and a_[1] == "adt" and isinstance(a_[2], str) and (a_[2].endswith("::Err") or a_[2].endswith("::None")):
                continue
            if a_[0] == "call" and isinstance(a_[1], str) and a_[1].endswith("::from_residual"):
                continue
            keep.append(_try_value(a_, d))
        keep = sorted(set(keep))
        if len(keep) == 1:
            return keep[0]
        if keep:
            return "phi(%s)" % " | ".join(keep)
    return "try(%s)" % canon(x, d)


_BYREF_ITER = {"<&std::vec::Vec<T, A> as std::iter::IntoIterator>::into_iter", "core::slice::iter::<impl std::iter::IntoIterator for &[T]>::into_iter"}
_BYREF_ITER_MUT = {"<&mut std::vec::Vec<T, A> as std::iter::IntoIterator>::into_iter", "core::slice::iter::<impl std::iter::IntoIterator for &mut [T]>::into_iter"}
_STR_TO_STRING = {"std::str::<impl std::borrow::ToOwned for str>::to_owned", "<std::string::String as std::convert::From<&str>>::from"}
_WITH_CAPACITY = re.compile(r"^std::(?:vec::|string::|collections::(?:hash::(?:map|set)::)?)?(Vec|String|HashMap|HashSet|VecDeque)(?:<.*>)?::with_capacity$")
_INT_TY = re.compile(r"^[iu](8|16|32|64|128|size)$")
_FROM_BOOL = re.compile(r"^(?:<([iu](?:8|16|32|64|128|size)) as std::convert::From<bool>>::from|std::convert::num::<impl std::convert::From<bool> for ([iu](?:8|16|32|64|128|size))>::from)$")


def _is_bool_term(t):
    return isinstance(t, tuple) and bool(t) and ((t[0] == "bin" and t[1] in ("Eq", "Ne", "Lt", "Le", "Gt", "Ge")) or (t[0] == "un" and t[1] == "Not" and _is_bool_term(t[2])))


_SHORT_RE = re.compile(r"^<(.+) as (.+)>::(\w+)$")


def short(name):
    """Short callee name: `<A as T<..>>::m` -> `T::m`, `a::b::C::m` -> `C::m`."""
    m = _SHORT_RE.match(name)
    if m:
        tr = m.group(2).split("<")[0].split("::")[-1]
        return "%s::%s" % (tr, m.group(3))
    parts = re.split(r"::(?![^<]*>)", name)
    parts = [p for p in parts if p]
    if len(parts) >= 2:
        a = parts[-2]
        m2 = re.match(r"^<impl (.*)>$", a)
        if m2:
            a = m2.group(1).split(" for ")[-1].split("::")[-1]
        return "%s::%s" % (a, parts[-1])
    return name
