"""C09 — parsing is total: any text gives a test or a located error, never a panic."""
import re
from ..core import pan, terms, tka as tkamod
from ..core.facts import callee_name
from ..core.prog import canon, Prog
from . import panrules, pancheck

ROOTS = ["<parsed_test_case::ParsedTestCase as std::str::FromStr>::from_str", "parsed_test_case::ParsedTestCase::parse"]

SPAN_OK = [
    r"Clone::clone\((self|token|tok|ident_tok|\w+)\.span\)",                       # a token's own span
    r"(try\(Parser::(get|expect)\(self(, [^()]*\{\})?\)\)|some!\(.*\)|\w+)\.span",   # token.span moved
    r"Parser::peek_span\(self\)",
    r"Lexer::span\(self\.iter\)",
    r"ops::Range\{start: ([^{}]*), end: ([^{}]*)\}",
    r"Clone::clone\(Vec::new\(\)\[.*\]\)|Index::index\(.*spans.*\)",
]


def endpoint_ok(c):
    """A range endpoint: `.start` of a lexer span, or input.len()."""
    return bool(re.fullmatch(r"(Parser::peek_span\(self\)|(\w+|try\(Parser::(get|expect)\(self(, [^()]*\{\})?\)\))\.span)\.(start|end)|str::len\(self\.input\)", c))


def span_rule(chk, P):
    """Every value stored into ParseError.at is a lexer span, a range between two
    lexer span endpoints (in token order), or input.len()..input.len() — no arithmetic."""
    cons = [c for c in P.constructors("errors::ParseError") if not c[0].derived]
    n = 0
    for b, bb, i, st in cons:
        t = P.resolve(b, P.sl(b).rvalue(st["rv"], bb, i))
        f = dict(t[3])
        at = terms.strip(f.get("at", ("unknown", "")))
        site = "%s:%d" % (b.file, st["span"]["line"])
        key = "ORG:error-span:%s" % b.name
        if b.name == "errors::ParseError::with_source":
            chk.ok("ORG", key, "copies the spans of an existing error", site)
            continue
        elems = None
        if at[0] == "call" and at[1] == "vec!" and at[2][0][0] == "agg":
            elems = at[2][0][3]
        if elems is None:
            chk.fail("ORG", key, "ParseError.at is `%s`, not a literal vector of spans" % canon(at), site)
            continue
        for e in elems:
            n += 1
            es = terms.strip(e, clones=True)
            c = canon(es)
            good = False
            # the span remembered for an earlier declaration: first component of the tuple stored by the only insert
            if es[0] == "field":     # `.0` of the stored tuple, or a named field of the stored record
                fld = es[2]
                inner = terms.strip(es[1])
                if inner[0] == "field" and inner[2] == "0":
                    inner = terms.strip(inner[1])
                if inner[0] == "downcast" and inner[2] == "Some":
                    call = terms.strip(inner[1])
                    if call[0] == "call" and call[1] == "std::collections::HashMap::insert" and canon(call[2][0]) == "self.virtual_signals":
                        tup = terms.strip(call[2][2])
                        ins = [x for x in P.callers(lambda n: n == "std::collections::HashMap::insert") if canon(P.call_arg_terms(x[0], x[1])[0]) == "self.virtual_signals"]
                        if tup[0] == "agg" and tup[1] == "tuple" and len(ins) == 1 and fld == "0":
                            es = terms.strip(tup[3][0], clones=True)
                            c = canon(es)
                        elif tup[0] == "agg" and tup[1] == "adt" and len(ins) == 1 and fld in dict(tup[3]):
                            es = terms.strip(dict(tup[3])[fld], clones=True)     # the same component, stored under a name
                            c = canon(es)
            if es[0] == "agg" and es[2].endswith("ops::Range"):
                fs = {k: canon(terms.strip(v, clones=True)) for k, v in es[3]}
                good = endpoint_ok(fs.get("start", "")) and endpoint_ok(fs.get("end", ""))
            elif re.fullmatch(r"Parser::peek_span\(self\)|Lexer::span\(self\.iter\)|(self|\w+|try\(Parser::(get|expect)\(self(, [^()]*\{\})?\)\))\.span", c):
                good = True
            elif b.name == "parser::HeaderParser::parse" and re.fullmatch(r"Index::index\(Vec::new\(\), some!\(Iterator::position\(.*\)\)\)", c):
                good = True   # spans[i]: a span pushed earlier (lemma PAIRLEN)
            has_arith = any(x[0] == "bin" and x[1] in ("Add", "Sub", "Mul", "AddWithOverflow", "SubWithOverflow", "MulWithOverflow", "Shl", "Shr", "Div", "Rem") for x in terms.walk(es))
            chk.require(good and not has_arith, "ORG", key, "span `%s` is lexer-derived, no arithmetic" % c, "error location `%s` is not a lexer span / pair of lexer span endpoints (arithmetic: %s)" % (c, has_arith), site)
    chk.floor("ORG", "ParseError location operands", n, 8)
    # arithmetic taint: no Add/Sub/Mul in parser::*/lexer::* has a span-derived operand
    tainted = []
    for b in P.f.hand_bodies():
        if not (b.name.startswith("parser::") or b.name.startswith("lexer::") or b.name.startswith("<lexer::")):
            continue
        for bb in sorted(b.reachable_blocks()):
            for i, st in enumerate(b.blocks[bb]["stmts"]):
                if st["s"] == "assign" and st["rv"]["r"] == "bin" and st["rv"]["op"] in ("Add", "Sub", "Mul", "AddWithOverflow", "SubWithOverflow", "MulWithOverflow"):
                    if not st["lhs"]["p"] and _feeds_only_line_counter(b, st["lhs"]["l"]):
                        continue   # a line counter advanced by a token length is no location (C19's business)
                    for side in ("a", "b"):
                        c = canon(P.operand_term(b, bb, st["rv"][side], i))
                        if re.search(r"\.span|peek_span|Lexer::span|\.start|\.end", c):
                            tainted.append((b.name, c))
    chk.require(not tainted, "ORG", "ORG:no-span-arithmetic", "no arithmetic on span-derived values in parser::* / lexer::*", "arithmetic on span-derived values: %s" % tainted[:3])


def _mentions(o, l):
    if isinstance(o, dict):
        if o.get("k") in ("copy", "move") and o.get("l") == l:
            return True
        if "l" in o and "p" in o and o.get("l") == l and "k" not in o:
            return True
        return any(_mentions(v, l) for v in o.values())
    if isinstance(o, list):
        return any(_mentions(v, l) for v in o)
    return False


def _feeds_only_line_counter(b, l):
    """Is local `l` (result of an arithmetic statement) used only by its overflow assert and by
    stores into a field named `line`?"""
    used = False
    for bb in b.reachable_blocks():
        for st in b.blocks[bb]["stmts"]:
            if st["s"] != "assign":
                continue
            if _mentions(st["rv"], l):
                proj = [e.get("f") if isinstance(e, dict) else e for e in st["lhs"]["p"]]
                if not (proj and proj[-1] == "line"):
                    return False
                used = True
        t = b.term(bb)
        if t["t"] == "assert":
            continue
        if _mentions({k: v for k, v in t.items() if k not in ("span",)}, l):
            return False
    return used


def run(chk, ctx):
    P = Prog(ctx["facts"])
    L = panrules.Lemmas(P, chk)
    chk.explanation = ("C09 decided as: (1) PAN — every panic-capable construct (non-UB MIR Assert, core::panicking call located at its macro call-site, "
                       "call into the may-panic API table, unclassified external callee) in the call-graph closure of ParsedTestCase::from_str/parse is discharged by a machine-checked rule "
                       "(token-kind typestate TKA, LEX class algebra on the logos specs, dominating guards, origin slices, who-may-construct lemmas); "
                       "(2) termination — every parser loop iteration consumes a token on every kind-feasible path; "
                       "(3) error locations — every ParseError.at operand is a lexer span or a pair of lexer span endpoints with no arithmetic. "
                       "Not decided: native stack exhaustion (excluded by the property), miette rendering, logos' generated lexer code (trusted).")
    chk.trusted = ["rustc MIR construction and callee resolution", "logos code generator: spans are token boundaries of the source, longest match", "std API contracts listed in DESIGN.md appendix B"]
    chk.assumptions = ["step rule: usize line/column counters advance by a constant or u8 per consumed token and cannot wrap (< 2^56 tokens)", "an external function not in the may-panic table and matching the safe table does not panic"]
    pancheck.run_pan(chk, P, L, ROOTS, "parse", floor_sites=10, floor_fns=25)
    # TKA verdicts that no site may reference when everything is fine must still be evaluated
    L.need("TKA")
    for fn in P.f.bodies:
        if "From<lexer::token::TokenKind> for expr::" in fn and not fn.endswith("]"):
            L.need("KINDCONV:" + fn)
    tkamod.progress(L.tka_for_progress(), chk)
    span_rule(chk, P)
    chk.not_decided = ["native stack exhaustion on deep nesting (excluded by the property)", "miette's rendering of in-bounds spans (library)"]
