"""C05 — clock (C) and don't-care (X) inputs expand into the documented row sequences."""
import re
from ..core import pan, terms, tab, ordrules
from ..core.facts import callee_name
from ..core.prog import canon, Prog
from . import panrules
from .iter_rules import *


def effect_trace(P, b):
    """Ordered (reverse post-order) list of effects on the row being expanded:
    ('set', index-class, value) / ('update_output', value) / ('push', how) / ('pop',) / ('last',)."""
    cfg = P.cfg(b)
    rpo = cfg.rpo()
    pos = {bb: i for i, bb in enumerate(rpo)}
    sl = P.sl(b)
    idx_calls = {}
    for bb, t in b.calls():
        if callee_name(t)[0].endswith("IndexMut<I>>::index_mut"):
            a = [canon(x) for x in sl.call_args(bb)]
            idx_calls[t["dest"]["l"]] = (bb, a)
    effs = []
    for bb in rpo:
        blk = b.blocks[bb]
        for i, st in enumerate(blk["stmts"]):
            if st["s"] != "assign":
                continue
            lhs = st["lhs"]
            if lhs["p"] == ["*"] and lhs["l"] in idx_calls:
                cbb, a = idx_calls[lhs["l"]]
                val = canon(sl.rvalue(st["rv"], bb, i))
                if re.search(r"find_map\(Iterator::rev\(Iterator::enumerate", a[1]):
                    cls = "x"
                elif re.search(r"Iterator::collect\(Iterator::(filter_map|map\(Iterator::filter)\(Iterator::enumerate", a[1]):
                    cls = "c"
                elif re.search(r"self\.expected_indices\)\)\) as Entry\)\.entry_index$", a[1]):
                    cls = "expected"
                else:
                    cls = "?" + a[1][:60]
                base_ok = bool(re.fullmatch(r"(Option::unwrap|Option::expect)\(Vec::pop\(self\.cache\)(, '[^']*')?\)\.entries", a[0]))
                effs.append((pos[bb], ("set", cls if base_ok else "?base:" + a[0][:40], val, bb in cfg.cyclic_blocks())))
            elif any(isinstance(e, dict) and e.get("f") == "update_output" for e in lhs["p"]):
                effs.append((pos[bb], ("update_output", canon(sl.rvalue(st["rv"], bb, i)), bb in cfg.cyclic_blocks())))
        t = blk["term"]
        if t["t"] == "call":
            nm = callee_name(t)[0]
            a = [canon(x) for x in sl.call_args(bb)]
            if a and a[0] == "self.cache":
                if nm == "std::vec::Vec::push":
                    how = "clone" if a[1].startswith("Clone::clone(") else "move"
                    effs.append((pos[bb] + 0.5, ("push", how)))
                elif nm == "std::vec::Vec::pop":
                    effs.append((pos[bb] + 0.5, ("pop",)))
                elif nm.endswith("::last"):
                    effs.append((pos[bb] + 0.5, ("last",)))
    effs.sort(key=lambda e: e[0])
    return [e[1] for e in effs]


def run(chk, ctx):
    P = Prog(ctx["facts"])
    # "executed as three consecutive device writes": every row of the triple is one driver call with the row's inputs — the
    # write-only call for the two mid-clock rows, the reading call for the third (shared with C02)
    from . import c02 as _c02
    _c02.run(chk.only(("CNT:handle_io:exactly-one-driver-call", "GUARD:handle_io:read-iff-update_output", "CNT:next:one-call-per-yielded-row", "ORG:handle_io:write_input_and_read_output-args",
                       "ORG:handle_io:write_input-args", "ORG:next:handle_io-gets-this-rows-inputs", "ORG:provided-write_input", "WHO:EvaluatedRow.inputs-unwritten")), ctx)
    from .iter_rules import plumbing_rule
    plumbing_rule(chk, P, {"TestCase": ("input_indices", "expected_indices"), "DataRowIteratorTestData": ("signals", "input_indices", "expected_indices")})   # what the parser / the binding produced is what runs
    from . import eqrules
    eqrules.require(chk, P, ["stmt::DataEntry"], "`entry == &DataEntry::X` / `== &DataEntry::C` select exactly the X / C entries")
    eqrules.require_clone(chk, P, ["stmt::DataEntries"], "the copies pushed by expand_x / expand_c equal the row they were cloned from (entries, line, update_output)")
    L = panrules.Lemmas(P, chk)
    chk.explanation = ("C05 decided as necessary structural conditions, each a genuine one: GUARD (both finders select an entry iff it equals X resp. C and entry_is_input(i), where entry_is_input is input_indices.any(indexes(i)); so X/Z in expected-only columns are never expanded), "
                       "ORD+STK (get_row refills from the statement iterator only when the cache is empty, then expand_x, then expand_c, then exactly one pop; nobody else touches the cache), "
                       "effect traces (the cache is a Vec used through push/pop/last/is_empty only; expand_c pushes, in order, {C-cols=0, expected kept, checked}, {expected cols := X, update_output := false, C-cols=1}, {C-cols=0}; LIFO reverses this to 0·1·0 with outputs checked only after the third write; "
                       "expand_x selects the right-most input X via enumerate().rev().find_map, writes 1, pushes a clone, writes 0, pushes — the 0-copy on top). The full 2^k / clock-triple row sequence as a value follows by the hand induction of DESIGN.md and is not computed.")
    chk.trusted = ["std: Vec push/pop is LIFO; enumerate().rev().find_map returns the right-most match"]
    for lem in ("RESIDUAL", "STK"):
        L.need(lem)
    # exact gating: Some(i) iff entry == X / C and the column is an input (scan over the row's entries)
    for fn, variant in ((TD + "expand_x", "X"), (TD + "expand_c", "C")):
        fb = P.body(fn)
        for c in (P.f.closures_of(fn) if fb is not None else []):
            good, got = panrules.selector_ok(P, c, variant)
            chk.require(good, "GUARD", "GUARD:%s:selector" % fn.split("::")[-1], "Some(i) iff entry == %s && entry_is_input(i)" % variant, "%s selects entries by %s" % (fn.split("::")[-1], got))
    ex = P.body(TD + "expand_x")
    ec = P.body(TD + "expand_c")
    gr = P.body(TD + "get_row")
    if not (chk.anchor("expand_x", ex) and chk.anchor("expand_c", ec) and chk.anchor("get_row", gr)):
        return
    tx = effect_trace(P, ex)
    want_x = [("last",), ("pop",), ("set", "x", "DataEntry::Number{0: 1}", True), ("push", "clone"), ("set", "x", "DataEntry::Number{0: 0}", True), ("push", "move")]
    chk.require(tx == want_x, "TRACE", "TRACE:expand_x:split-1-then-0", "last; pop; entries[x]=1; push(clone); entries[x]=0; push  (0-copy on top)", "expand_x effect trace is %s" % tx, "%s:%d" % (ex.file, ex.line))
    # selection scans right-most first
    sel = [[canon(x) for x in P.call_arg_terms(ex, bb)] for bb, t in ex.calls() if callee_name(t)[0] == "std::iter::Iterator::find_map"]
    chk.require(len(sel) == 1 and bool(re.fullmatch(r"Iterator::rev\(Iterator::enumerate\(\[T\]::iter\(Option::expect\(\[T\]::last\(self\.cache\), '[^']*'\)\.entries\)\)\)", sel[0][0])), "ORD", "ORD:expand_x:right-most-X-first", "entries.iter().enumerate().rev().find_map(..) over the top of the stack", "expand_x selects with %s" % sel)
    tc = effect_trace(P, ec)
    want_c = [("pop",), ("push", "move"),
              ("set", "c", "DataEntry::Number{0: 0}", True), ("push", "clone"),
              ("set", "expected", "DataEntry::X{}", True), ("update_output", "0", False),
              ("set", "c", "DataEntry::Number{0: 1}", True), ("push", "clone"),
              ("set", "c", "DataEntry::Number{0: 0}", True), ("push", "move")]
    chk.require(tc == want_c, "TRACE", "TRACE:expand_c:clock-triple", "pop; [no C: push back] | C:=0 push(clone); expected:=X, update_output:=false, C:=1 push(clone); C:=0 push", "expand_c effect trace is %s" % tc, "%s:%d" % (ec.file, ec.line))
    # the no-C branch pushes the row back unchanged; the C branch is taken iff c_indices is non-empty
    rows = set()
    for pi in tab.paths(P, ec, to_return_only=True):
        e = [f[3] for f in pi.cmp_facts() if f[0] == "call" and f[1] == "Vec::is_empty"]
        pushes = sum(1 for bb, nm, a in pi.calls() if nm == "std::vec::Vec::push" and canon(a[0]) == "self.cache")
        if e:
            rows.add((e[0], pushes))
    chk.require((True, 1) in rows and all(p == 1 for e, p in rows if e) and all(p >= 3 for e, p in rows if not e), "GUARD", "GUARD:expand_c:triple-iff-some-C", "no input C: 1 push; otherwise 3", "expand_c (c_indices.is_empty(), pushes on an acyclic path) = %s" % sorted(rows))
    fm = [[canon(x) for x in P.call_arg_terms(ec, bb)] for bb, t in ec.calls() if callee_name(t)[0] in ("std::iter::Iterator::filter_map", "std::iter::Iterator::filter")]   # the selection, spelled filter_map or filter + map
    chk.require(len(fm) == 1 and bool(re.fullmatch(r"Iterator::enumerate\(\[T\]::iter\(Option::expect\(Vec::pop\(self\.cache\), '[^']*'\)\.entries\)\)", fm[0][0])), "ORG", "ORG:expand_c:all-C-columns-of-this-row", "c_indices = enumerate over the popped row's entries", "expand_c collects C columns from %s" % fm)
    # composition
    seqs = set()
    for pi in tab.paths(P, gr, to_return_only=True):
        if ordrules.ret_shape(pi) != "Some(?)" and not ordrules.ret_shape(pi).startswith("Ok"):
            pass
        names = tuple(nm.split("::")[-1] for bb, nm, a in pi.calls() if nm.startswith(TD) or nm == "stmt::StmtIterator::next_with_context" or (nm.startswith("std::vec::Vec::") and a and canon(a[0]) == "self.cache"))
        empt = [f[3] for f in pi.cmp_facts() if f[0] == "call" and f[1] == "Vec::is_empty" and f[2] == ("self.cache",)]
        # `is_empty()` is a query without effect: asking again (an assertion, a second guard) does not change the composition
        names = tuple(n_ for k_, n_ in enumerate(names) if not (n_ == "is_empty" and "is_empty" in names[:k_]))
        # the two generators only read the popped row and `changed` (&self, no effect): their mutual order is immaterial
        if names[-2:] == ("generate_expected_entries", "generate_input_entries"):
            names = names[:-2] + ("generate_input_entries", "generate_expected_entries")
        seqs.add((empt[0] if empt else None, names))
    tail = ("expand_x", "expand_c", "pop", "check_changed_entries", "generate_input_entries", "generate_expected_entries")
    want = {(False, ("is_empty",) + tail), (True, ("is_empty", "next_with_context", "push") + tail), (True, ("is_empty", "next_with_context"))}
    chk.require(seqs == want, "ORD", "ORD:get_row:composition", "refill only when empty; then expand_x, expand_c, one pop, then the generators", "get_row call orders: %s" % sorted(seqs, key=str), "%s:%d" % (gr.file, gr.line))
    for bb, t in gr.calls():
        if callee_name(t)[0] == "std::vec::Vec::push":
            a = [canon(x) for x in P.call_arg_terms(gr, bb)]
            chk.require(a == ["self.cache", "some!(try(StmtIterator::next_with_context(self.iter, ctx)))"], "ORG", "ORG:get_row:refill-with-the-next-source-row", "cache.push(next source row)", "get_row pushes %s" % a)
    w = P.field_writers("stmt::DataEntries", "line")
    chk.require(not w, "WHO", "WHO:expanded-rows-keep-line", "", "DataEntries.line written in %s" % [x[0].name for x in w])
    chk.sample({"expand_x": [list(e) for e in tx], "expand_c": [list(e) for e in tc]})
    chk.not_decided = ["the complete 2^k / clock-triple row sequence as a value (push-order traces + LIFO + hand induction; an equivalent re-implementation with another data structure is reported as unrecognised)"]
