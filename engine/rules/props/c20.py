"""C20 — layout is irrelevant: whitespace, comments and literal radix do not change rows."""
import re
from ..core import pan, terms, tab, ordrules, lexspec
from ..core.facts import callee_name
from ..core.prog import canon, Prog
from . import panrules, c19, c08

SPANISH = re.compile(r"\.span\b|peek_span|Lexer::span|\.start\b|\.end\b")
RESULT_TYPES = ["stmt::Stmt", "stmt::DataEntry", "expr::Expr", "Signal", "parsed_test_case::VirtualSignal", "SignalType", "VirtualExpr"]


def skip_rules(chk, P):
    for enum in ("lexer::token::HeaderTokenKind", "lexer::token::TokenKind"):
        spec = lexspec.load(P.f, enum)
        if not chk.anchor("logos spec of %s" % enum, spec):
            continue
        short = enum.split("::")[-1]
        ws = spec.patterns("WS")
        blank = lexspec.CharSet.of(" \t\r\f")
        good = len(ws) == 1 and ws[0]["node"] is not None and lexspec.normalize(ws[0]["node"]) == lexspec.normalize(("rep", ("set", blank), 1, None)) and spec.is_skipped("WS")
        chk.require(good, "LEX", "LEX:%s:WS-is-skipped-blank-run" % short, "WS = [ \\t\\r\\f]+ with logos::skip", "WS of %s is %s" % (short, [(p["src"], p["callbacks"]) for p in ws]))
        if enum == "lexer::token::TokenKind":
            cm = spec.patterns("Comment")
            want = ("seq", [("set", lexspec.CharSet.of("#")), ("rep", ("set", lexspec.CharSet.of("\n").negate()), 0, None)])
            good = len(cm) == 1 and cm[0]["node"] is not None and lexspec.normalize(cm[0]["node"]) == lexspec.normalize(want) and spec.is_skipped("Comment")
            chk.require(good, "LEX", "LEX:TokenKind:Comment-is-skipped-to-end-of-line", "Comment = #[^\\n]* with logos::skip", "Comment is %s" % [(p["src"], p["callbacks"]) for p in cm])
        cbs = {k: [p["callbacks"] for p in ps if p["callbacks"]] for k, ps in spec.tokens.items()}
        other = {k: v for k, v in cbs.items() if v and k not in ("WS", "Comment")}
        chk.require(not other and not spec.extras, "LEX", "LEX:%s:stateless" % short, "no callbacks besides skip, no extras: the lexer carries no state between tokens", "callbacks %s / enum attributes %s" % (other, spec.extras))
        # blanks cannot be part of any other token
        for ch, name in ((" ", "space"), ("\t", "tab"), ("\r", "CR"), ("\f", "FF")):
            ks = [k for k in spec.kinds_containing(ch) if k not in ("WS", "Comment")]
            chk.require(not ks, "LEX", "LEX:%s:%s-only-in-skipped-patterns" % (short, name), "", "%s can be part of tokens %s" % (name, ks))
        if enum == "lexer::token::TokenKind":
            ks = [k for k in spec.kinds_containing("#") if k != "Comment"]
            chk.require(not ks, "LEX", "LEX:TokenKind:#-starts-only-comments", "", "'#' can be part of tokens %s" % ks)


def span_blindness(chk, P):
    """Span-derived values reach only Parser::text, error locations and sort keys."""
    n = 0
    bad = []
    for adt in RESULT_TYPES:
        for (cb, bb, i, st) in P.constructors(adt):
            if cb.derived:
                continue
            n += 1
            t = P.resolve(cb, P.sl(cb).rvalue(st["rv"], bb, i))
            for fname, v in (t[3] if t[1] == "adt" else ()):
                c = canon(v)
                # the token handed to text() is allowed: text(self, tok) — strip those sub-terms
                c2 = re.sub(r"Parser::text\(self, [^()]*(\([^()]*(\([^()]*(\([^()]*\))*[^()]*\))*[^()]*\))*[^()]*\)", "TEXT", c)
                if SPANISH.search(c2):
                    bad.append(("%s.%s" % (t[2], fname), cb.name, c2[:160]))
    chk.require(not bad, "ORG", "ORG:span-blind:result-constructors", "%d Stmt/Expr/DataEntry/Signal constructor sites: no field is derived from a span" % n, "span-derived values reach result constructors: %s" % bad[:3])
    chk.floor("ORG", "result constructor sites", n, 25)
    # branch conditions in the parser
    nsw = 0
    badsw = []
    for b in P.f.hand_bodies():
        if not (b.name.startswith("parser::") or b.name.startswith("parsed_test_case::ParsedTestCase::parse")):
            continue
        if "::finish::" in b.name:
            continue  # sort comparators: span start is the sort key (allowed sink)
        if b.locals[0]["ty"] in ("errors::ParseError", "errors::ParseErrorKind") and not any(l["ty"].startswith("&mut") for l in b.locals[1:1 + b.arg_count]):
            continue  # a pure error constructor: a branch in it shapes the error value only (a location is an allowed sink), never the verdict
        for bb in sorted(b.reachable_blocks()):
            t = b.term(bb)
            if t["t"] == "switch":
                nsw += 1
                c = canon(P.operand_term(b, bb, t["discr"]))
                c2 = re.sub(r"Parser::text\(self, [^()]*(\([^()]*(\([^()]*(\([^()]*\))*[^()]*\))*[^()]*\))*[^()]*\)", "TEXT", c)
                if SPANISH.search(c2):
                    badsw.append((b.name, c2[:140]))
    # the duplicate-declare test switches on the Option returned by insert(name, (span, expr)): the span is payload, not the tested value
    badsw = [x for x in badsw if not re.match(r"discr\(HashMap::insert\(self\.virtual_signals, TEXT, ", x[1])]
    chk.require(not badsw, "ORG", "ORG:span-blind:branch-conditions", "%d switch conditions in the parser: none depends on a span" % nsw, "parser branches on span-derived values: %s" % badsw[:3])
    chk.floor("ORG", "parser switch conditions", nsw, 60)
    # type fact: result types carry no positions except `line`
    for adt in ("stmt::Stmt", "stmt::DataEntry", "expr::Expr", "Signal"):
        a = P.f.adts.get(adt)
        if not chk.anchor("ADT %s" % adt, a):
            continue
        pos = [(v["name"], f["name"], f["ty"]) for v in a["variants"] for f in v["fields"] if ("Range" in f["ty"] or f["ty"] == "usize") and f["name"] not in ("line", "bits")]
        chk.require(not pos, "TYPE", "TYPE:%s:no-position-fields" % adt, "no Range / usize field besides line (and Signal.bits)", "%s has position-like fields %s" % (adt, pos))


def text_use(chk, P):
    sites = [(b.name, b.term(bb)["span"]["line"]) for b, bb, nm in P.callers(lambda n: n == "parser::Parser::text")]
    per = {}
    for n_, l in sites:
        per[n_.split("::")[-1]] = per.get(n_.split("::")[-1], 0) + 1
    want = {"parse_stmt_block": 3, "parse_data_row": 1, "parse_number": 1, "parse_factor": 1}
    chk.require(per == want, "WHO", "WHO:Parser::text-callers", "identifier names (loop/let/declare), the c/x/z letters, numeric literals, identifiers in expressions", "Parser::text is called at %s, expected %s" % (per, want))
    tb = P.body("parser::Parser::text")
    if chk.anchor("Parser::text", tb):
        r = set(canon(P.sl(tb).ret(rb)) for rb in P.cfg(tb).return_blocks())
        chk.require(r == {"Index<I> for str>::index(self.input, Clone::clone(token.span))"}, "ORG", "ORG:Parser::text-is-the-tokens-own-text", "&self.input[token.span]", "Parser::text returns %s" % r)
    # the row letters are compared case-sensitively against both cases
    pdr = P.body(c19.PDR)
    if pdr is not None:
        lits = set()
        for bb, t in pdr.calls():
            if callee_name(t)[0].endswith("PartialEq for str>::eq"):
                a = [canon(x) for x in P.call_arg_terms(pdr, bb)]
                lits.add(a[1].strip("'"))
        chk.require(lits == {"c", "C", "x", "X", "z", "Z"}, "TAB", "TAB:row-letters", str(sorted(lits)), "row letters compared with %s" % sorted(lits))


LITERAL_KINDS = ("DecInt", "HexInt", "BinInt", "OctInt")


def radix_symmetry(chk, P):
    """"writing an integer literal in another radix": outside parse_number (which picks radix and prefix, C08 rule 8) no
    code may tell the four literal kinds apart — every switch on a token kind sends them to the same arm, and no literal
    kind is named as a constant (`at(DecInt)`, `kind == HexInt`).  Otherwise the verdict depends on *where* a radix is used."""
    import json as _json
    from ..core import pan as _pan
    nsw = 0
    split = []
    consts = []
    nagg = 0
    for b in P.f.hand_bodies():
        if b.derived:
            continue
        is_pn = b.name == c08.PN
        for bb in sorted(b.reachable_blocks()):
            t = b.term(bb)
            if t["t"] == "switch":
                vs = _pan._variants_of_discr(b, t["discr"], bb)
                if vs and set(LITERAL_KINDS) <= {v["name"] for v in vs}:
                    nsw += 1
                    tg = dict((v, k) for v, k in t["targets"])
                    m = {}
                    for v in vs:
                        if v["name"] in LITERAL_KINDS:
                            k = tg.get(v["discr"], t["otherwise"])
                            seen = set()
                            while k not in seen and not b.blocks[k]["stmts"] and b.term(k)["t"] == "goto":
                                seen.add(k)
                                k = b.term(k)["target"]
                            m[v["name"]] = k
                    if len(set(m.values())) > 1 and not is_pn:
                        groups = {}
                        for k_, v_ in m.items():
                            groups.setdefault(v_, []).append(k_)
                        split.append((b.name.split("::")[-1], sorted(sorted(g) for g in groups.values())))
            for st in b.blocks[bb]["stmts"]:
                rv = st.get("rv") if st["s"] == "assign" else None
                if rv and rv["r"] == "agg" and rv.get("adt", "").endswith("lexer::token::TokenKind"):
                    nagg += 1
                    if rv.get("variant") in LITERAL_KINDS and not is_pn:
                        consts.append((b.name.split("::")[-1], rv["variant"]))
    chk.require(not split, "TAB", "TAB:radix-symmetry:kind-switches", "%d switches on a token kind: the four literal kinds always take the same arm (parse_number excepted)" % nsw,
                "literal kinds are told apart outside parse_number: %s — a literal's radix decides whether it is accepted there" % split[:4])
    chk.require(not consts, "WHO", "WHO:radix-symmetry:no-literal-kind-constant", "%d token-kind constants: none names a single literal kind" % nagg,
                "a single literal kind is named as a constant in %s" % consts[:4])
    chk.floor("TAB", "switches over the literal kinds", nsw, 7)
    chk.floor("WHO", "token-kind constants seen", nagg, 20)


def run(chk, ctx):
    P = Prog(ctx["facts"])
    from .iter_rules import plumbing_rule
    plumbing_rule(chk, P, {"ParsedTestCase": ("stmts",), "TestCase": ("stmts",), "DataRowIteratorTestData": ("iter",)})   # what the parser / the binding produced is what runs
    chk.explanation = ("C20 decided as: the result is a function of the token sequence (kind, text) plus the newline count. LEX (WS is exactly [ \\t\\r\\f]+ and Comment is #[^\\n]*, both skipped; no other callbacks or extras, so the lexer is stateless between tokens; blanks and '#' cannot be part of any other token), "
                       "ORG taint (span-derived values reach no Stmt/Expr/DataEntry/Signal constructor and no branch condition of the parser; only Parser::text, error locations and the sort keys), TYPE (result types carry no position besides line), "
                       "WHO (token text is used only for identifier names, function names, the c/x/z letters and numeric literals), TAB+LEX for radix (C08 rule 8) and the line rules of C19. "
                       "Maximal-munch token-boundary questions are logos' longest-match rule (trusted) and outside the rewritings the property speaks of.")
    chk.trusted = ["logos longest match; from_str_radix is case-insensitive for digits (std contract)"]
    skip_rules(chk, P)
    span_blindness(chk, P)
    text_use(chk, P)
    # radix: literal rules of C08
    spec = lexspec.load(P.f, "lexer::token::TokenKind")
    if spec is not None:
        for kind, rx in (("DecInt", "[1-9][0-9]*"), ("HexInt", "0[xX][0-9a-fA-F]+"), ("BinInt", "0[bB][01]+"), ("OctInt", "0[0-7]*")):
            chk.require(spec.same_language(kind, rx), "LEX", "LEX:literal:%s" % kind, "language of %s == %s" % (kind, rx), "the pattern of %s (%s) does not denote %s" % (kind, [p["src"] for p in spec.patterns(kind)], rx))
    c08.parse_number_rule(chk, P)
    radix_symmetry(chk, P)
    pn = P.body(c08.PN)
    if pn is not None:
        radix = set()
        for bb, t in pn.calls():
            if callee_name(t)[0].endswith("from_str_radix"):
                radix.add(canon(P.call_arg_terms(pn, bb)[1]))
        chk.require(radix == {"phi(10 | 16 | 2 | 8)"}, "TAB", "TAB:parse_number:radix-set", str(radix), "radix operand is %s" % radix)
    # line shift only
    c19.newline_exclusivity(chk, P)
    L, T = c19.line_counter_rules(chk, P)
    chk.not_decided = ["maximal-munch token boundary questions (`<<` vs `< <`, `looper` is an identifier): logos' longest-match rule, outside the property's rewritings"]
