"""C11 — binding a test to a signal list succeeds exactly when the two fit together."""
import re
from ..core import pan, terms, tab, ordrules
from ..core.facts import callee_name
from ..core.prog import canon, Prog
from . import panrules, pancheck

WS = "parsed_test_case::ParsedTestCase::with_signals"
PT = "parsed_test_case::ParsedTestCase::"
PSB = "parser::stmt::<impl parser::Parser>::parse_stmt_block"
PF = "parser::expr::<impl parser::Parser>::parse_factor"
CHECKS = [PT + "check_duplicate_signals", PT + "build_indices", PT + "check_missing_signals", PT + "check_and_consume_expected_inputs", PT + "build_read_outputs"]


def closure_calls(P, fn):
    """All (short callee, args canon) in the closures (transitively) of fn."""
    out = []
    for b in P.f.all_bodies:
        if b.kind == "Closure" and not b.is_promoted and b.root == fn:
            out.extend((b.name, n, a) for n, a in panrules.canon_calls(P, b))
    return out


def signal_tables(chk, P):
    want = {"Signal::is_input": {"Input": "1", "Bidirectional": "1", "Output": "0", "Virtual": "0"},
            "Signal::is_output": {"Input": "0", "Bidirectional": "1", "Output": "1", "Virtual": "0"},
            "Signal::is_bidirectional": {"Input": "0", "Bidirectional": "1", "Output": "0", "Virtual": "0"}}
    for fn, w in want.items():
        b = P.body(fn)
        if b is None:
            chk.fail("ANCHOR", "anchor:%s" % fn, "%s not found" % fn)
            continue
        vt = tab.variant_table(P, b, subject="self.typ")
        got = {v: "|".join(sorted(rs)) for v, rs in vt.items()}
        chk.require(got == w, "TAB", "TAB:%s" % fn, str(got), "%s table is %s, expected %s" % (fn, got, w), "%s:%d" % (b.file, b.line))


def order_rule(chk, P):
    b = P.body(WS)
    if b is None:
        chk.fail("ANCHOR", "anchor:with_signals", "with_signals not found")
        return
    tcs = ordrules.agg_blocks(P, b, "TestCase")
    if not chk.anchor("with_signals builds TestCase", tcs):
        return
    n = 0
    for target in tcs:
        for pi in ordrules.paths_to(P, b, target):
            n += 1
            seq = ordrules.call_sequence(pi)
            names = [nm for bb, nm in seq]
            chk.require(ordrules.is_subsequence(CHECKS, names), "ORD", "ORD:with_signals:all-five-checks-in-order", "every path to the TestCase passes %s" % [c.split("::")[-1] for c in CHECKS],
                        "a path reaches the TestCase literal with checks %s" % [x.split("::")[-1] for x in names if x.startswith(PT)], "%s:%d" % (b.file, b.line))
            for bb, nm in seq:
                if nm in CHECKS and nm != PT + "build_indices":
                    chk.require(ordrules.propagated(pi, b, bb), "ORD", "ORD:with_signals:%s:error-propagated" % nm.split("::")[-1], "Err leaves with_signals through `?`", "the result of %s is not propagated with `?` on a path to the TestCase" % nm.split("::")[-1], "%s:%d" % (b.file, b.term(bb)["span"]["line"]))
            # duplicate check before the virtual signals are appended
            ext = [bb for bb, nm in seq if nm.endswith("iter::Extend<T>>::extend")]
            dup = [bb for bb, nm in seq if nm == CHECKS[0]]
            bi = [bb for bb, nm in seq if nm == CHECKS[1]]
            order = [bb for bb, nm in seq]
            good = bool(ext and dup and bi) and order.index(dup[0]) < order.index(ext[0]) < order.index(bi[0])
            chk.require(good, "ORD", "ORD:with_signals:duplicates-checked-before-virtual-append", "check_duplicate_signals < extend(virtual) < build_indices", "the virtual signals are not appended between the duplicate check and build_indices")
    chk.floor("ORD", "paths to the TestCase literal", n, 1)


def condition_rules(chk, P):
    # duplicates: HashSet::insert false => Err; virtual name contained => Err
    b = P.body(CHECKS[0])
    if b is not None:
        errs = {}
        for (cb, bb, i, st) in P.constructors("std::result::Result::Err"):
            if cb is b:
                g = panrules.guards_at(P, b, bb)
                errs[bb] = [x for x in g if x[0] == "call"]
        conds = sorted(set((x[1], x[3]) for gs in errs.values() for x in gs if x[1] in ("HashSet::insert", "HashSet::contains")))
        chk.require(conds == [("HashSet::contains", True), ("HashSet::insert", False)] and len(errs) == 2, "GUARD", "GUARD:check_duplicate_signals", "Err iff insert(name) == false / virtual name contained", "check_duplicate_signals rejects under %s (%d error sites)" % (conds, len(errs)), "%s:%d" % (b.file, b.line))
        ins = [a for n, a in panrules.canon_calls(P, b) if n == "HashSet::insert"]
        chk.require(bool(ins) and all(re.fullmatch(r"some!\(Iterator::next\(.*signals.*\)\)\.name", a[1]) for a in ins), "ORG", "ORG:check_duplicate_signals:inserts-signal-name", str(ins), "the duplicate check does not insert each signal's name: %s" % ins)
    # missing: header column indexed by no index => Err
    b = P.body(CHECKS[2])
    if b is not None:
        c0 = P.body(CHECKS[2] + "::{closure#0}")
        c00 = P.body(CHECKS[2] + "::{closure#0}::{closure#0}")
        ANY = "Iterator::any(Iterator::chain([T]::iter(input_indices), expected_indices), closure({closure#0}))"
        p0 = tab.predicate_table(P, c0) if c0 else set()
        p00 = tab.predicate_table(P, c00) if c00 else set()
        # the selection is written `filter_map(|..| if !any {Some(..)} else {None})` or `filter(|..| !any).map(..)`
        keep_fm = p0 == {(frozenset([(ANY, False)]), "Some(?)"), (frozenset([(ANY, True)]), "None")}
        keep_f = p0 in ({(frozenset(), "Not(%s)" % ANY)}, {(frozenset([(ANY, False)]), "1"), (frozenset([(ANY, True)]), "0")})
        good = (keep_fm or keep_f) and p00 == {(frozenset(), "EntryIndex::indexes(elem(Iterator::chain([T]::iter(input_indices), expected_indices)), elem(Iterator::enumerate([T]::iter(self.signals))).0)")}
        fm = [[canon(x) for x in P.call_arg_terms(b, bb)] for bb, t in b.calls() if callee_name(t)[0] == ("std::iter::Iterator::filter" if keep_f and not keep_fm else "std::iter::Iterator::filter_map")]
        good = good and fm == [["Iterator::enumerate([T]::iter(self.signals))", "closure({closure#0})"]]
        chk.require(good, "TAB", "TAB:check_missing_signals:condition", "a header column is missing iff no input/expected index indexes it (exact table, every column)", "check_missing_signals decides by %s / %s over %s" % (sorted(p0, key=str), sorted(p00, key=str), fm))
        errs = [bb for (cb, bb, i, st) in P.constructors("std::result::Result::Err") if cb is b]
        good = len(errs) == 1 and any(x[0] == "call" and x[1] == "Vec::is_empty" and x[3] is False for x in panrules.guards_at(P, b, errs[0]))
        chk.require(good, "GUARD", "GUARD:check_missing_signals", "Err iff the missing list is non-empty", "check_missing_signals: %d error site(s), not guarded by !missing.is_empty()" % len(errs))
    # C columns: Err unless exists sig: name == col && is_input()
    b = P.body(CHECKS[3])
    if b is not None:
        c0 = P.body(CHECKS[3] + "::{closure#0}")
        p0 = tab.predicate_table(P, c0) if c0 else set()
        N = "some!(Iterator::next(Vec::drain(self.expected_inputs, ops::RangeFull{}))).0"
        S = "elem([T]::iter(signals))"
        want = {(frozenset([("Eq(%s.name, %s)" % (S, N), True)]), "Signal::is_input(%s)" % S), (frozenset([("Ne(%s.name, %s)" % (S, N), True)]), "0")}
        anyc = [[canon(x) for x in P.call_arg_terms(b, bb)] for bb, t in b.calls() if callee_name(t)[0].endswith("Iterator>::any")]
        chk.require(tab.same_function(p0, want, bool_result=True) and anyc == [["[T]::iter(signals)", "closure({closure#0})"]], "TAB", "TAB:check_expected_inputs:condition", "signals.iter().any(|sig| sig.name == name && sig.is_input())  (exact table)", "the C-column check is %s over %s" % (sorted(p0, key=str), anyc))
        errs = [bb for (cb, bb, i, st) in P.constructors("std::result::Result::Err") if cb is b]
        g = [panrules.guards_at(P, b, e) for e in errs]
        good = len(errs) == 2 and all(any(x[0] == "call" and x[1] == "Iterator::any" and x[3] is False for x in gg) for gg in g)
        chk.require(good, "GUARD", "GUARD:check_expected_inputs", "Err iff no input-capable signal has the column's name", "check_and_consume_expected_inputs: %d error site(s), guards %s" % (len(errs), [[x[:2] + x[3:] for x in gg if x[0] == "call"] for gg in g]))
    # reads: Ok iff exists sig: name == ident && is_output()
    b = P.body(CHECKS[4])
    if b is not None:
        c0 = P.body(CHECKS[4] + "::{closure#0}")
        p0 = tab.predicate_table(P, c0) if c0 else set()
        N = "some!(Iterator::next(Vec::drain(self.read_outputs, ops::RangeFull{}))).0"
        S = "elem([T]::iter(signals))"
        want = {(frozenset([("Eq(%s.name, %s)" % (S, N), True)]), "Signal::is_output(%s)" % S), (frozenset([("Ne(%s.name, %s)" % (S, N), True)]), "0")}
        posc = [[canon(x) for x in P.call_arg_terms(b, bb)] for bb, t in b.calls() if callee_name(t)[0].endswith("Iterator>::position") and canon(P.call_arg_terms(b, bb)[0]) == "[T]::iter(signals)"]
        chk.require(tab.same_function(p0, want, bool_result=True) and posc == [["[T]::iter(signals)", "closure({closure#0})"]], "TAB", "TAB:build_read_outputs:condition", "signals.iter().position(|sig| sig.name == name && sig.is_output())  (exact table)", "the output-read check is %s over %s" % (sorted(p0, key=str), posc))
        errs = [bb for (cb, bb, i, st) in P.constructors("std::result::Result::Err") if cb is b]
        good = len(errs) == 2
        for e in errs:
            arms = [a for a in pan.arm_context(b, e, P.cfg(b)) if a.get("enum", "").endswith("Option") and "Signal" in canon(a["on"]) or (a.get("enum", "").endswith("Option") and "position([T]::iter(signals)" in canon(a["on"]))]
            if not arms or "None" not in arms[-1]["variants"]:
                good = False
        chk.require(good, "GUARD", "GUARD:build_read_outputs", "Err iff no output-capable signal has the identifier's name", "build_read_outputs: %d error site(s) not all on the position == None edge" % len(errs))
    # which error: NotAnInput / NotAnOutput iff the name is a header column (found by name), else UnknownVariableOrSignal
    for fn, field in ((CHECKS[3], "expected_inputs"), (CHECKS[4], "read_outputs")):
        c1 = P.body(fn + "::{closure#1}")
        if c1 is None:
            continue
        N = "some!(Iterator::next(Vec::drain(self.%s, ops::RangeFull{}))).0" % field
        pt = tab.predicate_table(P, c1)
        chk.require(tab.same_function(pt, {(frozenset(), "PartialEq<&B> for &A>::eq(elem([T]::iter(self.signals)), %s)" % N)}, bool_result=True), "TAB", "TAB:%s:error-names-the-column-of-that-name" % fn.split("::")[-1],
                    "the reported column is the header column with the identifier's own name", "the header column for the error is selected by %s" % sorted(pt, key=str))
    # exact outcome tables of the two set-level checks
    M = "Vec::is_empty(Iterator::collect(Iterator::filter_map(Iterator::enumerate([T]::iter(self.signals)), closure({closure#0}))))"
    b = P.body(CHECKS[2])
    if b is not None:
        pt = tab.predicate_table(P, b)
        from ..core.prog import selection_of as _sel

        def _m(f):
            m_ = re.fullmatch(r"Vec::is_empty\((.*)\)", f[0])
            if m_ and _sel(m_.group(1), "Iterator::enumerate([T]::iter(self.signals))") in (["filter_map"], ["filter", "map"]):
                return (M, f[1])    # which columns the selection keeps is TAB:check_missing_signals:condition
            return f
        pt = set((frozenset(_m(f) for f in fs), sh) for fs, sh in pt)
        chk.require(pt == {(frozenset([(M, False)]), "Err"), (frozenset([(M, True)]), "Ok")}, "TAB", "TAB:check_missing_signals:exact-outcome", "Err iff the list of unbound columns is non-empty", "check_missing_signals decides %s" % sorted(pt, key=str))
    b = P.body(CHECKS[0])
    if b is not None:
        pt = tab.predicate_table(P, b)
        S, V = "variant(Iterator::next([T]::iter(signals)))", "variant(Iterator::next([T]::iter(self.virtual_signals)))"
        want_pt = {(frozenset([(S, ("None",)), (V, ("None",))]), "Ok"),
                   (frozenset([(S, ("Some",)), ("HashSet::insert(HashSet::new(), some!(Iterator::next([T]::iter(signals))).name)", False)]), "Err"),
                   (frozenset([(S, ("None",)), (V, ("Some",)), ("HashSet::contains(HashSet::new(), some!(Iterator::next([T]::iter(self.virtual_signals))).0.name)", True)]), "Err")}
        chk.require(pt == want_pt, "TAB", "TAB:check_duplicate_signals:exact-outcome", "Err iff a signal name repeats or a virtual signal's name is among the signal names; Ok only after both scans ended", "check_duplicate_signals decides %s" % sorted(pt, key=str))
    # exact per-item behaviour of the two draining loops: which decisions lead to Err / continue, nothing else
    for fn, field, dec, tag in ((CHECKS[3], "expected_inputs", ("Iterator::any([T]::iter(signals), closure({closure#0}))", True), "expected-inputs"),
                                (CHECKS[4], "read_outputs", ("variant(Iterator::position([T]::iter(signals), closure({closure#0})))", ("Some",)), "read-outputs")):
        b = P.body(fn)
        if b is None:
            continue
        hb = [bb for bb, t in b.calls() if callee_name(t)[0].endswith("Iterator>::next")]
        if not chk.anchor("%s loop header" % tag, len(hb) == 1):
            continue
        NX = "variant(Iterator::next(Vec::drain(self.%s, ops::RangeFull{})))" % field
        POS = "variant(Iterator::position([T]::iter(self.signals), closure({closure#1})))"
        neg = (dec[0], False) if dec[1] is True else (dec[0], ("None",))
        rows = set((r[0], r[2]) for r in tab.iteration_table(P, b, hb[0]) if r[2] != "unreachable")
        want_rows = {(frozenset([(NX, ("None",))]), "return:Ok"),
                     (frozenset([(NX, ("Some",)), dec]), "back"),
                     (frozenset([(NX, ("Some",)), neg, (POS, ("None",))]), "return:Err"),
                     (frozenset([(NX, ("Some",)), neg, (POS, ("Some",))]), "return:Err")}
        chk.require(rows == want_rows, "TAB", "TAB:%s:exact-loop-table" % tag, "each drained identifier: accepted iff the signal test holds, otherwise Err (NotAn… if it is a header column, else UnknownVariableOrSignal); Ok only when all were accepted",
                    "%s's loop behaves as %s" % (fn.split("::")[-1], sorted(rows, key=str)))
    # no other reason to reject: error sites per function
    want = {CHECKS[0]: 2, CHECKS[2]: 1, CHECKS[3]: 2, CHECKS[4]: 2}
    counts = {}
    for (cb, bb, i, st) in P.constructors("errors::SignalError"):
        root = cb.root if cb.kind == "Closure" else cb.name
        if root == "errors::SignalError::with_source":
            continue
        counts[root] = counts.get(root, 0) + 1
    extra = {k: v for k, v in counts.items() if v > want.get(k, 0)}
    chk.require(not extra, "WHO", "WHO:SignalError-sites", "SignalError is constructed at %s" % {k.split("::")[-1]: v for k, v in counts.items()}, "new rejection reason: SignalError constructed at %s (expected at most %s)" % ({k: v for k, v in extra.items()}, {k.split("::")[-1]: v for k, v in want.items()}))


def scoping_rules(chk, P, only=None, exclude=()):
    """Parse-time scoping decides which identifiers count as output reads.
    `only`: restrict to obligations whose key contains one of these substrings."""
    if only is not None or exclude:
        class _Filtered:
            def __init__(self, inner):
                self._i = inner
            def __getattr__(self, n):
                return getattr(self._i, n)
            def require(self, cond, rule, key, okd, bad, site=""):
                if (only is None or any(o in key for o in only)) and not any(x in key for x in exclude):
                    return self._i.require(cond, rule, key, okd, bad, site)
                return cond
            def floor(self, *a, **k):
                return None
        chk = _Filtered(chk)
    b = P.body(PSB)
    if b is None:
        chk.fail("ANCHOR", "anchor:parse_stmt_block", "parse_stmt_block not found")
        return
    cfg = P.cfg(b)
    # per statement arm: ordered trace of scope effects and sub-parsers along Ok paths
    arms = {}
    for bb, t in b.calls():
        nm = callee_name(t)[0]
        ac = [a for a in pan.arm_context(b, bb, cfg) if a.get("enum", "").endswith("TokenKind") and canon(a["on"]) == "Parser::peek(self)"]
        if not ac:
            continue
        kinds = tuple(ac[-1]["variants"])
        a = [canon(x) for x in P.call_arg_terms(b, bb)]
        eff = None
        if nm.startswith("framed_map::FramedSet::") and a and a[0] == "self.vars":
            eff = (nm.split("::")[-1],) + tuple(a[1:])
        elif nm == "std::mem::replace" and a and a[0] == "self.vars":
            eff = ("replace-vars", a[1])
        elif nm == "std::mem::take" and a and a[0] == "self.vars":
            eff = ("replace-vars", "Default::default()")      # mem::take(x) is mem::replace(x, Default::default())
        elif nm in (PSB, "parser::expr::<impl parser::Parser>::parse_expr", "parser::stmt::<impl parser::Parser>::parse_data_row"):
            eff = (nm.split("::")[-1],)
        if eff:
            arms.setdefault(kinds, []).append((bb, eff))
    # assignments `self.vars = <saved>` (restore after declare)
    restores = {}
    for bb in sorted(b.reachable_blocks()):
        for i, st in enumerate(b.blocks[bb]["stmts"]):
            if st["s"] == "assign" and [e.get("f") if isinstance(e, dict) else e for e in st["lhs"]["p"]] == ["*", "vars"]:
                ac = [a for a in pan.arm_context(b, bb, cfg) if a.get("enum", "").endswith("TokenKind") and canon(a["on"]) == "Parser::peek(self)"]
                if ac:
                    restores.setdefault(tuple(ac[-1]["variants"]), []).append((bb, canon(P.sl(b).rvalue(st["rv"], bb, i))))

    def trace(kind):
        for kinds, effs in arms.items():
            if kind in kinds:
                # order along dominance (arms are straight-line with `?` exits)
                effs = sorted(effs, key=lambda e: len(cfg.dom_chain(e[0])))
                return [e[1] for e in effs], [e[0] for e in effs]
        return None, None

    tr, _ = trace("Loop")
    want = [("push_frame",), ("insert", "Parser::text(self, try(Parser::expect(self, TokenKind::Ident{})))"), ("parse_stmt_block",), ("pop_frame",)]
    got = [e for e in (tr or []) if e[0] in ("push_frame", "insert", "parse_stmt_block", "pop_frame")]
    bound = [e for e in (tr or []) if e[0] == "parse_expr"]
    chk.require(got == want and tr is not None and tr.index(("parse_expr",)) < tr.index(("push_frame",)), "PAIR", "PAIR:scoping:loop", "bound parsed outside; push_frame, insert(counter), body, pop_frame", "loop arm scope trace is %s" % tr)
    tr, _ = trace("Repeat")
    got = [e for e in (tr or []) if e[0] in ("push_frame", "insert", "parse_data_row", "pop_frame")]
    chk.require(got == [("push_frame",), ("insert", "'n'"), ("parse_data_row",), ("pop_frame",)] and tr is not None and tr.index(("parse_expr",)) < tr.index(("push_frame",)), "PAIR", "PAIR:scoping:repeat", "bound parsed outside; push_frame, insert(\"n\"), row, pop_frame", "repeat arm scope trace is %s" % tr)
    # the name bound at run time is the name put in scope at parse time
    for arm, inserted in (("Loop", "Parser::text(self, try(Parser::expect(self, TokenKind::Ident{})))"), ("Repeat", "'n'")):
        vars_ = set()
        for (cb, bb, i, st) in P.constructors("stmt::Stmt::Loop"):
            if cb is b:
                ac = [a for a in pan.arm_context(b, bb, cfg) if a.get("enum", "").endswith("TokenKind") and canon(a["on"]) == "Parser::peek(self)"]
                if ac and arm in ac[-1]["variants"]:
                    vars_.add(canon(dict(P.sl(b).rvalue(st["rv"], bb, i)[3])["variable"]))
        chk.require(vars_ in ({"ToString::to_string(%s)" % inserted}, {"Into::into(%s)" % inserted}), "PAIR", "PAIR:scoping:%s-binds-the-name-it-scopes" % arm.lower(), "Stmt::Loop.variable is the name inserted into the parse-time scope", "%s builds Loop{variable: %s} but scopes %s" % (arm.lower(), sorted(vars_), inserted))
    tr, _ = trace("While")
    chk.require(tr is not None and not [e for e in tr if e[0] in ("push_frame", "pop_frame", "insert", "replace-vars")], "PAIR", "PAIR:scoping:while-opens-no-scope", "no frame call on the while arm", "while arm scope trace is %s" % tr)
    tr, _ = trace("Let")
    chk.require(tr is not None and [e[0] for e in tr] == ["parse_expr", "insert"] and tr[1][1] == "Parser::text(self, try(Parser::expect(self, TokenKind::Ident{})))", "PAIR", "PAIR:scoping:let-binds-after-its-rhs", "parse_expr, then insert(name)", "let arm scope trace is %s" % tr)
    tr, bbs = trace("Declare")
    rs = [r for k, v in restores.items() if "Declare" in k for r in v]
    # the empty set: FramedSet::new(), or Default::default() while FramedSet's Default is the derived one (both vectors empty)
    dflt = [x for x in P.f.all_bodies if x.name.startswith("<framed_map::FramedSet<") and x.name.endswith("as std::default::Default>::default")]
    empties = {"FramedSet::new()"} | ({"Default::default()"} if dflt and all(x.derived for x in dflt) else set())
    saved = {"mem::replace(self.vars, FramedSet::new())"} | ({"mem::take(self.vars)", "mem::replace(self.vars, Default::default())"} if "Default::default()" in empties else set())
    good = tr is not None and [e[0] for e in tr] == ["replace-vars", "parse_expr"] and tr[0][1] in empties and len(rs) == 1 and rs[0][1] in saved
    if good:
        # the restore happens on every Ok path: it dominates the arm's next step (recording the declaration)
        nxt = [bb for bb, t in b.calls() if callee_name(t)[0] == "std::collections::HashMap::insert" and canon(P.call_arg_terms(b, bb)[0]) == "self.virtual_signals"]
        good = cfg.dominates(bbs[1], rs[0][0]) and bool(nxt) and all(cfg.dominates(rs[0][0], x) for x in nxt)
    chk.require(good, "PAIR", "PAIR:scoping:declare-empties-and-restores-vars", "mem::replace(vars, empty); parse_expr; vars = saved", "declare arm scope trace is %s, restores %s" % (tr, rs))
    # parse_factor: identifier recorded as a read iff !vars.contains(name) and not a call
    pf = P.body(PF)
    if pf is not None:
        ent = [(bb, [canon(x) for x in P.call_arg_terms(pf, bb)]) for bb, t in pf.calls() if callee_name(t)[0] == "std::collections::HashMap::entry"]
        good = len(ent) == 1 and ent[0][1][0] == "self.expected_outputs" and ent[0][1][1] == "Parser::text(self, try(Parser::get(self)))"
        if good:
            g = panrules.guards_at(P, pf, ent[0][0])
            good = any(x[0] == "call" and x[1] == "FramedSet::contains" and x[2][:2] == ("self.vars", "Parser::text(self, try(Parser::get(self)))") and x[3] is False for x in g) \
                and any(x[0] == "call" and x[1] == "Parser::at" and x[3] is False and "LParen" in x[2][1] for x in g)
        chk.require(good, "GUARD", "GUARD:parse_factor:read-recorded-iff-not-a-variable", "expected_outputs.entry(name) iff !vars.contains(name) and not followed by '('", "parse_factor records reads as %s" % ent)
        # exact table of the plain-identifier branch: (facts other than token kinds) -> (read recorded?, result)
        entb = set(bb for bb, _ in ent)
        rows = set()
        for pi in tab.paths(P, pf, to_return_only=True):
            fs = tab.path_facts(pi)
            if not any(f[0].startswith("variant(") and f[1] == ("Ident",) for f in fs):
                continue
            other = frozenset(f for f in fs if not f[0].startswith("variant("))
            if ("Parser::at(self, TokenKind::LParen{})", False) not in other:
                continue
            rows.add((other, any(bb in entb for bb in pi.path), ordrules.ret_shape(pi), re.sub(r"\{.*", "", canon(pi.ret())) if ordrules.ret_shape(pi) == "Ok" else ""))
        CT = "FramedSet::contains(self.vars, Parser::text(self, try(Parser::get(self))))"
        AT = ("Parser::at(self, TokenKind::LParen{})", False)
        want_rows = {(frozenset([AT, (CT, True)]), False, "Ok", "Result::Ok"), (frozenset([AT, (CT, False)]), True, "Ok", "Result::Ok")}
        chk.require(rows == want_rows, "TAB", "TAB:parse_factor:read-recorded-exact", "plain identifier: recorded as an output read exactly when no variable of that name is in scope; no other condition; always Ok(Variable)", "plain-identifier branch of parse_factor behaves as %s" % sorted(rows, key=str))
        # and the Variable node is built on both edges (recorded or not)
    chk.floor("PAIR", "statement arms with scope traces", len(arms), 5)


def run(chk, ctx):
    P = Prog(ctx["facts"])
    from .iter_rules import signal_api_rule
    signal_api_rule(chk, P)   # what an input / output / bidirectional signal with a default *is*
    from .iter_rules import plumbing_rule
    plumbing_rule(chk, P, {"ParsedTestCase": ("signals", "signal_spans", "virtual_signals", "expected_inputs", "read_outputs"), "TestCase": ("signals", "input_indices", "expected_indices", "read_outputs")})   # what the parser / the binding produced is what runs
    L = panrules.Lemmas(P, chk)
    chk.explanation = ("C11 decided through its decomposition: ORD (all five load-time checks run in order on every path to the TestCase, each error propagated, duplicates checked before the virtual signals are appended), "
                       "TAB/GUARD (each check's condition: duplicate names, unknown columns, C columns must be input-capable, reads must be output-capable; is_input/is_output tables), "
                       "WHO (no further SignalError site = no other reason to reject), PAIR/GUARD on the parser's scoping (loop/repeat frames, while none, let after rhs, declare empties and restores, read recorded iff not a variable), "
                       "PAN on with_signals' closure (never panics), and the index lemmas SIGIDX/ROWWIDTH/INPUTIDX that make an accepted test iterable. The 'iff' over all configurations is decided only through these conditions.")
    chk.trusted = ["rustc MIR construction and callee resolution", "std HashSet/Iterator contracts"]
    chk.assumptions = ["callers do not mutate ParsedTestCase.signals (pub) between parsing and binding"]
    pancheck.run_pan(chk, P, L, [WS], "with_signals", floor_sites=5, floor_fns=12)
    order_rule(chk, P)
    signal_tables(chk, P)
    condition_rules(chk, P)
    scoping_rules(chk, P)
    # which header column a signal is bound to (by its own name / name + "_out"): decides which columns end up unbound
    from . import c06
    c06.run(chk.only(("build_indices",)), ctx)
    for lem in ("SIGIDX", "ROWWIDTH", "INPUTIDX", "RESIDUAL"):
        L.need(lem)
    chk.not_decided = []
