"""Shared PAN driver for the 'never panics' properties."""
from ..core import pan
from . import panrules


def run_pan(chk, P, L, roots, what, floor_sites, floor_fns, only=None):
    """Inventory + discharge.  `only(site)` may restrict the sites that belong to
    this property (the rest are other properties' business)."""
    missing = [r for r in roots if P.body(r) is None]
    for r in missing:
        chk.fail("ANCHOR", "anchor:entry-point:%s" % r, "entry point %s not found" % r)
    roots = [r for r in roots if P.body(r) is not None]
    sites, analysed, ext = pan.inventory(P.f, P.cg, roots)
    if only is not None:
        sites = [s for s in sites if only(s)]
    res = panrules.discharge_all(P, chk, L, sites)
    n_ok = 0
    for s, ok, reason, rule, d in res:
        if ok:
            n_ok += 1
            chk.ok("PAN", s.key, "%s — %s" % (rule, reason), s.site)
        else:
            detail = "; ".join("%s=%s" % (k, v) for k, v in d.items() if k in ("len", "index", "a", "b", "args") and isinstance(v, (str, list)))
            chk.fail("PAN", s.key, "%s in %s can panic: %s" % (s.construct, s.body.name, reason), s.site, detail[:600])
    for s, ok, reason, rule, d in res[:12]:
        chk.sample({"site": s.site, "function": s.body.name, "construct": s.construct, "discharged_by": rule, "reason": reason[:200], "ok": ok})
    unknown = sorted(e for e in ext if pan.classify_external(e)[0] == "unknown" and not e.startswith("TestDriver::"))
    chk.analysed.setdefault("pan", {})[what] = {
        "entry_points": roots, "functions_in_closure": len(analysed), "panic_capable_sites": len(sites), "discharged": n_ok,
        "external_callees": len(ext), "unclassified_external_callees": unknown,
    }
    # index for the thorough tier's cross-check against clippy's restriction lints
    idx = chk.extra.setdefault("_pan_index", {"sites": [], "bodies": []})
    idx["sites"].extend([[s.span["file"], s.span["line"]] for s in sites])
    for n in analysed:
        b = P.f.bodies[n]
        idx["bodies"].append([b.file, b.span["line"], b.span["eline"], n])
    chk.floor("PAN", "%s: functions in call-graph closure" % what, len(analysed), floor_fns)
    chk.floor("PAN", "%s: panic-capable sites inventoried" % what, len(sites), floor_sites)
    return res


CLIPPY_LINTS = ["indexing_slicing", "unwrap_used", "expect_used", "panic", "todo", "unreachable", "unimplemented", "arithmetic_side_effects", "string_slice"]


def clippy_crosscheck(chk, repo):
    """Thorough tier: the panic inventory must be a superset of what clippy's opt-in restriction
    lints flag inside the analysed functions (guards against holes in the inventory)."""
    import json
    import os
    import subprocess
    idx = chk.extra.get("_pan_index")
    if not idx:
        return
    here = os.path.dirname(os.path.dirname(os.path.dirname(os.path.dirname(os.path.abspath(__file__)))))
    env = dict(os.environ, CARGO_TARGET_DIR=os.path.join(here, ".cache", "clippy-target"), CARGO_NET_OFFLINE="true")
    cmd = ["cargo", "+nightly", "clippy", "--offline", "--lib", "--message-format=json", "--"] + [x for l in CLIPPY_LINTS for x in ("-W", "clippy::" + l)]
    p = subprocess.run(cmd, cwd=repo, env=env, stdout=subprocess.PIPE, stderr=subprocess.DEVNULL, text=True)
    hits = []
    for line in p.stdout.splitlines():
        try:
            m = json.loads(line)
        except ValueError:
            continue
        if m.get("reason") != "compiler-message":
            continue
        msg = m["message"]
        code = (msg.get("code") or {}).get("code") or ""
        if code.replace("clippy::", "") not in CLIPPY_LINTS:
            continue
        for sp in msg["spans"]:
            if sp["is_primary"]:
                hits.append((sp["file_name"], sp["line_start"], sp["line_end"], code))
    sites = set((f, l) for f, l in idx["sites"])
    missing = []
    inside = 0
    for f, l0, l1, code in hits:
        if not any(bf == f and b0 <= l0 <= b1 for bf, b0, b1, n in idx["bodies"]):
            continue
        inside += 1
        if not any((f, l) in sites for l in range(l0, l1 + 1)):
            missing.append("%s:%d %s" % (f, l0, code))
    chk.require(bool(hits), "PAN", "PAN:clippy-crosscheck:ran", "%d clippy restriction hits, %d inside analysed functions" % (len(hits), inside), "clippy produced no diagnostics (cross-check did not run)")
    chk.require(not missing, "PAN", "PAN:clippy-crosscheck:inventory-is-superset", "every clippy hit inside an analysed function is in the panic inventory", "clippy flags sites the inventory does not contain: %s" % missing[:6])
    chk.analysed["clippy_crosscheck"] = {"hits": len(hits), "inside_analysed_functions": inside, "missing_from_inventory": missing}
