"""Shared PAN driver for the 'never panics' properties."""
from ..core import pan
from . import panrules


def run_pan(chk, P, L, roots, what, floor_sites, floor_fns, only=None):
    """Inventory + discharge.  `only(site)` may restrict the sites that belong to
    this property (the rest are other properties' business)."""
    missing = [r for r in roots if P.body(r) is None]
    for r in missing:
        chk.fail("ANCHOR", "anchor:entry-point:%s" % r, "entry point %s not found" % r)
    roots = [r for r in roots if P.body(r) is not None]
    sites, analysed, ext = pan.inventory(P.f, P.cg, roots)
    if only is not None:
        sites = [s for s in sites if only(s)]
    res = panrules.discharge_all(P, chk, L, sites)
    n_ok = 0
    for s, ok, reason, rule, d in res:
        if ok:
            n_ok += 1
            chk.ok("PAN", s.key, "%s — %s" % (rule, reason), s.site)
        else:
            detail = "; ".join("%s=%s" % (k, v) for k, v in d.items() if k in ("len", "index", "a", "b", "args") and isinstance(v, (str, list)))
            chk.fail("PAN", s.key, "%s in %s can panic: %s" % (s.construct, s.body.name, reason), s.site, detail[:600])
    for s, ok, reason, rule, d in res[:12]:
        chk.sample({"site": s.site, "function": s.body.name, "construct": s.construct, "discharged_by": rule, "reason": reason[:200], "ok": ok})
    unknown = sorted(e for e in ext if pan.classify_external(e)[0] == "unknown" and not e.startswith("TestDriver::"))
    chk.analysed.setdefault("pan", {})[what] = {
        "entry_points": roots, "functions_in_closure": len(analysed), "panic_capable_sites": len(sites), "discharged": n_ok,
        "external_callees": len(ext), "unclassified_external_callees": unknown,
    }
    chk.floor("PAN", "%s: functions in call-graph closure" % what, len(analysed), floor_fns)
    chk.floor("PAN", "%s: panic-capable sites inventoried" % what, len(sites), floor_sites)
    return res
