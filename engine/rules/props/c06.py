"""C06 — values are bound to signals by header name; every row is a complete vector; `changed`."""
import re
from ..core import pan, terms, tab, ordrules
from ..core.facts import callee_name
from ..core.prog import canon, Prog
from . import panrules
from .iter_rules import *

BI = "parsed_test_case::ParsedTestCase::build_indices"
SIG = "some!(Iterator::next(Iterator::enumerate([T]::iter(signals))))"


def generator_rows(P, cl, which):
    """Rows (index variant, entry variant) -> result term with IDX abbreviations."""
    E = "elem([T]::iter(self.%s_indices))" % which
    rows = {}
    for pi in tab.paths(P, cl, to_return_only=True):
        iv = [d[2] for d in pi.decisions() if d[0] == "variant" and d[1] == E]
        ev = [d[2] for d in pi.decisions() if d[0] == "variant" and d[1].startswith("stmt_entries[")]
        r = canon(pi.ret()).replace(E, "IDX")
        rows[(iv[0] if iv else None, ev[0] if ev else None)] = r
    return rows


def run(chk, ctx):
    P = Prog(ctx["facts"])
    from .iter_rules import signal_api_rule
    signal_api_rule(chk, P)   # what an input / output / bidirectional signal with a default *is*
    from .iter_rules import plumbing_rule
    plumbing_rule(chk, P, {"ParsedTestCase": ("signals",), "TestCase": ("signals", "input_indices", "expected_indices"), "DataRowIteratorTestData": ("signals", "input_indices", "expected_indices")})   # what the parser / the binding produced is what runs
    popped_row_untouched_rule(chk, P)
    # "the vector handed to the driver is complete": the generated vector is the one the driver receives (shared with C02)
    from . import c02
    c02.run(chk.only(("ORG:handle_io:write_input_and_read_output-args", "ORG:handle_io:write_input-args", "ORG:next:handle_io-gets-this-rows-inputs", "ORG:next:into_data_row-consumes-same-row",
                      "ORG:into_data_row:inputs-moved", "WHO:EvaluatedRow.inputs-unwritten", "ORG:try_new:default-vector", "ORG:default-vector:")), ctx)
    # "taking its value from the column of that name": the only thing that may happen to the column's number on the way is
    # the reduction to the signal's width — which must then be the right one (shared with C07)
    from . import c07
    c07.mask_rules(chk, P)
    from . import eqrules
    eqrules.require(chk, P, ["stmt::DataEntry"], "`new != old` on row entries means a different entry (kind or value)")
    eqrules.require_clone(chk, P, ["stmt::DataEntries"], "expansion copies carry the row's entries unchanged")
    L = panrules.Lemmas(P, chk)
    chk.explanation = ("C06 decided as tables and origin rules on all paths: ORG (the column of a signal is header.position(|h| h == signal.name), resp. name + \"_out\"), TAB (which list gets which column per SignalType variant, Entry vs Default per Some/None, "
                       "signal_index = position in the signal list, one pass in signal-list order), TAB on the row generators per (index variant x entry variant): value from stmt_entries[entry_index], signal = signals[signal_index], changed = changed[entry_index] with the same index, defaults unflagged, "
                       "TAB on check_changed_entries (elementwise new != old against the previous row, all-true without one), WHO (prev is written only by get_row with the entries of the row being returned). Values are only moved, so nothing value-dependent remains.")
    chk.trusted = ["rustc MIR and callee resolution", "std: position returns the first match; map/collect preserve order"]
    bi = P.body(BI)
    if not chk.anchor("build_indices", bi):
        return
    # binding by name
    c0, c1 = P.body(BI + "::{closure#0}"), P.body(BI + "::{closure#1}")
    if chk.anchor("name closures", c0 and c1):
        p0, p1 = tab.predicate_table(P, c0), tab.predicate_table(P, c1)
        chk.require(p0 == {(frozenset(), "PartialEq<&B> for &A>::eq(elem([T]::iter(self.signals)), %s.1.name)" % SIG)}, "ORG", "ORG:build_indices:column-by-name", "|h| h == &signal.name", "name lookup closure is %s" % sorted(p0, key=str))
        chk.require(p1 == {(frozenset(), "PartialEq<&B> for &A>::eq(elem([T]::iter(self.signals)), Add::add(Clone::clone(%s.1.name), '_out'))" % SIG)}, "ORG", "ORG:build_indices:out-column-by-name", "|h| h == &(signal.name.clone() + \"_out\")", "_out lookup closure is %s" % sorted(p1, key=str))
    pos = sorted([canon(x) for x in P.call_arg_terms(bi, bb)][1] for bb, t in bi.calls() if callee_name(t)[0] == "<std::slice::Iter<T> as std::iter::Iterator>::position" and canon(P.call_arg_terms(bi, bb)[0]) == "[T]::iter(self.signals)")
    chk.require(pos == ["closure({closure#0})", "closure({closure#1})"], "ORG", "ORG:build_indices:positions-in-header", "both lookups are self.signals.iter().position(..)", "positions searched: %s" % pos)
    # which list gets which column
    table = {}
    for bb, t in bi.calls():
        if callee_name(t)[0] != "std::vec::Vec::push":
            continue
        lst = bi.local_name(L._root_local(bi, t["args"][0], bb))
        arms = [a for a in pan.arm_context(bi, bb, P.cfg(bi)) if a.get("enum", "").endswith("SignalType")]
        v = terms.strip(P.call_arg_terms(bi, bb)[1])
        alts = v[1] if v[0] == "phi" else (v,)
        shape = set()
        for a in alts:
            a = terms.strip(a)
            if a[0] == "agg":
                f = {k: canon(x) for k, x in a[3]}
                kind = a[2].split("::")[-1]
                col = None
                if kind == "Entry":
                    m = re.fullmatch(r"some!\(Iterator::position\(\[T\]::iter\(self\.signals\), closure\(\{closure#(\d)\}\)\)\)", f.get("entry_index", ""))
                    col = {"0": "name", "1": "name_out"}.get(m.group(1)) if m else "?" + f.get("entry_index", "")
                shape.add((kind, col, f.get("signal_index") == SIG + ".0"))
        for vn in (arms[0]["variants"] if arms else ["?"]):
            table.setdefault(vn, {})[lst] = tuple(sorted(shape, key=str))
    ent = lambda col: (("Default", None, True), ("Entry", col, True))
    want = {"Input": {"input_indices": ent("name")}, "Bidirectional": {"input_indices": ent("name"), "expected_indices": ent("name_out")},
            "Output": {"expected_indices": ent("name")}, "Virtual": {"expected_indices": ent("name")}}
    chk.require(table == want, "TAB", "TAB:build_indices:which-list-gets-which-column", "Input->inputs(name); Bidirectional->inputs(name)+expected(name_out); Output/Virtual->expected(name); Entry iff found, signal_index = enumerate index", "build_indices table is %s" % table, "%s:%d" % (bi.file, bi.line))
    chk.floor("TAB", "SignalType variants with pushes", len(table), 4)
    # Entry/Default chosen by Some/None of the matching lookup
    for (cb, bb, i, st) in P.constructors("EntryIndex"):
        if cb is not bi:
            continue
        arms = [a for a in pan.arm_context(bi, bb, P.cfg(bi)) if a.get("enum", "").endswith("Option") and "position" in canon(a["on"])]
        v = st["rv"]["variant"]
        good = bool(arms) and arms[0]["variants"] == (["Some"] if v == "Entry" else ["None"])
        if good and v == "Entry":
            f = {k: canon(x) for k, x in P.sl(bi).rvalue(st["rv"], bb, i)[3]}
            good = canon(arms[0]["on"]) == f["entry_index"][len("some!("):-1]
        chk.require(good, "GUARD", "GUARD:build_indices:%s-iff-column-%s" % (v, "found" if v == "Entry" else "absent"), "", "EntryIndex::%s is built on the %s edge of its lookup" % (v, arms[0]["variants"] if arms else "?"), "%s:%d" % (bi.file, st["span"]["line"]))
    its = [[canon(x) for x in P.call_arg_terms(bi, bb)] for bb, t in bi.calls() if callee_name(t)[0].endswith("iter::IntoIterator>::into_iter")]
    chk.require(its == [["Iterator::enumerate([T]::iter(signals))"]], "ORG", "ORG:build_indices:one-forward-pass-over-signal-list", "for (signal_index, signal) in signals.iter().enumerate()", "build_indices iterates %s" % its)
    # generators
    for which, fn in (("input", TD + "generate_input_entries"), ("expected", TD + "generate_expected_entries")):
        g = P.body(fn)
        if not chk.anchor(fn, g):
            continue
        r = set(canon(P.sl(g).ret(rb)) for rb in P.cfg(g).return_blocks())
        chk.require(r == {"Iterator::collect(Iterator::map([T]::iter(self.%s_indices), closure({closure#0})))" % which}, "ORG", "ORG:%s:pipeline" % fn.split("::")[-1], "indices.iter().map(..).collect()", "%s returns %s" % (fn, r))
        cl = P.body(fn + "::{closure#0}")
        if not chk.anchor(fn + " closure", cl):
            continue
        rows = generator_rows(P, cl, which)
        sig_e = "self.signals[(IDX as Entry).signal_index]"
        sig_d = "self.signals[(IDX as Default).signal_index]"
        val = "(stmt_entries[(IDX as Entry).entry_index] as Number).0"
        if which == "input":
            want = {(("Entry",), ("Number",)): re.compile(r"InputEntry\{signal: %s, value: InputValue::Value\{0: .*%s.*\}, changed: changed\[\(IDX as Entry\)\.entry_index\]\}" % (re.escape(sig_e), re.escape(val))),
                    (("Entry",), ("Z",)): re.compile(re.escape("InputEntry{signal: %s, value: InputValue::Z{}, changed: changed[(IDX as Entry).entry_index]}" % sig_e)),
                    (("Default",), None): re.compile(re.escape("InputEntry{signal: %s, value: Option::unwrap(Signal::default_value(%s)), changed: 0}" % (sig_d, sig_d)))}
        else:
            want = {(("Entry",), ("Number",)): re.compile(r"ExpectedEntry\{signal: %s, value: ExpectedValue::Value\{0: .*%s.*\}\}" % (re.escape(sig_e), re.escape(val))),
                    (("Entry",), ("Z",)): re.compile(re.escape("ExpectedEntry{signal: %s, value: ExpectedValue::Z{}}" % sig_e)),
                    (("Entry",), ("X",)): re.compile(re.escape("ExpectedEntry{signal: %s, value: ExpectedValue::X{}}" % sig_e)),
                    (("Default",), None): re.compile(re.escape("ExpectedEntry{signal: %s, value: ExpectedValue::X{}}" % sig_d))}
        live = {k: v for k, v in rows.items() if not v.startswith("!")}
        good = set(live) == set(want) and all(want[k].fullmatch(v) for k, v in live.items())
        bad = {str(k): v[:200] for k, v in live.items() if k not in want or not want[k].fullmatch(v)}
        chk.require(good, "TAB", "TAB:%s:rows" % fn.split("::")[-1], "%d rows: value from the entry's own column, signal = signals[signal_index], %s" % (len(live), "changed from the same column; defaults unflagged" if which == "input" else "omitted => X"), "%s rows differ: %s (missing %s)" % (fn.split("::")[-1], bad, [str(k) for k in want if k not in live]), "%s:%d" % (cl.file, cl.line))
    # check_changed_entries
    cce = P.body(TD + "check_changed_entries")
    if chk.anchor("check_changed_entries", cce):
        rows = set()
        for pi in tab.paths(P, cce, to_return_only=True):
            d = [d_[2] for d_ in pi.decisions() if d_[0] == "variant" and d_[1] == "self.prev"]
            rows.add((d[0] if d else None, canon(pi.ret())))
        want = {(("Some",), "Iterator::collect(Iterator::map(Iterator::zip([T]::iter(stmt_entries), some!(self.prev)), closure({closure#0})))"), (("None",), "vec::from_elem(1, [T]::len(stmt_entries))")}
        chk.require(rows == want, "TAB", "TAB:check_changed_entries", "prev: zip(new, old).map(ne); no prev: all true", "check_changed_entries is %s" % sorted(rows, key=str))
        cl = P.body(cce.name + "::{closure#0}")
        if cl is not None:
            pt = tab.predicate_table(P, cl)
            E = "elem(Iterator::zip([T]::iter(stmt_entries), some!(self.prev)))"
            chk.require(pt == {(frozenset(), "PartialEq<&B> for &A>::ne(%s.0, %s.1)" % (E, E))}, "TAB", "TAB:check_changed_entries:elementwise-ne", "|(new, old)| new != old", "changed closure is %s" % sorted(pt, key=str))
    # prev writers
    w = sorted(set((x[0].name, x[3]) for x in P.field_writers("data_row_iterator::DataRowIteratorTestData", "prev")))
    chk.require(w == [(TD + "get_row", "assign")], "WHO", "WHO:prev-writers", "prev is assigned only in get_row", "prev written at %s" % w)
    gr = P.body(TD + "get_row")
    if chk.anchor("get_row", gr):
        vals = set()
        blocks = []
        for bb in sorted(gr.reachable_blocks()):
            for i, st in enumerate(gr.blocks[bb]["stmts"]):
                if st["s"] == "assign" and any(isinstance(e, dict) and e.get("f") == "prev" for e in st["lhs"]["p"]):
                    vals.add(canon(P.sl(gr).rvalue(st["rv"], bb, i)))
                    blocks.append(bb)
        chk.require(vals == {"Option::Some{0: Option::unwrap(Vec::pop(self.cache)).entries}"}, "ORG", "ORG:get_row:prev-is-the-returned-rows-entries", "self.prev = Some(row_result.entries)", "prev assigned %s" % vals)
        oks = [bb for (cb, bb, i, st) in P.constructors("data_row_iterator::EvaluatedRow") if cb is gr]
        cfg = P.cfg(gr)
        chk.require(bool(oks) and bool(blocks) and all(cfg.dominates(blocks[0], o) for o in oks), "ORD", "ORD:get_row:prev-updated-on-every-returned-row", "the assignment dominates the construction of the returned row", "prev is not updated on every path that returns a row")
        # the generators and check_changed_entries get the popped row
        for bb, t in gr.calls():
            nm = callee_name(t)[0]
            a = [canon(x) for x in P.call_arg_terms(gr, bb)]
            row = "Option::unwrap(Vec::pop(self.cache)).entries"
            if nm == TD + "check_changed_entries":
                chk.require(a == ["self", row], "ORG", "ORG:get_row:changed-of-this-row", "", "check_changed_entries receives %s" % a)
            if nm == TD + "generate_input_entries":
                chk.require(a == ["self", row, "DataRowIteratorTestData::check_changed_entries(self, %s)" % row], "ORG", "ORG:get_row:inputs-of-this-row", "", "generate_input_entries receives %s" % a)
            if nm == TD + "generate_expected_entries":
                chk.require(a == ["self", row], "ORG", "ORG:get_row:expected-of-this-row", "", "generate_expected_entries receives %s" % a)
        for (cb, bb, i, st) in P.constructors("data_row_iterator::EvaluatedRow"):
            if cb is gr:
                f = {k: canon(v) for k, v in P.sl(gr).rvalue(st["rv"], bb, i)[3]}
                row = "Option::unwrap(Vec::pop(self.cache))"
                want = {"line": row + ".line", "update_output": row + ".update_output", "inputs": "DataRowIteratorTestData::generate_input_entries(self, %s.entries, DataRowIteratorTestData::check_changed_entries(self, %s.entries))" % (row, row), "expected": "DataRowIteratorTestData::generate_expected_entries(self, %s.entries)" % row}
                chk.require(f == want, "ORG", "ORG:get_row:EvaluatedRow-fields", "line/update_output/inputs/expected all from the popped row", "EvaluatedRow built as %s" % f)
