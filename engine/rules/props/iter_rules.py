"""Shared rules about the row iterator (driver protocol, outputs refresh, virtual signals)."""
import re
from ..core import pan, terms, tab, ordrules
from ..core.facts import callee_name
from ..core.prog import canon
from . import panrules

DRI = "data_row_iterator::DataRowIterator::"
TD = "data_row_iterator::DataRowIteratorTestData::"
NEXT = "<data_row_iterator::DataRowIterator<T> as std::iter::Iterator>::next"
READ = "TestDriver::write_input_and_read_output"
WRITE = "TestDriver::write_input"
DRIVER = {READ, WRITE}


def driver_sites(P):
    """[(body, bb, method)] for every call of a TestDriver method in hand-written code."""
    return [(b, bb, nm) for b, bb, nm in P.callers(lambda n: n in DRIVER)]


def reaches_driver(P, fn):
    return P.cg.reaches(fn, DRIVER)


def count_range(P, b, names, summaries, cache=None):
    """(min, max) number of calls to `names` on entry->return paths of b, where a
    call to a crate-local function contributes its own (min, max) from `summaries`
    (functions not in summaries contribute 0 and must not reach `names`)."""
    lo, hi = None, None
    groups = {}
    for pi in tab.paths(P, b, to_return_only=True):
        c_lo = c_hi = 0
        for bb, nm, a in pi.calls():
            if nm in names:
                c_lo += 1
                c_hi += 1
            elif nm in summaries:
                c_lo += summaries[nm][0]
                c_hi += summaries[nm][1]
        sh = ordrules.ret_shape(pi)
        g = groups.setdefault(sh, [c_lo, c_hi])
        g[0] = min(g[0], c_lo)
        g[1] = max(g[1], c_hi)
    return groups


def callees_in(P, b):
    return [callee_name(t)[0] for bb, t in b.calls()]
