"""Shared rules about the row iterator (driver protocol, outputs refresh, virtual signals)."""
import re
from ..core import pan, terms, tab, ordrules
from ..core.facts import callee_name
from ..core.prog import canon
from . import panrules

DRI = "data_row_iterator::DataRowIterator::"
TD = "data_row_iterator::DataRowIteratorTestData::"
NEXT = "<data_row_iterator::DataRowIterator<T> as std::iter::Iterator>::next"
READ = "TestDriver::write_input_and_read_output"
WRITE = "TestDriver::write_input"
DRIVER = {READ, WRITE}


def driver_sites(P):
    """[(body, bb, method)] for every call of a TestDriver method in hand-written code."""
    return [(b, bb, nm) for b, bb, nm in P.callers(lambda n: n in DRIVER)]


def reaches_driver(P, fn):
    return P.cg.reaches(fn, DRIVER)


def count_range(P, b, names, summaries, cache=None):
    """(min, max) number of calls to `names` on entry->return paths of b, where a
    call to a crate-local function contributes its own (min, max) from `summaries`
    (functions not in summaries contribute 0 and must not reach `names`)."""
    lo, hi = None, None
    groups = {}
    for pi in tab.paths(P, b, to_return_only=True):
        c_lo = c_hi = 0
        for bb, nm, a in pi.calls():
            if nm in names:
                c_lo += 1
                c_hi += 1
            elif nm in summaries:
                c_lo += summaries[nm][0]
                c_hi += summaries[nm][1]
        sh = ordrules.ret_shape(pi)
        # a result whose variant is not decided on the path (`Some(r.map(f))`: Ok or Err) counts for each shape it may have
        shs = [sh]
        if "Ok|Err" in sh:
            shs = [sh.replace("Ok|Err", "Ok"), sh.replace("Ok|Err", "Err")]
        for sh_ in shs:
            g = groups.setdefault(sh_, [c_lo, c_hi])
            g[0] = min(g[0], c_lo)
            g[1] = max(g[1], c_hi)
    return groups


def swap_vars_exchanges(P, sw):
    """swap_vars exchanges the two whole variable maps: `mem::swap(&mut a, &mut b)`, or the same through a temporary —
    `let t = mem::take(&mut a); a = mem::replace(&mut b, t);` (either map first)."""
    cs = panrules.canon_calls(P, sw)
    V, A = "self.vars", "self.alt_vars"
    if cs in ([("mem::swap", [V, A])], [("mem::swap", [A, V])]):
        return True
    for x, y in ((V, A), (A, V)):
        if cs == [("mem::take", [x]), ("mem::replace", [y, "mem::take(%s)" % x])]:
            stores = set()
            for bb in sorted(sw.reachable_blocks()):
                for i, st in enumerate(sw.blocks[bb]["stmts"]):
                    flds = [e.get("f") for e in st.get("lhs", {}).get("p", []) if isinstance(e, dict) and "f" in e] if st["s"] == "assign" else []
                    if flds and flds[-1] in ("vars", "alt_vars"):
                        stores.add((flds[-1], canon(P.resolve(sw, P.sl(sw).rvalue(st["rv"], bb, i)))))
            if stores == {(x.split(".")[-1], "mem::replace(%s, mem::take(%s))" % (y, x))}:
                return True
    return False


def callees_in(P, b):
    return [callee_name(t)[0] for bb, t in b.calls()]


EC = "eval_context::EvalContext::"


def get_shape_rule(chk, P):
    """EvalContext::get: variables first (wrapped in Value), outputs only on the None edge."""
    g = P.body(EC + "get")
    if not chk.anchor("EvalContext::get", g):
        return False
    shapes = set()
    for pi in tab.paths(P, g, to_return_only=True):
        dec = [(d[1], d[2]) for d in pi.decisions() if d[0] == "variant"]
        shapes.add((tuple(dec), canon(pi.ret())))
    want = {((("FramedMap::get(self.vars, name)", ("Some",)),), "Option::Some{0: OutputValue::Value{0: some!(FramedMap::get(self.vars, name))}}"),
            ((("FramedMap::get(self.vars, name)", ("None",)),), "Option::cloned(HashMap::get(self.outputs, name))")}
    if shapes != want and len(shapes) == 1:
        # the same function written with Option combinators: `vars.get(name).map(Value).or_else(|| outputs.get(name).cloned())`
        # — `map` keeps Some/None, `or_else` runs its closure only for None and returns a Some unchanged
        (dec, ret), = shapes
        m_ = re.fullmatch(r"Option::or_else\(Option::map\(FramedMap::get\(self\.vars, name\), (fn:value::OutputValue::Value|closure\(\{closure#\d+\}\))\), closure\((\{closure#\d+\})\)\)", ret)
        if not dec and m_:
            ok_map = m_.group(1) == "fn:value::OutputValue::Value"
            if not ok_map:
                c1 = P.body(g.name + "::" + m_.group(1)[len("closure("):-1])
                ok_map = c1 is not None and set(canon(P.resolve(c1, P.sl(c1).ret(rb))) for rb in P.cfg(c1).return_blocks()) == {"OutputValue::Value{0: elem(FramedMap::get(self.vars, name))}"}
            c2 = P.body(g.name + "::" + m_.group(2))
            r2 = set(canon(P.resolve(c2, P.sl(c2).ret(rb))) for rb in P.cfg(c2).return_blocks()) if c2 is not None else set()
            if ok_map and r2 == {"Option::cloned(HashMap::get(self.outputs, name))"}:
                shapes = want
    return chk.require(shapes == want, "TAB", "TAB:EvalContext::get:variables-shadow-outputs", "vars.get(name) first (as Value); outputs.get(name) only on its None edge", "EvalContext::get has shape %s" % sorted(shapes))


def handle_io_order_rule(chk, P):
    """read branch: driver read-call -> set_outputs(answer) -> extract_output_values(answer)."""
    hio = P.body(DRI + "handle_io")
    if not chk.anchor("handle_io", hio):
        return
    seqs = set()
    for pi in tab.paths(P, hio, to_return_only=True):
        upd = [d[2] for d in pi.decisions() if d[0] == "bool" and d[1] == "update_output"]
        if not upd:
            continue
        names = tuple(nm.split("::")[-1] for bb, nm, a in pi.calls() if nm in DRIVER or nm in (EC + "set_outputs", TD + "extract_output_values"))
        ok_path = all(d[2] != ("Break",) for d in pi.decisions() if d[0] == "variant")
        seqs.add((upd[0], ok_path, names))
    want_read = (True, True, ("write_input_and_read_output", "set_outputs", "extract_output_values"))
    chk.require(want_read in seqs and all(s[2] == want_read[2] for s in seqs if s[0] and s[1]), "ORD", "ORD:handle_io:read-set_outputs-extract", "driver read-call, then set_outputs, then extract_output_values", "read branch call orders: %s" % sorted(s for s in seqs if s[0]))
    chk.require(all(s[2] == ("write_input",) for s in seqs if not s[0]), "ORD", "ORD:handle_io:write-branch-refreshes-nothing", "the write-only branch calls neither set_outputs nor the extraction", "write branch call orders: %s" % sorted(s for s in seqs if not s[0]))
    for bb, t in hio.calls():
        nm = callee_name(t)[0]
        a = [canon(x) for x in P.call_arg_terms(hio, bb)]
        ans = "try(TestDriver::write_input_and_read_output(self.driver, inputs))"
        if nm == EC + "set_outputs":
            chk.require(a == ["self.ctx", ans], "ORG", "ORG:handle_io:set_outputs-gets-this-answer", "ctx.set_outputs(&answer of this call)", "set_outputs receives %s" % a)
        if nm == TD + "extract_output_values":
            chk.require(len(a) == 3 and a[1] == ans and a[2] == "self.ctx", "ORG", "ORG:handle_io:extract-gets-this-answer", "extract_output_values(answer, &mut ctx)", "extract_output_values receives %s" % a)


def swap_pair_rule(chk, P):
    """extract_output_values: swap_vars() before and after the evaluation on every path that evaluates."""
    ex = P.body(TD + "extract_output_values")
    if not chk.anchor("extract_output_values", ex):
        return
    seqs = set()
    for pi in tab.paths(P, ex, to_return_only=True):
        names = tuple(nm.split("::")[-1] for bb, nm, a in pi.calls() if nm in (EC + "swap_vars", "std::iter::Iterator::collect", "std::iter::Iterator::map") or (nm in P.f.bodies and nm not in (EC + "swap_vars",)))
        seqs.add(names)
    evals = [s for s in seqs if "collect" in s]
    good = bool(evals) and all(s.count("swap_vars") == 2 and s.index("swap_vars") < s.index("collect") and len(s) - 1 - s[::-1].index("swap_vars") > s.index("collect") for s in evals) and all(s.count("swap_vars") == 0 for s in seqs if "collect" not in s)
    chk.require(good, "PAIR", "PAIR:extract:swap_vars-around-evaluation", "swap_vars(); collect(map(..)); swap_vars() on every evaluating path; none on the early error return", "swap/evaluate orders on paths: %s" % sorted(seqs))
    def between(s):
        if s.count("swap_vars") < 2:
            return s
        i = s.index("swap_vars")
        j = len(s) - 1 - s[::-1].index("swap_vars")
        return s[i:j + 1]
    local_between = [s for s in evals for n in between(s) if n not in ("swap_vars", "collect", "map")]
    chk.require(not local_between, "PAIR", "PAIR:extract:no-crate-call-between-swaps", "only iterator plumbing between the swaps", "crate-local calls between the swaps: %s" % local_between)
    sw = P.body(EC + "swap_vars")
    if chk.anchor("swap_vars", sw):
        cs = panrules.canon_calls(P, sw)
        chk.require(swap_vars_exchanges(P, sw), "TAB", "TAB:swap_vars", "mem::swap(&mut self.vars, &mut self.alt_vars) (or the same exchange through a temporary)", "swap_vars does %s" % cs)
    w = sorted(set(x[0].name for x in P.field_writers("eval_context::EvalContext", "alt_vars")))
    chk.require(w == [EC + "swap_vars"], "WHO", "WHO:alt_vars-writers", "alt_vars is touched mutably only by swap_vars (it stays empty)", "alt_vars mutably used in %s" % w)
    w = sorted(set(x[0].name for x in P.field_writers("eval_context::EvalContext", "vars")))
    allowed = {EC + "swap_vars", EC + "set", EC + "push_frame", EC + "pop_frame"}
    chk.require(set(w) <= allowed, "WHO", "WHO:vars-writers", str(w), "EvalContext.vars mutably used in %s" % sorted(set(w) - allowed))
    callers = sorted(set(b.name for b, bb, nm in P.callers(lambda n: n == EC + "swap_vars")))
    chk.require(callers == [TD + "extract_output_values"], "WHO", "WHO:swap_vars-callers", "only extract_output_values", "swap_vars called from %s" % callers)
    # the evaluation between the swaps takes the context by shared reference
    ev = P.body("expr::Expr::eval")
    chk.require(ev is not None and ev.local_ty(2).startswith("&eval_context::EvalContext"), "WHO", "WHO:Expr::eval-takes-shared-ctx", "Expr::eval(&self, &EvalContext): cannot write the swapped-in map", "Expr::eval's context parameter is `%s`" % (ev.local_ty(2) if ev else "?"))


def provided_write_input_rule(chk, P):
    """The provided TestDriver::write_input is library code: exactly one read-call with its own arguments,
    whose Result is returned with only the Ok payload replaced by () — a driver error passes through."""
    from ..core import tab
    b = P.body("TestDriver::write_input")
    if not chk.anchor("provided TestDriver::write_input", b):
        return
    r = sorted(set(canon(P.sl(b).ret(rb)) for rb in P.cfg(b).return_blocks()))
    calls = [callee_name(t)[0] for bb, t in b.calls() if callee_name(t)[0] in DRIVER]
    cl = P.f.closures_of(b.name)
    pt = tab.predicate_table(P, cl[0]) if len(cl) == 1 else None
    CALL = "TestDriver::write_input_and_read_output(self, inputs)"
    form_map = r == ["Result::map(%s, closure({closure#0}))" % CALL] and pt == {(frozenset(), "tuple()")}
    # the `?` spelling: `self.write_input_and_read_output(inputs)?; Ok(())`
    rows = set()
    for pi in tab.paths(P, b, to_return_only=True):
        rows.add((tuple(sorted((d[1], d[2]) for d in pi.decisions() if d[0] == "variant")), canon(pi.ret())))
    form_try = rows == {((("Try::branch(%s)" % CALL, ("Continue",)),), "Result::Ok{0: tuple()}"),
                        ((("Try::branch(%s)" % CALL, ("Break",)),), "FromResidual::from_residual(break!(Try::branch(%s)))" % CALL)}
    good = (form_map or form_try) and calls == [READ]
    chk.require(good, "ORG", "ORG:provided-write_input:error-passes-through", "write_input_and_read_output(inputs).map(|_| ()): one call, Err unchanged", "the provided write_input returns %s (driver calls %s, closure %s)" % (r, [c.split("::")[-1] for c in calls], sorted(pt, key=str) if pt else None))


def popped_row_untouched_rule(chk, P):
    """Both generators must see the evaluated, expanded row exactly as it was popped from the cache: in
    get_row nothing writes into the popped row (no assignment through it, no index_mut / iter_mut / Vec
    mutation on it) — otherwise a value reduced for one signal could be re-read for another signal that
    shares the column, or an entry could change between the input and the expected generator."""
    gr = P.body(TD + "get_row")
    if not chk.anchor("get_row", gr):
        return
    ROW = "Option::unwrap(Vec::pop(self.cache))"
    MUT = ("IndexMut<I>>::index_mut", "::iter_mut", "DerefMut>::deref_mut", "Vec::push", "Vec::insert", "Vec::remove", "Vec::clear", "Vec::truncate", "Vec::swap_remove", "Vec::retain", "::swap", "Vec::drain", "mem::replace", "mem::swap", "mem::take")
    hits = []
    for bb, t in gr.calls():
        nm = callee_name(t)[0]
        if any(nm.endswith(m) or m in nm for m in MUT):
            a = [canon(x) for x in P.call_arg_terms(gr, bb)]
            if a and (a[0].startswith(ROW) or a[0].startswith("mut!(" + ROW)):   # an in-place write makes the row read `mut!(row via ..)`
                hits.append("%s(%s)" % (nm.split("::")[-1], a[0][:80]))
    # the local(s) holding the popped row: assigned from Option::unwrap(Vec::pop(self.cache))
    holders = set()
    for bb, t in gr.calls():
        if callee_name(t)[0] == "std::option::Option::unwrap" and not t["dest"]["p"]:
            a = [canon(x) for x in P.call_arg_terms(gr, bb)]
            if a and a[0] == "Vec::pop(self.cache)":
                holders.add(t["dest"]["l"])
    for bb in sorted(gr.reachable_blocks()):
        for st in gr.blocks[bb]["stmts"]:
            if st["s"] == "assign" and st["lhs"]["l"] in holders and st["lhs"]["p"]:
                hits.append("assignment to %s%s" % (gr.local_name(st["lhs"]["l"]), "".join(".%s" % e.get("f") for e in st["lhs"]["p"] if isinstance(e, dict) and "f" in e)))
    chk.require(bool(holders) and not hits, "ORG", "ORG:get_row:popped-row-not-modified", "nothing in get_row writes into the row between the pop and the generators", "get_row modifies the popped row before the generators read it: %s" % hits)


# ---- plumbing: what the parser produced is what the interpreter runs ---------------------------------------------
_HP = "try(HeaderParser::parse(HeaderParser::new(input)))"
_PARSER = "Parser::from(HeaderParser::new(input), %s.0)" % _HP
PLUMBING = {
    # (ADT, constructing function): {field: the term it is built from}
    ("parsed_test_case::ParsedTestCase", "parsed_test_case::ParsedTestCase::parse"): {
        "stmts": "try(Parser::parse_stmt_block(%s, Option::None{}))" % _PARSER,
        "signals": "%s.0" % _HP,
        "signal_spans": "%s.1" % _HP,
        "virtual_signals": "Parser::finish(%s).virtual_signals" % _PARSER,
        "expected_inputs": "Parser::finish(%s).expected_inputs" % _PARSER,
        "read_outputs": "Parser::finish(%s).read_outputs" % _PARSER,
    },
    ("TestCase", "parsed_test_case::ParsedTestCase::with_signals"): {
        "stmts": "self.stmts",
        "signals": "signals",
        "input_indices": "ParsedTestCase::build_indices(self, signals).0",
        "expected_indices": "ParsedTestCase::build_indices(self, signals).1",
        "read_outputs": "try(ParsedTestCase::build_read_outputs(self, signals))",
    },
    ("data_row_iterator::DataRowIteratorTestData", "data_row_iterator::DataRowIteratorTestData::new"): {
        "signals": "test_case.signals",
        "iter": "StmtIterator::new(test_case.stmts)",
        "input_indices": "test_case.input_indices",
        "expected_indices": "test_case.expected_indices",
    },
}


def plumbing_rule(chk, P, fields):
    """The parser's result reaches the interpreter untouched: each named field of ParsedTestCase / TestCase / the iterator's
    test data is built, at the single place where the struct is built, from exactly the confirmed term (an in-place edit
    on the way shows as `mut!(..)`), and is not written afterwards.  `fields`: {ADT short name: (field, ..)}."""
    for (adt, fn), want in sorted(PLUMBING.items()):
        short_adt = adt.split("::")[-1]
        sel = fields.get(short_adt)
        if not sel:
            continue
        sites = [(cb, bb, i, st) for (cb, bb, i, st) in P.constructors(adt) if not cb.derived]
        if not chk.require(len(sites) == 1 and sites[0][0].name == fn, "WHO", "PLUMB:%s:built-in-one-place" % short_adt, fn.split("::")[-1],
                           "%s is built in %s" % (short_adt, sorted(set(s[0].name for s in sites)))):
            continue
        cb, bb, i, st = sites[0]
        got = {k: canon(v) for k, v in P.sl(cb).rvalue(st["rv"], bb, i)[3]}
        for f in sel:
            chk.require(got.get(f) == want[f], "ORG", "PLUMB:%s.%s" % (short_adt, f), want[f], "%s.%s is built from `%s`, not from `%s`" % (short_adt, f, got.get(f), want[f]), "%s:%d" % (cb.file, cb.line))
            if f != "iter":
                w = sorted(set(x[0].name for x in P.field_writers(adt, f)))
                chk.require(set(w) <= set(PLUMB_WRITERS.get((short_adt, f), [])), "WHO", "PLUMB:%s.%s:unwritten" % (short_adt, f), str(w), "%s.%s is written after construction in %s" % (short_adt, f, w))


# consumed (drained) while binding, by the confirmed functions only
PLUMB_WRITERS = {
    ("ParsedTestCase", "virtual_signals"): ["parsed_test_case::ParsedTestCase::with_signals"],
    ("ParsedTestCase", "expected_inputs"): ["parsed_test_case::ParsedTestCase::check_and_consume_expected_inputs"],
    ("ParsedTestCase", "read_outputs"): ["parsed_test_case::ParsedTestCase::build_read_outputs"],
}


# ---- the public vocabulary the statements are written in: what a "bidirectional signal with default d" is ----------
SIGNAL_CTORS = {
    "Signal::output": "Signal{name: Into::into(name), bits: bits, typ: SignalType::Output{}}",
    "Signal::input": "Signal{name: Into::into(name), bits: bits, typ: SignalType::Input{default: Into::into(default)}}",
    "Signal::bidirectional": "Signal{name: Into::into(name), bits: bits, typ: SignalType::Bidirectional{default: Into::into(default)}}",
    "<value::InputValue as std::convert::From<i64>>::from": "InputValue::Value{0: value}",
    "<value::OutputValue as std::convert::From<i64>>::from": "OutputValue::Value{0: value}",
}
SIGNAL_TABLES = {
    "Signal::default_value": {"Input": {"Option::Some{0: (self.typ as Input).default}"}, "Bidirectional": {"Option::Some{0: (self.typ as Bidirectional).default}"}, "Output": {"Option::None{}"}, "Virtual": {"Option::None{}"}},
    "Signal::is_bidirectional": {"Bidirectional": {"1"}, "Input": {"0"}, "Output": {"0"}, "Virtual": {"0"}},
    "Signal::is_input": {"Input": {"1"}, "Bidirectional": {"1"}, "Output": {"0"}, "Virtual": {"0"}},
    "Signal::is_output": {"Output": {"1"}, "Bidirectional": {"1"}, "Input": {"0"}, "Virtual": {"0"}},
}


def signal_api_rule(chk, P):
    """The properties speak of inputs, outputs, bidirectional signals and their defaults; a user makes them with the public
    constructors and the code asks about them through four accessors.  Each constructor builds exactly the variant it is
    named after from exactly its arguments, the i64 conversions build Value(n), and each accessor has its confirmed
    per-variant table (default_value hands out the signal's own default)."""
    from ..core import tab
    for fn, want in sorted(SIGNAL_CTORS.items()):
        b = P.body(fn)
        if not chk.anchor(fn, b):
            continue
        r = sorted(set(canon(P.resolve(b, P.sl(b).ret(rb))) for rb in P.cfg(b).return_blocks()))
        chk.require(r == [want], "ORG", "API:%s" % fn.replace("<", "").replace(">", "").split(" as ")[0].split("::", 1)[-1] if fn.startswith("<") else "API:%s" % fn, want, "%s builds %s" % (fn, r), "%s:%d" % (b.file, b.line))
    for fn, want in sorted(SIGNAL_TABLES.items()):
        b = P.body(fn)
        if not chk.anchor(fn, b):
            continue
        vt = tab.variant_table(P, b, subject="self.typ")
        chk.require(vt == want, "TAB", "API:%s" % fn, str(want), "%s decides %s" % (fn, vt), "%s:%d" % (b.file, b.line))
