"""C17 — random(n): range, one draw per evaluation, resetRandom replays."""
import re
from ..core import pan, terms, tab, ordrules
from ..core.facts import callee_name
from ..core.prog import canon, Prog
from . import panrules, c01
from .iter_rules import EC


def run(chk, ctx):
    P = Prog(ctx["facts"])
    from . import c01
    c01.stmt_arm_rule(chk, P, only=("ResetRandom",))
    # how often the interpreter evaluates an expression (each row entry, let and loop bound once; the while condition once per test)
    c01.run(chk.only(("AUT:states-classified", "AUT:2:", "AUT:3:", "AUT:5:", "AUT:9:while-test", "PLUMB:")), ctx)
    from . import c08
    c08.operand_evaluation_rule(chk, P)   # no operand (and so no draw inside it) is skipped or repeated: only ite is lazy   # every `resetRandom;` the program contains becomes a statement
    L = panrules.Lemmas(P, chk)
    chk.explanation = ("C17 decided structurally: term/ORG (the function bound to \"random\" samples a half-open Range{start: c >= 0, end: eval(args[0])} with gen_range and returns that value unchanged — no inclusive range, no end+1, no post-processing), "
                       "CNT (exactly one EvalContext::random call and one evaluation of args[0] per Ok path; random() performs exactly one gen_range), WHO (random is called only from that function; the rng field is touched only by the constructor, reset_random_seed and random), "
                       "CNT on ite (no draw in the unselected branch: exactly the selected argument is evaluated), ORG (with_seed stores the seed and seeds the generator from that same value; reset_random_seed re-creates the generator with seed_from_u64(self.seed); seed is written only at construction; "
                       "the ResetRandom statement calls it exactly once). rand's contracts (start <= r < end; seed_from_u64 is a function of the seed) are trusted; values and distribution are not decided.")
    chk.trusted = ["rand 0.8: gen_range(a..b) returns a <= r < b and draws from the generator; StdRng::seed_from_u64 is deterministic"]
    tabl = L.func_table() or []
    rnd = [t for t in tabl if t[0] == "random"]
    if not chk.anchor("table entry `random`", rnd):
        return
    chk.require(rnd[0][1] == 1, "TAB", "TAB:random:arity", "1 argument", "random takes %d arguments" % rnd[0][1])
    fb = P.body(rnd[0][2])
    if not chk.anchor("function bound to random", fb):
        return
    rows = set()
    for pi in tab.paths(P, fb, to_return_only=True):
        evals = tuple(canon(a[0]) for bb, nm, a in pi.calls() if nm == "expr::Expr::eval")
        draws = tuple(tuple(canon(x) for x in a) for bb, nm, a in pi.calls() if nm == EC + "random")
        sh = ordrules.ret_shape(pi)
        pay = canon(terms.strip(pi.ret())[3][0][1]) if sh == "Ok" else ""
        rows.add((sh, evals, draws, pay))
    oks = [r for r in rows if r[0] == "Ok"]
    errs = [r for r in rows if r[0] != "Ok"]
    good = len(oks) == 1
    rng = ""
    if good:
        sh, evals, draws, pay = oks[0]
        good = evals == ("args[0]",) and len(draws) == 1 and draws[0][0] == "ctx"
        rng = draws[0][1] if draws else ""
        m = re.fullmatch(r"ops::Range\{start: (\d+), end: try\(Expr::eval\(args\[0\], ctx\)\)\}", rng)
        good = good and m is not None and int(m.group(1)) >= 0 and pay == "EvalContext::random(ctx, %s)" % rng
    chk.require(good, "CNT", "CNT:random:one-evaluation-one-draw-returned-unchanged", "Ok(ctx.random(c..eval(args[0]))) with c >= 0: %s" % rng, "random() Ok paths: %s" % sorted(oks, key=str), "%s:%d" % (fb.file, fb.line))
    chk.require(all(not r[2] for r in errs), "CNT", "CNT:random:no-draw-on-error-paths", "", "error paths of random() draw: %s" % sorted(errs, key=str))
    # "`random(n)` with n >= 2 yields ...": the only bounds that are refused are those whose range `c..n` is empty.  Every path that
    # returns Ok must be open to each n > c (+0: the range c..n is non-empty iff n > c), i.e. the comparison facts on a value-returning
    # path, read as an interval of n, are exactly n > c — `n <= c` / `n < c+1` on the error side in any spelling.
    N = "try(Expr::eval(args[0], ctx))"
    m_ = re.fullmatch(r"ops::Range\{start: (\d+), end: .*\}", rng)
    if m_:
        c0 = int(m_.group(1))
        lows = set()
        for pi in tab.paths(P, fb, to_return_only=True):
            if ordrules.ret_shape(pi) != "Ok":
                continue
            lo = None          # smallest n admitted on this path
            other = []
            for f in pi.cmp_facts():
                if f[0] in ("Gt", "Ge", "Lt", "Le", "Eq", "Ne") and f[1] == N and re.fullmatch(r"-?\d+", str(f[2])):
                    k = int(f[2])
                    if f[0] == "Gt":
                        lo = max(lo, k + 1) if lo is not None else k + 1
                    elif f[0] == "Ge":
                        lo = max(lo, k) if lo is not None else k
                    else:
                        other.append(f[:3])
            lows.add((lo, tuple(sorted(set(other)))))
        # every n >= 2 must yield a value (the statement's quantifier); below that a bound may be refused or served as long as the
        # range is non-empty (an empty one is C10's panic): the smallest admitted n lies in [c+1, max(2, c+1)]
        ok_lows = len(lows) == 1 and list(lows)[0][1] == () and list(lows)[0][0] is not None and c0 + 1 <= list(lows)[0][0] <= max(2, c0 + 1)
        chk.require(ok_lows, "GUARD", "GUARD:random:refused-only-when-the-range-is-empty", "a value is returned for every n >= %d (the range %d..n is non-empty from %d on)" % (max(2, c0 + 1), c0, c0 + 1),
                    "random() returns a value for (smallest admitted n, other conditions) = %s, but the range %d..n is non-empty from n = %d on: some valid bound is refused (or an empty range admitted)" % (sorted(lows, key=str), c0, c0 + 1), "%s:%d" % (fb.file, fb.line))
    rb = P.body(EC + "random")
    if chk.anchor("EvalContext::random", rb):
        cs = panrules.canon_calls(P, rb)
        gens = [c for c in cs if c[0] == "Rng::gen_range"]
        randcalls = [callee_name(t)[0] for bb, t in rb.calls() if callee_name(t)[0].startswith("rand::") or callee_name(t)[0].startswith("rand_")]
        chk.require(randcalls == ["rand::Rng::gen_range"], "CNT", "CNT:EvalContext::random:exactly-one-draw", "the only generator call is one gen_range", "EvalContext::random uses the generator through %s" % randcalls)
        chk.require(len(gens) == 1 and gens[0][1] == ["RefCell::borrow_mut(self.rng)", "range"], "CNT", "CNT:EvalContext::random:one-gen_range", "self.rng.borrow_mut().gen_range(range)", "EvalContext::random calls %s" % cs)
        r = set(canon(P.sl(rb).ret(x)) for x in P.cfg(rb).return_blocks())
        chk.require(r == {"Rng::gen_range(RefCell::borrow_mut(self.rng), range)"}, "ORG", "ORG:EvalContext::random:returns-the-draw", "", "EvalContext::random returns %s" % r)
        cyc = P.cfg(rb).cyclic_blocks()
        chk.require(not cyc, "CNT", "CNT:EvalContext::random:no-loop", "no rejection loop", "EvalContext::random contains a loop")
    callers = sorted(set(b.name for b, bb, nm in P.callers(lambda n: n == EC + "random")))
    chk.require(callers == [rnd[0][2]], "WHO", "WHO:EvalContext::random-callers", "only the function bound to \"random\"", "EvalContext::random called from %s" % callers)
    users = sorted(set(x[0].name for x in P.field_readers("eval_context::EvalContext", "rng")) | set(x[0].name for x in P.field_writers("eval_context::EvalContext", "rng")))
    allowed = {EC + "reset_random_seed", EC + "random"}
    chk.require(set(users) <= allowed, "WHO", "WHO:rng-users", str(users), "the generator is touched in %s" % sorted(set(users) - allowed))
    gen_callers = sorted(set(b.name for b, bb, nm in P.callers(lambda n: n.startswith("rand::") and "seed_from_u64" not in n)))
    chk.require(gen_callers == [EC + "random"], "WHO", "WHO:rand-api-callers", "only EvalContext::random draws", "rand API used in %s" % gen_callers)
    # seeding
    for (cb, bb, i, st) in P.constructors("eval_context::EvalContext"):
        f = {k: canon(v) for k, v in P.sl(cb).rvalue(st["rv"], bb, i)[3]}
        chk.require(cb.name == EC + "with_seed" and f.get("seed") == "seed" and f.get("rng") == "RefCell::new(SeedableRng::seed_from_u64(seed))", "ORG", "ORG:with_seed:stores-and-seeds-from-same-value", "EvalContext{rng: RefCell::new(seed_from_u64(seed)), seed}", "EvalContext built in %s with rng=%s seed=%s" % (cb.name, f.get("rng"), f.get("seed")))
    w = P.field_writers("eval_context::EvalContext", "seed")
    chk.require(not w, "WHO", "WHO:seed-unwritten", "seed is fixed at construction", "seed written in %s" % [x[0].name for x in w])
    rs = P.body(EC + "reset_random_seed")
    if chk.anchor("reset_random_seed", rs):
        vals = set()
        for bb in sorted(rs.reachable_blocks()):
            for i, st in enumerate(rs.blocks[bb]["stmts"]):
                if st["s"] == "assign" and any(isinstance(e, dict) and e.get("f") == "rng" for e in st["lhs"]["p"]):
                    vals.add(canon(P.sl(rs).rvalue(st["rv"], bb, i)))
        chk.require(vals == {"RefCell::new(SeedableRng::seed_from_u64(self.seed))"}, "ORG", "ORG:reset_random_seed:restarts-same-stream", "rng = RefCell::new(seed_from_u64(self.seed))", "reset_random_seed assigns %s" % vals)
    nb = P.body(EC + "new")
    if chk.anchor("EvalContext::new", nb):
        r = set(canon(P.sl(nb).ret(x)) for x in P.cfg(nb).return_blocks())
        chk.require(all(x.startswith("EvalContext::with_seed(") for x in r) and bool(r), "ORG", "ORG:new:goes-through-with_seed", "new() = with_seed(<OS seed>)", "EvalContext::new returns %s" % r)
    # the statement arm: exactly one reset and nothing else
    nwc = P.body(c01.NWC)
    if chk.anchor("next_with_context", nwc):
        eff = c01.ctx_effects(P, nwc)
        resets = [(bb, a) for bb, arm, e, a in eff if e == "reset_random_seed"]
        good = len(resets) == 1
        if good:
            arms = [a for a in pan.arm_context(nwc, resets[0][0], P.cfg(nwc)) if a.get("enum", "").endswith("Stmt")]
            good = bool(arms) and arms[0]["variants"] == ["ResetRandom"]
            same = [e for bb, arm, e, a in eff if bb != resets[0][0] and [x for x in pan.arm_context(nwc, bb, P.cfg(nwc)) if x.get("enum", "").endswith("Stmt") and x["variants"] == ["ResetRandom"]]]
            good = good and not same
        chk.require(good, "CNT", "CNT:ResetRandom:exactly-one-reset", "the ResetRandom arm calls reset_random_seed once and nothing else on the context", "reset_random_seed sites: %s" % resets)
    callers = sorted(set(b.name for b, bb, nm in P.callers(lambda n: n == EC + "reset_random_seed")))
    chk.require(callers == [c01.NWC], "WHO", "WHO:reset_random_seed-callers", "only the statement interpreter", "reset_random_seed called from %s" % callers)
    # no draw in the unselected ite branch
    ite = [t for t in tabl if t[0] == "ite"]
    if chk.anchor("table entry `ite`", ite):
        ib = P.body(ite[0][2])
        rows = set()
        for pi in tab.paths(P, ib, to_return_only=True):
            evals = tuple(canon(a[0]) for bb, nm, a in pi.calls() if nm == "expr::Expr::eval")
            rows.add(evals)
        chk.require(rows == {("args[0]", "args[1]"), ("args[0]", "args[2]"), ("args[0]",)}, "CNT", "CNT:ite:only-selected-branch-evaluated", "no evaluation (hence no draw) of the unselected branch", "ite evaluation sets: %s" % sorted(rows))
    one_context_rule(chk, P)
    from . import lexrules
    lexrules.spelling_rule(chk, P, ("ResetRandom", "Semi"))   # `resetRandom;` is spelled that way
    chk.not_decided = ["distribution and values of the draws; the numeric range contract of gen_range for bounds up to 2^62 (library, trusted)"]


CTOR_CALLERS = {
    EC + "with_seed": [EC + "new"],
    EC + "new": ["<eval_context::EvalContext as std::default::Default>::default", EC + "new_with_outputs"],
    EC + "new_with_outputs": ["data_row_iterator::DataRowIterator::try_new"],
}


def _fn_params(ty):
    """Parameter types of a `fn(..) -> ..` type string (top-level split)."""
    i = ty.find("fn(")
    if i < 0:
        return []
    depth, start, out = 0, i + 3, []
    for j in range(i + 3, len(ty)):
        ch = ty[j]
        if ch in "(<[":
            depth += 1
        elif ch in ")>]":
            if depth == 0:
                out.append(ty[start:j].strip())
                break
            depth -= 1
        elif ch == "," and depth == 0:
            out.append(ty[start:j].strip())
            start = j + 1
    return [x for x in out if x]


def one_context_rule(chk, P):
    """One generator per run: the iterator's context is created once (in try_new) and every evaluation, direct or through
    the function table, is handed that same context — the function's own context parameter, or the iterator's `ctx` field.
    (A virtual signal evaluated in a context of its own would draw from another generator, which resetRandom does not restart.)"""
    for ctor, want in sorted(CTOR_CALLERS.items()):
        callers = sorted(set(b.name for b, bb, nm in P.callers(lambda n, c=ctor: n == c)))
        chk.require(callers == sorted(want), "WHO", "WHO:context-constructed-once-per-iterator:%s" % ctor.split("::")[-1], "called only from %s" % want, "%s is called from %s" % (ctor, callers))
    lits = [cb.name for (cb, bb, i, st) in P.constructors("eval_context::EvalContext") if not cb.derived]
    chk.require(lits == [EC + "with_seed"], "WHO", "WHO:context-literal-only-in-with_seed", "", "EvalContext literals in %s" % lits)
    n, bad = 0, []
    for b in P.f.hand_bodies():
        if b.name in (EC + "new_with_outputs",):
            continue   # the constructor fills the context it is creating
        own = set()
        own_names = {"ctx", "self"}
        holder = b
        while holder is not None:   # a closure reads its parent's context parameter through a capture of the same name
            for i, l in enumerate(holder.locals[1:1 + holder.arg_count]):
                if re.match(r"^&('\w+ )?(mut )?eval_context::EvalContext$", l["ty"]):
                    own.add(i)
                    own_names.add(holder.local_name(1 + i))     # whatever the parameter is called (`_ctx` of a stub that got a body)
            holder = P.body(holder.parent) if holder.parent else None
        for bb, t in b.calls():
            fty = t["func"].get("ty", "") if isinstance(t.get("func"), dict) else ""
            params = _fn_params(fty)
            idx = [i for i, pty in enumerate(params) if re.match(r"^&('\w+ )?(mut )?eval_context::EvalContext$", pty)]
            if not idx:
                continue
            args = [canon(x) for x in P.call_arg_terms(b, bb)]
            for i in idx:
                n += 1
                a = args[i] if i < len(args) else None
                if a in own_names and own:
                    continue
                if a == "self.ctx" and b.name.startswith(("data_row_iterator::DataRowIterator::", "<data_row_iterator::DataRowIterator<T> as")):
                    continue
                bad.append((b.name, callee_name(t)[0], a))
    chk.require(not bad, "ORG", "ORG:one-context:every-evaluation-gets-the-run's-context", "%d context arguments: each is the caller's own context parameter or the iterator's ctx field" % n, "a context other than the run's is handed on at %s" % bad[:4])
    chk.floor("ORG", "context arguments", n, 30)
