"""Shared lexer rules: the spelling of the keywords and punctuation a property's statement names."""
from ..core import lexspec

KEYWORDS = {
    "End": "end", "Loop": "loop", "Repeat": "repeat", "Bits": "bits", "Let": "let", "While": "while",
    "ResetRandom": "resetRandom", "Declare": "declare",
}
PUNCT = {"Semi": ";", "Comma": ",", "LParen": "(", "RParen": ")", "Equal": "="}


def spelling_rule(chk, P, kinds):
    """Each named token kind is the one #[token] with exactly the documented spelling (case-sensitive, no callback),
    and no other kind of the body lexer has a pattern with that same literal."""
    spec = lexspec.load(P.f, "lexer::token::TokenKind")
    if not chk.anchor("TokenKind lexer specification", spec):
        return
    ref = dict(KEYWORDS)
    ref.update(PUNCT)
    for kind in kinds:
        want = ref[kind]
        ps = spec.patterns(kind)
        good = len(ps) == 1 and ps[0]["kind"] == "token" and ps[0]["src"] == want and not ps[0]["callbacks"]
        chk.require(good, "LEX", "LEX:spelling:%s" % kind, "#[token(%r)]" % want,
                    "token kind %s is lexed by %s, the language spells it %r" % (kind, [(p["kind"], p["src"], p["callbacks"]) for p in ps], want))
        others = [k for k, qs in spec.tokens.items() if k != kind and any(q["kind"] == "token" and q["src"] == want for q in qs)]
        chk.require(not others, "LEX", "LEX:spelling:%s:unique" % kind, "", "the spelling %r is also claimed by %s" % (want, others))


LITERALS = (("DecInt", "[1-9][0-9]*"), ("HexInt", "0[xX][0-9a-fA-F]+"), ("BinInt", "0[bB][01]+"), ("OctInt", "0[0-7]*"))


def literal_language_rule(chk, P):
    """An integer literal is one token however long its digit run is (unbounded repetition of exactly its digit class, after
    exactly its prefix): a literal that does not fit is then one over-long token that the checked conversion rejects — not
    a fitting literal followed by more tokens — and a digit of another radix or a letter ends it."""
    spec = lexspec.load(P.f, "lexer::token::TokenKind")
    if not chk.anchor("TokenKind lexer specification", spec):
        return
    for kind, rx in LITERALS:
        chk.require(spec.same_language(kind, rx), "LEX", "LEX:literal:%s" % kind, "language of %s == %s" % (kind, rx),
                    "the pattern of %s (%s) does not denote %s" % (kind, [p["src"] for p in spec.patterns(kind)], rx))
