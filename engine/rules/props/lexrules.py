"""Shared lexer rules: the spelling of the keywords and punctuation a property's statement names."""
from ..core import lexspec

KEYWORDS = {
    "End": "end", "Loop": "loop", "Repeat": "repeat", "Bits": "bits", "Let": "let", "While": "while",
    "ResetRandom": "resetRandom", "Declare": "declare",
}
PUNCT = {"Semi": ";", "Comma": ",", "LParen": "(", "RParen": ")", "Equal": "="}


def spelling_rule(chk, P, kinds):
    """Each named token kind is the one #[token] with exactly the documented spelling (case-sensitive, no callback),
    and no other kind of the body lexer has a pattern with that same literal."""
    spec = lexspec.load(P.f, "lexer::token::TokenKind")
    if not chk.anchor("TokenKind lexer specification", spec):
        return
    ref = dict(KEYWORDS)
    ref.update(PUNCT)
    for kind in kinds:
        want = ref[kind]
        ps = spec.patterns(kind)
        good = len(ps) == 1 and ps[0]["kind"] == "token" and ps[0]["src"] == want and not ps[0]["callbacks"]
        chk.require(good, "LEX", "LEX:spelling:%s" % kind, "#[token(%r)]" % want,
                    "token kind %s is lexed by %s, the language spells it %r" % (kind, [(p["kind"], p["src"], p["callbacks"]) for p in ps], want))
        others = [k for k, qs in spec.tokens.items() if k != kind and any(q["kind"] == "token" and q["src"] == want for q in qs)]
        chk.require(not others, "LEX", "LEX:spelling:%s:unique" % kind, "", "the spelling %r is also claimed by %s" % (want, others))
