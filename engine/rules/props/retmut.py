"""Shared rule: a value a rule reads off a function's return place is the value that was built.

The origin slice reads `let mut v = f(); v.retain(..); v` as `f()`: writes through a `&mut` borrow are not part of a
term.  For the functions that accumulate their result on purpose (push in a loop, sort before returning) the rules
look at the writes themselves; this rule closes the gap for everything else.  For every function whose return value
some rule of the running property has read, the locals on the way to the return place (moves, and operands of the
aggregates that wrap them) may be mutably borrowed only as confirmed on the reference tree: the table lists, per
function and local, which callees receive the `&mut` borrow."""
from ..core import terms
from ..core.facts import callee_name
from ..core.prog import short

CONFIRMED = {'data_row_iterator::DataRowIterator::try_new': {'test_data': ['DataRowIteratorTestData::build_output_indices']},
 'dig::File::parse': {'signals': ['[T]::iter_mut']},
 'errors::SignalError::with_source': {'self': ['<borrow kept>']},
 'eval_context::EvalContext::new_with_outputs': {'ctx': ['EvalContext::set_outputs']},
 'framed_map::FramedMap::flatten': {'values': ['HashMap::insert']},
 'parsed_test_case::ParsedTestCase::build_indices': {'expected_indices': ['Vec::push'], 'input_indices': ['Vec::push']},
 'parsed_test_case::ParsedTestCase::build_read_outputs': {'read_outputs': ['Vec::push']},
 'parsed_test_case::ParsedTestCase::with_signals': {'signals': ['Extend::extend']},
 'parser::HeaderParser::parse': {'signals': ['Vec::push'], 'spans': ['Vec::push']},
 'parser::Parser::finish': {'expected_inputs': ['[T]::sort_by'], 'read_outputs': ['[T]::sort_by'], 'virtual_signals': ['[T]::sort_by']},
 'parser::expr::<impl parser::Parser>::parse_factor': {'args': ['Vec::push']},
 'parser::stmt::<impl parser::Parser>::parse_data_row': {'data': ['Vec::push']},
 'parser::stmt::<impl parser::Parser>::parse_stmt_block': {'block': ['Vec::push']},
 'stmt::StmtIterator::next_with_context': {'entries': ['Extend::extend']}}


def returned_chain(b):
    S = {0}
    changed = True
    while changed:
        changed = False
        for blk in b.blocks:
            for st in blk["stmts"]:
                if st["s"] == "assign" and st["lhs"]["l"] in S:
                    rv = st["rv"]
                    ops = [rv["a"]] if rv["r"] in ("use", "cast") else (rv.get("ops") or [] if rv["r"] == "agg" else [])
                    for a in ops:
                        if isinstance(a, dict) and a.get("k") in ("move", "copy") and not a["p"] and a["l"] not in S:
                            S.add(a["l"])
                            changed = True
    return S


def mutations(b):
    """{local name: sorted callees that receive a `&mut` borrow of that local} for the locals on the way to the return place."""
    S = returned_chain(b)
    out = {}
    for bi, blk in enumerate(b.blocks):
        for st in blk["stmts"]:
            if st["s"] == "assign" and st["rv"]["r"] == "ref" and st["rv"].get("bk") == "mut":
                a = st["rv"]["a"]
                if a["l"] in S and not (a["p"] and a["p"][0] == "*"):
                    tmp = st["lhs"]["l"]
                    users = set()
                    work, seen = [tmp], set()
                    while work:
                        cur = work.pop()
                        if cur in seen:
                            continue
                        seen.add(cur)
                        for blk2 in b.blocks:
                            for st2 in blk2["stmts"]:   # a reborrow or move of the borrow
                                if st2["s"] == "assign" and not st2["lhs"]["p"] and st2["rv"]["r"] in ("use", "ref") and isinstance(st2["rv"]["a"], dict) and st2["rv"]["a"].get("l") == cur:
                                    work.append(st2["lhs"]["l"])
                            t = blk2["term"]
                            if t["t"] == "call" and any(isinstance(x, dict) and x.get("l") == cur and not x.get("p") for x in t["args"]):
                                nm = short(callee_name(t)[0])
                                if nm.endswith("deref_mut") or nm.endswith("as_mut") or nm.endswith("borrow_mut"):
                                    work.append(t["dest"]["l"])   # Vec -> slice: what is done with the slice counts
                                else:
                                    users.add(nm)
                    name = b.local_name(a["l"]) or "_%d" % a["l"]
                    out.setdefault(name, set()).update(users or {"<borrow kept>"})
    return {k: sorted(v) for k, v in out.items()}


def rule(chk, P, names):
    n = 0
    for nm in sorted(names):
        b = P.body(nm)
        if b is None or b.derived:
            continue
        got = mutations(b)
        want = CONFIRMED.get(nm, {})
        n += 1
        for loc, users in sorted(got.items()):
            extra = sorted(set(users) - set(want.get(loc, [])))
            chk.require(not extra, "MUT", "MUT:returned-value-is-the-value-built:%s:%s" % (nm, loc),
                        "modified only through %s, as confirmed" % want.get(loc, []),
                        "the value `%s` that %s returns is modified after it was built, through %s — a rule that reads the returned term does not see that write" % (loc, nm, extra),
                        "%s:%d" % (b.file, b.line))
    chk.ok("MUT", "MUT:returned-values-checked", "%d function(s) whose return value a rule of this property reads" % n, nontrivial=False)
