"""Shared rule: a value a rule reads off a function's return place is the value that was built.

The origin slice reads `let mut v = f(); v.retain(..); v` as `f()`: writes through a `&mut` borrow are not part of a
term.  For the functions that accumulate their result on purpose (push in a loop, sort before returning) the rules
look at the writes themselves; this rule closes the gap for everything else.  For every function whose return value
some rule of the running property has read, the locals on the way to the return place (moves, and operands of the
aggregates that wrap them) may be modified in place only as confirmed on the reference tree (core/mutab.py)."""
from ..core import terms
from ..core.facts import callee_name
from ..core.prog import short

def returned_chain(b):
    S = {0}
    changed = True
    while changed:
        changed = False
        for blk in b.blocks:
            for st in blk["stmts"]:
                if st["s"] == "assign" and st["lhs"]["l"] in S:
                    rv = st["rv"]
                    ops = [rv["a"]] if rv["r"] in ("use", "cast") else (rv.get("ops") or [] if rv["r"] == "agg" else [])
                    for a in ops:
                        if isinstance(a, dict) and a.get("k") in ("move", "copy") and not a["p"] and a["l"] not in S:
                            S.add(a["l"])
                            changed = True
    return S


def rule(chk, P, names):
    from ..core import mutab
    n = 0
    for nm in sorted(names):
        b = P.body(nm)
        if b is None or b.derived:
            continue
        n += 1
        chain = returned_chain(b)
        for l, writers in sorted(mutab.unconfirmed(b).items()):
            if l not in chain:
                continue
            loc = b.debug_names.get(l) or "<temp>"
            chk.fail("MUT", "MUT:returned-value-is-the-value-built:%s:%s" % (nm, loc),
                     "the value `%s` that %s returns is modified after it was built, through %s — a write the reference tree does not make (core/mutab.py); a rule that reads the returned term does not see it" % (loc, nm, writers),
                     "%s:%d" % (b.file, b.line))
    chk.ok("MUT", "MUT:returned-values-checked", "%d function(s) whose return value a rule of this property reads: none is modified in place other than as confirmed" % n, nontrivial=False)
