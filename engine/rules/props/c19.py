"""C19 — each row reports the source line it came from."""
import re
from ..core import pan, terms, tab, ordrules, lexspec
from ..core.facts import callee_name
from ..core.prog import canon, Prog
from . import panrules

PSB = "parser::stmt::<impl parser::Parser>::parse_stmt_block"
PDR = "parser::stmt::<impl parser::Parser>::parse_data_row"


def newline_exclusivity(chk, P):
    for enum in ("lexer::token::HeaderTokenKind", "lexer::token::TokenKind"):
        spec = lexspec.load(P.f, enum)
        if not chk.anchor("logos spec of %s" % enum, spec):
            continue
        chk.require(not spec.errors, "LEX", "LEX:%s:patterns-supported" % enum.split("::")[-1], "all patterns parsed", "unsupported logos patterns: %s" % spec.errors)
        ks = spec.kinds_containing("\n")
        chk.require(ks == ["Eol"] and spec.literal("Eol") == "\n", "LEX", "LEX:%s:newline-only-in-Eol" % enum.split("::")[-1], "the only pattern whose language contains '\\n' is Eol = \"\\n\"", "patterns that can contain a newline: %s (Eol literal %r)" % (ks, spec.literal("Eol")))
        cr = spec.kinds_containing("\r")
        chk.require(bool(cr) and all(spec.is_skipped(k) for k in cr if k != "Comment") and any(spec.is_skipped(k) and k != "Comment" for k in cr), "LEX", "LEX:%s:CR-is-skipped" % enum.split("::")[-1], "a carriage return is skipped blank space (CRLF == LF)", "'\\r' is matched by %s: it is not skipped as blank space" % (cr or "no pattern (it becomes an error token)"))
        chk.require(not spec.is_skipped("Eol"), "LEX", "LEX:%s:Eol-is-yielded" % enum.split("::")[-1], "Eol is a yielded token", "Eol is skipped by the lexer")


def counted_text_rule(chk, P, ctx):
    """The lines are counted over the very text the caller handed in: the lexer runs over the constructor's own `input`,
    parse() and from_str() hand their argument on untouched, and a test loaded from a .dig file is parsed from its public
    `source` field as it stands (no trimming, no offset) — the text the reported lines refer to."""
    hn = P.body("parser::HeaderParser::new")
    if chk.anchor("HeaderParser::new", hn):
        r = set(canon(P.resolve(hn, P.sl(hn).ret(rb))) for rb in P.cfg(hn).return_blocks())
        chk.require(r == {"parser::HeaderParser{input: input, iter: Logos::lexer(input), line: 1}"}, "ORG", "ORG:counted-text:header-lexer-runs-over-the-whole-input", "HeaderParser{input, iter: lexer(input), line: 1}", "HeaderParser::new builds %s" % sorted(r))
    pp = P.body("parsed_test_case::ParsedTestCase::parse")
    if chk.anchor("ParsedTestCase::parse", pp):
        args = [[canon(x) for x in P.call_arg_terms(pp, bb)] for bb, t in pp.calls() if callee_name(t)[0] == "parser::HeaderParser::new"]
        chk.require(args == [["input"]], "ORG", "ORG:counted-text:parse-hands-its-input-on", "HeaderParser::new(input)", "ParsedTestCase::parse starts the header parser on %s" % args)
        frm = [[canon(x) for x in P.call_arg_terms(pp, bb)][0] for bb, t in pp.calls() if callee_name(t)[0] == "parser::Parser::from"]
        chk.require(frm == ["HeaderParser::new(input)"], "ORG", "ORG:counted-text:body-parser-continues-the-same-lexer", "Parser::from(the header parser, ..)", "the body parser is built from %s" % frm)
    fs = P.body("<parsed_test_case::ParsedTestCase as std::str::FromStr>::from_str")
    if chk.anchor("FromStr for ParsedTestCase", fs):
        r = set(canon(P.resolve(fs, P.sl(fs).ret(rb))) for rb in P.cfg(fs).return_blocks())
        chk.require(r == {"ParsedTestCase::parse(input)"}, "ORG", "ORG:counted-text:from_str-forwards", "ParsedTestCase::parse(input)", "from_str returns %s" % sorted(r))
    from . import c16
    c16.run(chk.only(("TAB:load_test",)), ctx)


def line_counter_rules(chk, P):
    # who writes the two counters
    for owner, allowed in (("parser::HeaderParser", {"parser::HeaderParser::parse"}), ("parser::Parser", {"parser::Parser::get"})):
        w = sorted(set(x[0].name for x in P.field_writers(owner, "line")))
        chk.require(set(w) == allowed, "WHO", "WHO:%s.line-writers" % owner.split("::")[-1], str(w), "%s.line is written in %s, expected %s" % (owner, w, sorted(allowed)))
    # initial value and hand-over
    for (cb, bb, i, st) in P.constructors("parser::HeaderParser"):
        f = {k: canon(v) for k, v in P.sl(cb).rvalue(st["rv"], bb, i)[3]}
        chk.require(f.get("line") == "1", "ORG", "ORG:HeaderParser.line-starts-at-1", "line: 1", "HeaderParser starts with line = %s" % f.get("line"))
    n = 0
    for (cb, bb, i, st) in P.constructors("parser::Parser"):
        if cb.name != "parser::Parser::from":
            continue
        n += 1
        f = {k: canon(v) for k, v in P.sl(cb).rvalue(st["rv"], bb, i)[3]}
        chk.require(bool(re.fullmatch(r".*\.line", f.get("line", ""))) and f.get("line", "")[:-5] == f.get("input", "")[:-6], "ORG", "ORG:Parser.line-handed-over", "Parser{line: header_parser.line}", "Parser::from sets line = %s" % f.get("line"))
    chk.require(n == 1, "ANCHOR", "anchor:Parser::from", "", "Parser::from not found")
    # increments: exactly +1, on an Eol
    def increments(b, owner):
        out = []
        for bb in sorted(b.reachable_blocks()):
            for i, st in enumerate(b.blocks[bb]["stmts"]):
                if st["s"] == "assign" and any(isinstance(e, dict) and e.get("f") == "line" and e.get("of", "").startswith(owner) for e in st["lhs"]["p"]):
                    out.append((bb, canon(P.sl(b).rvalue(st["rv"], bb, i))))
        return out
    g = P.body("parser::Parser::get")
    if chk.anchor("Parser::get", g):
        inc = increments(g, "parser::Parser")
        good = len(inc) == 1 and inc[0][1] in ("AddWithOverflow(self.line, 1).0", "Add(self.line, 1)")
        if good:
            gd = panrules.guards_at(P, g, inc[0][0])
            good = any(x[0] == "Eq" and x[1] == "some!(Iterator::next(self.iter)).kind" and x[2] == "TokenKind::Eol{}" for x in gd) \
                or any(x[0] == "variant" and x[1] == "some!(Iterator::next(self.iter)).kind" and tuple(x[2]) == ("Eol",) for x in gd)    # `matches!(tok.kind, Eol)`
        if not good and len(inc) == 1 and inc[0][1] in ("AddWithOverflow(self.line, 1).0", "Add(self.line, 1)"):
            # `if matches!(tok.kind, Eol)` tests a flag set in the arms of a match: the kind test does not *dominate* the
            # increment block, but every path through it has decided `kind == Eol` (path-sensitive reading)
            _a, _b = sorted(["some!(Iterator::next(self.iter)).kind", "TokenKind::Eol{}"])
            through = [pi for pi in tab.paths(P, g, to_return_only=True) if inc[0][0] in pi.path]
            good = bool(through) and all(any(d[0] == "variant" and d[1] == "some!(Iterator::next(self.iter)).kind" and tuple(d[2]) == ("Eol",) for d in pi.decisions())
                                         or ("Eq(%s, %s)" % (_a, _b), True) in tab.path_facts(pi) for pi in through)
        chk.require(good, "GUARD", "GUARD:get:line+1-iff-consumed-Eol", "self.line += 1 exactly on the edge tok.kind == Eol", "Parser::get updates line as %s" % inc)
        # exact table: every feasible entry->return path, the facts it decides, how often it bumps the line
        incb = set(bb for bb, _ in inc)
        rows = set()
        NX, K, E = "variant(Iterator::next(self.iter))", "some!(Iterator::next(self.iter)).kind", "TokenKind::Eol{}"
        a, b_ = sorted([K, E])

        def _kind_test(f):
            # `tok.kind == Eol` and `matches!(tok.kind, Eol)` are one test
            if f[0] == "variant(%s)" % K and isinstance(f[1], tuple):
                if tuple(f[1]) == ("Eol",):
                    return ("Eq(%s, %s)" % (a, b_), True)
                if "Eol" not in f[1]:
                    return ("Ne(%s, %s)" % (a, b_), True)
            return f
        for pi in tab.paths(P, g, to_return_only=True):
            rows.add((frozenset(_kind_test(f) for f in tab.path_facts(pi)), sum(1 for bb in pi.path if bb in incb), ordrules.ret_shape(pi)))
        want = {(frozenset([(NX, ("None",))]), 0, "Err"),
                (frozenset([(NX, ("Some",)), ("Eq(%s, %s)" % (a, b_), True)]), 1, "Ok"),
                (frozenset([(NX, ("Some",)), ("Ne(%s, %s)" % (a, b_), True)]), 0, "Ok")}
        chk.require(rows == want, "TAB", "TAB:get:exact-line-table", "None -> Err, no bump; Some(Eol) -> one bump; Some(other) -> no bump; no other condition", "Parser::get behaves as %s" % sorted(rows, key=str))
    h = P.body("parser::HeaderParser::parse")
    if chk.anchor("HeaderParser::parse", h):
        inc = increments(h, "parser::HeaderParser")
        good = len(inc) == 1 and inc[0][1] in ("AddWithOverflow(self.line, 1).0", "Add(self.line, 1)")
        if good:
            arms = [a for a in pan.arm_context(h, inc[0][0], P.cfg(h)) if a.get("enum", "").endswith("HeaderTokenKind")]
            others = [a for a in pan.arm_context(h, inc[0][0], P.cfg(h)) if "cond" in a]
            good = bool(arms) and arms[0]["variants"] == ["Eol"] and not others
        chk.require(good, "GUARD", "GUARD:header:line+1-on-every-Eol", "self.line += 1 in the Eol arm, unconditionally (blank lines before the header count)", "HeaderParser::parse updates line as %s" % inc)
        hb = [bb for bb, t in h.calls() if callee_name(t)[0].endswith("Iterator>::next")]
        if chk.anchor("header loop", len(hb) == 1):
            incb = set(bb for bb, _ in inc)
            rows = set()
            for pi in tab.paths(P, h, start=hb[0]):
                last = pi.path[-1]
                tt = h.term(last)["t"]
                if tt == "unreachable":
                    continue
                how = "back" if pi.back is not None else ("return" if tt == "return" else "panic")
                tok = None
                for d in pi.decisions():
                    if d[0] == "variant" and d[1] in ("Iterator::next(self.iter)", "some!(Iterator::next(self.iter))", "ok!(some!(Iterator::next(self.iter)))"):
                        tok = d[2]
                other = frozenset(f for f in tab.path_facts(pi) if not f[0].startswith("variant("))
                rows.add((tok, other, sum(1 for bb in pi.path if bb in incb), how))
            EMP = "Vec::is_empty(Vec::new())"
            want = {(("None",), frozenset(), 0, "return"), (("Err",), frozenset(), 0, "panic"), (("WS",), frozenset(), 0, "panic"),
                    (("SignalName",), frozenset(), 0, "back"), (("SignalName",), frozenset(), 0, "return"),
                    (("Eol",), frozenset([(EMP, True)]), 1, "back"), (("Eol",), frozenset([(EMP, False)]), 1, "return")}
            chk.require(rows == want, "TAB", "TAB:header:exact-line-table", "per token of the header loop: Eol bumps the line once (and ends the header iff a name was seen); SignalName/None never bump; no other condition",
                        "HeaderParser::parse's loop behaves as %s" % sorted(rows, key=str))
    # peek never consumes: primitives verified by TKA (who touches iter)
    L = panrules.Lemmas(P, chk)
    T = L.tka()
    chk.require(bool(L._tka_prims), "TKA", "TKA:primitives", "get is the only consumer of the token iterator; peek/peek_span do not consume", "token primitives do not match their summaries")
    return L, T


def row_line_rules(chk, P, T):
    # parse_data_row returns with the terminating Eol/Eof unconsumed
    sums = [v for k, v in T.summaries.items() if k[0] == PDR and v is not None]
    good = bool(sums) and all(v[0] <= frozenset(["Eol", "Eof"]) and not v[1] for v in sums)
    chk.require(good, "TKA", "TKA:parse_data_row:stops-before-line-end", "Ok => next token in {Eol, Eof}, unconsumed", "parse_data_row may return Ok with next token in %s" % [sorted(v[0]) for v in sums])
    b = P.body(PSB)
    if not chk.anchor("parse_stmt_block", b):
        return
    cons = [c for c in P.constructors("stmt::Stmt::DataRow") if c[0] is b]
    chk.floor("ORG", "Stmt::DataRow constructors", len(cons), 2)
    cfg = P.cfg(b)
    for cb, bb, i, st in cons:
        f = {k: canon(v) for k, v in P.sl(cb).rvalue(st["rv"], bb, i)[3]}
        site = "%s:%d" % (b.file, st["span"]["line"])
        chk.require(f.get("line") == "self.line" and f.get("data") == "try(Parser::parse_data_row(self))", "ORG", "ORG:Stmt::DataRow.line=self.line", "DataRow{data: parse_data_row()?, line: self.line}", "Stmt::DataRow built with %s" % f, site)
        # no consuming call between the return of parse_data_row and the read of self.line
        calls = [cbb for cbb, t in b.calls() if callee_name(t)[0] == PDR and cfg.dominates(cbb, bb)]
        good = bool(calls)
        if good:
            start = max(calls, key=lambda x: len(cfg.dom_chain(x)))
            between = cfg.reach_from(b.term(start)["target"]) & set(x for x in b.reachable_blocks() if cfg.can_reach(x, {bb}))
            cons_calls = [callee_name(b.term(x))[0] for x in between if x != bb and b.term(x)["t"] == "call" and (callee_name(b.term(x))[0] in ("parser::Parser::get", "parser::Parser::skip", "parser::Parser::expect") or (T._is_parser_fn(callee_name(b.term(x))[0]) and callee_name(b.term(x))[0] not in ("parser::Parser::text", "parser::Parser::peek", "parser::Parser::peek_span", "parser::Parser::at")))]
            # the loop makes everything reachable; restrict to blocks dominated by the call and dominating... use path check instead
            cons_calls = []
            for pi in tab.paths(P, b, start=b.term(start)["target"], stop=lambda x: x == bb, limit=5000):
                if pi.path[-1] != bb or pi.back is not None:
                    continue
                for x in pi.path[:-1]:
                    t = b.term(x)
                    if t["t"] == "call":
                        nm = callee_name(t)[0]
                        if nm in ("parser::Parser::get", "parser::Parser::skip", "parser::Parser::expect") or (T._is_parser_fn(nm) and nm not in ("parser::Parser::text", "parser::Parser::peek", "parser::Parser::peek_span", "parser::Parser::at")):
                            cons_calls.append(nm)
            good = not cons_calls
        chk.require(good, "ORD", "ORD:Stmt::DataRow:line-read-before-newline-consumed", "no token is consumed between parse_data_row's return and the read of self.line", "tokens may be consumed (%s) before self.line is stored in the row" % (cons_calls if calls else "parse_data_row does not dominate the literal"), site)


def line_chain(chk, P):
    nwc = P.body("stmt::StmtIterator::next_with_context")
    if chk.anchor("next_with_context", nwc):
        for (cb, bb, i, st) in P.constructors("stmt::DataEntries"):
            if cb is nwc:
                f = {k: canon(v) for k, v in P.sl(cb).rvalue(st["rv"], bb, i)[3]}
                chk.require(bool(re.fullmatch(r"\(some!\(Iterator::next\(self\.stmt_iter\)\) as DataRow\)\.line", f.get("line", ""))), "ORG", "ORG:DataEntries.line=Stmt.line", "line: *line of the statement", "DataEntries.line = %s" % f.get("line"))
    w = P.field_writers("stmt::DataEntries", "line")
    chk.require(not w, "WHO", "WHO:DataEntries.line-unwritten", "expansion clones keep the line", "DataEntries.line written in %s" % [x[0].name for x in w])
    gr = P.body("data_row_iterator::DataRowIteratorTestData::get_row")
    if gr is not None:
        for (cb, bb, i, st) in P.constructors("data_row_iterator::EvaluatedRow"):
            f = {k: canon(v) for k, v in P.sl(cb).rvalue(st["rv"], bb, i)[3]}
            chk.require(f.get("line") == "Option::unwrap(Vec::pop(self.cache)).line", "ORG", "ORG:EvaluatedRow.line", "line of the popped row", "EvaluatedRow.line = %s" % f.get("line"))
    for (cb, bb, i, st) in P.constructors("DataRow"):
        f = {k: canon(v) for k, v in P.sl(cb).rvalue(st["rv"], bb, i)[3]}
        chk.require(f.get("line") == "self.line", "ORG", "ORG:DataRow.line", "DataRow{line: self.line}", "DataRow.line = %s" % f.get("line"))
    for (cb, bb, i, st) in P.constructors("static_test::StaticDataRow"):
        f = {k: canon(v) for k, v in P.sl(cb).rvalue(st["rv"], bb, i)[3]}
        chk.require(f.get("line") == "row.line", "ORG", "ORG:StaticDataRow.line", "StaticDataRow{line: row.line}", "StaticDataRow.line = %s" % f.get("line"))
    w = P.field_writers("data_row_iterator::EvaluatedRow", "line") + P.field_writers("DataRow", "line")
    chk.require(not w, "WHO", "WHO:row-line-unwritten", "", "row line fields written in %s" % [x[0].name for x in w])


def run(chk, ctx):
    P = Prog(ctx["facts"])
    from .iter_rules import plumbing_rule
    plumbing_rule(chk, P, {"ParsedTestCase": ("stmts",), "TestCase": ("stmts",), "DataRowIteratorTestData": ("iter",)})   # what the parser / the binding produced is what runs
    from . import eqrules
    eqrules.require_clone(chk, P, ["stmt::DataEntries"], "expansion copies keep the row's line")
    chk.explanation = ("C19 decided structurally: WHO/GUARD (the two line counters start at 1, are handed over unchanged, and are incremented by exactly 1 only in the header loop's Eol arm and in the consume primitive on the edge tok.kind == Eol; "
                       "the consume primitive is the only consumer of the token iterator), LEX (in both lexers the only pattern whose language contains '\\n' is Eol = \"\\n\": CR, blanks and comments cannot count or swallow a newline), "
                       "TKA + ORD (parse_data_row returns with the terminating Eol/Eof unconsumed and Stmt::DataRow reads self.line before any further token is consumed, for plain and repeat rows), "
                       "ORG (Stmt.line -> DataEntries.line -> EvaluatedRow.line -> DataRow.line -> StaticDataRow.line by copies only; expansion clones keep it).")
    chk.trusted = ["logos: '\\n' always lexes as Eol (longest match among patterns that can start with it: only Eol)"]
    newline_exclusivity(chk, P)
    counted_text_rule(chk, P, ctx)
    L, T = line_counter_rules(chk, P)
    L.need("TKA")
    row_line_rules(chk, P, T)
    line_chain(chk, P)
