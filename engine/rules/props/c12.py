"""C12 — malformed programs are rejected, never silently accepted."""
import re
from ..core import pan, terms, tab, ordrules
from ..core.facts import callee_name
from ..core.prog import canon, Prog
from . import panrules, c08, c19

PSB = "parser::stmt::<impl parser::Parser>::parse_stmt_block"
PDR = "parser::stmt::<impl parser::Parser>::parse_data_row"
PF = "parser::expr::<impl parser::Parser>::parse_factor"
PE = "parser::expr::<impl parser::Parser>::parse_expr"
PN = "parser::expr::<impl parser::Parser>::parse_number"
NONTERM = {PSB: "block", PDR: "row", PE: "expr", PN: "number", PF: "factor"}


def kind_of(c):
    m = re.fullmatch(r"(?:lexer::token::)?TokenKind::(\w+)\{\}", c)
    return m.group(1) if m else c


def dispatch_switch(P, b):
    """The production dispatch of a parser loop: among the switches on the kind returned by `peek()`, the one with the most
    arms (a loop guard such as `while !matches!(self.peek(), Eol | Eof)` is also a switch on peek(), with two targets)."""
    cfg = P.cfg(b)
    best = None
    for bb in cfg.rpo():
        t = b.term(bb)
        if t["t"] == "switch":
            d = terms.strip(P.operand_term(b, bb, t["discr"]))
            if d[0] == "discr" and canon(d[1]) == "Parser::peek(self)":
                n = len(set(k for _, k in t["targets"]) | {t["otherwise"]})
                if best is None or n > best[0]:
                    best = (n, bb)
    return best[1] if best else None


def post_statement_join(P, b):
    """The block that starts the post-statement test in parse_stmt_block: `at(Eof)` or — the same test spelled as a `match` —
    a `peek()` other than the statement dispatch's own."""
    disp_peek = None
    dsw = dispatch_switch(P, b)
    if dsw is not None:
        d = terms.strip(P.operand_term(b, dsw, b.term(dsw)["discr"]))
        if len(terms.strip(d[1])) > 3:
            disp_peek = terms.strip(d[1])[3]
    J = [bb for bb, t in b.calls() if callee_name(t)[0] == "parser::Parser::at" and kind_of(canon(P.call_arg_terms(b, bb)[1])) in ("Eof", "Eol")]
    J += [bb for bb, t in b.calls() if callee_name(t)[0] == "parser::Parser::peek" and bb != disp_peek]
    # the test starts at the first of these (the one that dominates the others): `at(Eof)` then `at(Eol)`, or the other way round
    cfg = P.cfg(b)
    first = [j for j in J if all(cfg.dominates(j, k) for k in J)]
    return first if first else J


def next_kinds(pi, all_kinds):
    """What the path has established about the kind of the next token: `at(K)` tests and switches on `peek()` alike
    (valid up to the first consuming call, which is where the post-statement paths end)."""
    ks = set(all_kinds)
    for f in pi.cmp_facts():
        if f[0] == "call" and f[1] == "Parser::at":
            k = kind_of(f[2][1])
            ks = ks & {k} if f[3] else ks - {k}
    for d in pi.decisions():
        if d[0] == "variant" and d[1] == "Parser::peek(self)":
            ks &= set(d[2])
    return frozenset(ks)


def trace_of(P, b, pi):
    out = []
    for bb, nm, a in pi.calls():
        if nm == "parser::Parser::skip":
            out.append("skip")
        elif nm == "parser::Parser::get":
            out.append("get")
        elif nm == "parser::Parser::expect":
            out.append(kind_of(canon(a[1])))
        elif nm in NONTERM:
            if nm == PSB:
                arg = canon(a[1])
                m = re.fullmatch(r"Option::Some\{0: (.*)\}", arg)
                out.append("<block:%s>" % (kind_of(m.group(1)) if m else arg))
            else:
                out.append("<%s>" % NONTERM[nm])
        elif nm not in LOOKAHEAD:
            cb = P.body(nm)
            if cb is not None and cb.arg_count and re.match(r"^&mut parser::Parser\b", cb.locals[1]["ty"]) and _depth[0] < 3:
                # another method of the parser (a helper the confirmed tree does not have): what it consumes on its
                # Ok paths is part of the caller's trace; one unambiguous sequence is spliced in, anything else is named
                _depth[0] += 1
                try:
                    sub = set()
                    for pj in tab.paths(P, cb, to_return_only=True, limit=2000):
                        if not pj.feasible():
                            continue
                        r = canon(pj.ret())
                        if r.startswith("Result::Err") or r.startswith("FromResidual::from_residual") or "from_residual(" in r[:60]:
                            continue
                        sub.add(trace_of(P, cb, pj))
                finally:
                    _depth[0] -= 1
                if len(sub) == 1:
                    out.extend(next(iter(sub)))
                else:
                    out.append("<call:%s:%d-traces>" % (nm.split("::")[-1], len(sub)))
    return tuple(out)


LOOKAHEAD = ("parser::Parser::peek", "parser::Parser::peek_span", "parser::Parser::at", "parser::Parser::text", "parser::Parser::finish")
_depth = [0]


def arm_traces(P, b, stop_bb):
    """{arm kinds: set(traces)} for Ok paths from the dispatch on peek() to stop_bb."""
    cfg = P.cfg(b)
    # the dispatch: switch on discriminant of Parser::peek(self) nearest to entry (outermost)
    disp = dispatch_switch(P, b)
    if disp is None:
        return None, None
    vs = pan._variants_of_discr(b, b.term(disp)["discr"], disp)
    by_target = {}
    t = b.term(disp)
    for val, tgt in t["targets"]:
        by_target.setdefault(tgt, []).append(next(v["name"] for v in vs if v["discr"] == val))
    listed = set(v for v, _ in t["targets"])
    by_target.setdefault(t["otherwise"], []).extend(v["name"] for v in vs if v["discr"] not in listed)
    out = {}
    for tgt, kinds in by_target.items():
        traces = set()
        for pi in tab.paths(P, b, start=tgt, stop=lambda x: x == stop_bb, limit=20000):
            if pi.path[-1] != stop_bb or pi.back is not None:
                continue
            traces.add(trace_of(P, b, pi))
        out[tuple(sorted(kinds))] = traces
    return out, disp


def loop_header(P, b, inside):
    """Header (block with a predecessor outside) of the loop containing block `inside`."""
    cfg = P.cfg(b)
    for comp in cfg.sccs():
        if inside in comp and len(comp) > 1:
            cs = set(comp)
            hs = [x for x in comp if any(p not in cs for p in b.preds(x))]
            return hs[0] if hs else None
    return None


def block_rules(chk, P):
    b = P.body(PSB)
    if not chk.anchor("parse_stmt_block", b):
        return
    cfg = P.cfg(b)
    # J: the post-statement test
    J = post_statement_join(P, b)
    if not chk.anchor("post-statement end-of-input test", len(J) == 1 and J):
        return
    J = J[0]
    arms, disp = arm_traces(P, b, J)
    if not chk.anchor("statement dispatch on peek()", arms):
        return
    ROW = ("BinInt", "Bits", "DecInt", "HexInt", "Ident", "LParen", "OctInt")
    want = {
        ("Loop",): {("skip", "LParen", "Ident", "Comma", "<expr>", "RParen", "Eol", "<block:Loop>")},
        ("Repeat",): {("skip", "LParen", "<expr>", "RParen", "<row>")},
        ("Let",): {("skip", "Ident", "Equal", "<expr>", "Semi")},
        ("ResetRandom",): {("skip", "Semi")},
        ("While",): {("skip", "LParen", "<expr>", "RParen", "Eol", "<block:While>")},
        ("Declare",): {("skip", "Ident", "Equal", "<expr>", "Semi")},
        tuple(sorted(ROW)): {("<row>",)},
        ("Eol",): {()},
    }
    for kinds, w in want.items():
        got = arms.get(kinds)
        chk.require(got == w, "GTE", "GTE:stmt:%s" % "|".join(kinds if len(kinds) < 3 else ("row",)), "%s" % sorted(w), "statement starting with %s consumes %s on its Ok paths, grammar says %s" % (list(kinds), sorted(got) if got is not None else "(no such arm)", sorted(w)), "%s:%d" % (b.file, b.term(disp)["span"]["line"]))
    # every other arm must not reach the post-statement point (error or block exit)
    extra = {k: v for k, v in arms.items() if k not in want and v}
    chk.require(not extra, "GTE", "GTE:stmt:no-other-accepting-arm", "all remaining token kinds end in an error or a block exit", "token kinds %s are accepted as statements consuming %s" % ([list(k) for k in extra], [sorted(v) for v in extra.values()]))
    chk.floor("GTE", "statement productions", len([k for k in want if arms.get(k)]), 8)
    # post-statement: Eof -> back to the dispatch without consuming; Eol -> consume it; anything else -> Err
    post = set()
    head = loop_header(P, b, disp)
    ALLK = frozenset(v["name"] for v in (pan._variants_of_discr(b, b.term(disp)["discr"], disp) or []))
    for pi in tab.paths(P, b, start=J, stop=lambda x: x == head):
        ks = next_kinds(pi, ALLK)
        cls = "Eof" if ks == {"Eof"} else "Eol" if ks == {"Eol"} else "other" if ks and not (ks & {"Eof", "Eol"}) else "|".join(sorted(ks))[:60]
        cons = trace_of(P, b, pi)
        if pi.path[-1] == head:
            end = "loop"
        elif pi.back is None and b.term(pi.path[-1])["t"] == "return":
            end = ordrules.ret_shape(pi)
        else:
            continue
        if not ks:
            continue    # contradictory kind tests: not a path of the program
        if cls == "Eol" and cons in (("get",), ("Eol",)):
            cons = ("skip",)   # with an Eol known to be next, get() / expect(Eol) consume exactly what skip() does
        post.add((cls, cons, end))
    want_post = {("Eof", (), "loop"), ("Eol", ("skip",), "loop"), ("other", ("get",), "Err")}
    bad = [p for p in post if p[2] == "loop" and p not in want_post] + [p for p in post if p[0] not in ("Eof", "Eol") and p[2] != "Err"]
    want_post = set(w for w in want_post if w in post or w[0] != "Eof")   # an explicit top-level exit at Eof is judged by the block-exit rule
    chk.require(not bad and want_post <= post, "GTE", "GTE:stmt:must-be-followed-by-newline-or-end", "after a statement: Eof -> dispatch; Eol -> consumed; anything else -> Err", "post-statement behaviour (next token, consumed, then): %s" % sorted(post, key=str)[:8])
    # block exits: every path from a statement arm that returns Ok
    t = b.term(disp)
    vs = pan._variants_of_discr(b, t["discr"], disp)
    by_target = {}
    for val, tgt in t["targets"]:
        by_target.setdefault(tgt, []).append(next(v["name"] for v in vs if v["discr"] == val))
    listed = set(v for v, _ in t["targets"])
    by_target.setdefault(t["otherwise"], []).extend(v["name"] for v in vs if v["discr"] not in listed)
    seen = set()
    nexits = 0
    for tgt, kinds in sorted(by_target.items()):
        for pi in tab.paths(P, b, start=tgt, stop=lambda x: x == head, limit=50000):
            if pi.path[-1] == head or pi.back is not None or b.term(pi.path[-1])["t"] != "return" or ordrules.ret_shape(pi) != "Ok":
                continue
            nexits += 1
            site = "%s:%d" % (b.file, b.term(tgt)["span"]["line"])
            dec = pi.decisions()
            if kinds == ["End"]:
                some = any(d[0] == "variant" and d[1] == "end_token" and d[2] == ("Some",) for d in dec)
                exp = any(d[0] == "variant" and d[1] == "Try::branch(Parser::expect(self, some!(end_token)))" and d[2] == ("Continue",) for d in dec)
                tr = trace_of(P, b, pi)
                chk.require(some and exp and tr == ("skip", "some!(end_token)"), "ORD", "ORD:block-exit:End-arm-consumed-`end <kw>`", "Ok exit in the End arm: context Some(k), skip `end`, expect(k)?", "a block can end in the End arm without having consumed `end <keyword>` of its own kind (trace %s)" % (tr,), site)
                seen.add("End")
            elif kinds == ["Eof"]:
                top = any(f[0] == "call" and f[1] == "Option::is_some" and f[2] == ("end_token",) and f[3] is False for f in pi.cmp_facts())
                chk.require(top, "ORD", "ORD:block-exit:Eof-only-at-top-level", "Ok exit in the Eof arm only when end_token is None", "a nested block can end at end-of-input: the Eof arm returns Ok without end_token being None", site)
                seen.add("Eof")
            elif (any(f[0] == "call" and f[1] == "Option::is_some" and f[2] == ("end_token",) and f[3] is False for f in pi.cmp_facts()) or any(d[0] == "variant" and d[1] == "end_token" and d[2] == ("None",) for d in dec)) \
                    and J in pi.path and next_kinds(tab.PathInfo(P, b, pi.path[pi.path.index(J):]), ALLK) == {"Eof"}:
                chk.ok("ORD", "ORD:block-exit:post-statement-Eof-at-top-level", "Ok exit after a statement at end of input, guarded by end_token == None", site)
            else:
                chk.fail("ORD", "ORD:block-exit:unexpected:%s" % "|".join(kinds[:3]), "after a statement starting with %s the block can return Ok without the End/Eof arms deciding: an unterminated nested block (input cut off, with or without a final newline) is accepted" % kinds[:4], site)
    chk.require(seen == {"End", "Eof"}, "ORD", "ORD:block-exit:both-regular-exits-present", "%d Ok-exit path(s), all through the End / Eof arms" % nexits, "regular block exits found: %s" % sorted(seen))
    # `end` at top level is an error
    rows = set()
    for bb, t in b.calls():
        pass
    for (cb, bb, i, st) in P.constructors("errors::ParseErrorKind::UnexpectedEndAtTopLevel"):
        if cb is b:
            g = panrules.guards_at(P, b, bb)
            ac = [a for a in pan.arm_context(b, bb, cfg) if a.get("enum", "").endswith("TokenKind") and canon(a["on"]) == "Parser::peek(self)"]
            rows.add((tuple(ac[-1]["variants"]) if ac else None, any(x[0] == "variant" and x[1] == "end_token" and x[2] == ("None",) for x in g)))
    # semantic form: in the End arm with end_token None every path returns Err
    end_none = set()
    for pi in tab.paths(P, b, to_return_only=True, limit=100000) if False else ():
        pass
    t = b.term(disp)
    vs = pan._variants_of_discr(b, t["discr"], disp)
    end_tgt = [tgt for val, tgt in t["targets"] if next(v["name"] for v in vs if v["discr"] == val) == "End"]
    if chk.anchor("End arm", end_tgt):
        shapes = set()
        for pi in tab.paths(P, b, start=end_tgt[0], limit=20000):
            d = [x[2] for x in pi.decisions() if x[0] == "variant" and x[1] == "end_token"]
            if d and d[0] == ("None",):
                if pi.back is not None:
                    shapes.add("continues")
                elif b.term(pi.path[-1])["t"] == "return":
                    shapes.add(ordrules.ret_shape(pi))
        chk.require(shapes == {"Err"}, "GTE", "GTE:End-at-top-level-is-error", "End arm with end_token == None always returns Err", "`end` at top level leads to %s" % sorted(shapes))


def row_rules(chk, P, L):
    b = P.body(PDR)
    if not chk.anchor("parse_data_row", b):
        return
    cfg = P.cfg(b)
    # entry productions: traces from the dispatch back to the loop head
    disp = dispatch_switch(P, b)
    if not chk.anchor("row dispatch", disp is not None):
        return
    vs = pan._variants_of_discr(b, b.term(disp)["discr"], disp)
    t = b.term(disp)
    head = loop_header(P, b, disp)
    by_target = {}
    for val, tgt in t["targets"]:
        by_target.setdefault(tgt, []).append(next(v["name"] for v in vs if v["discr"] == val))
    listed = set(v for v, _ in t["targets"])
    by_target.setdefault(t["otherwise"], []).extend(v["name"] for v in vs if v["discr"] not in listed)
    got = {}
    for tgt, kinds in by_target.items():
        traces = set()
        for pi in tab.paths(P, b, start=tgt, stop=lambda x: x == head, limit=20000):
            if pi.path[-1] != head:
                continue
            traces.add(trace_of(P, b, pi))
        got[tuple(sorted(kinds))] = traces
    want = {("LParen",): {("skip", "<expr>", "RParen")}, ("Bits",): {("skip", "LParen", "<number>", "Comma", "<expr>", "RParen")}, ("Ident",): {("get",)},
            ("BinInt", "DecInt", "HexInt", "OctInt"): {("<number>",)}}
    for k, w in want.items():
        chk.require(got.get(k) == w, "GTE", "GTE:row-entry:%s" % "|".join(k), str(sorted(w)), "row entry starting with %s consumes %s, grammar says %s" % (list(k), sorted(got.get(k, [])), sorted(w)))
    extra = {k: v for k, v in got.items() if k not in want and v}
    chk.require(not extra, "GTE", "GTE:row-entry:no-other-entry", "", "token kinds %s are accepted as row entries" % [list(k) for k in extra])
    # the loop ends only on Eol | Eof (unconsumed)
    L.need("ROWWIDTH", only=("row-Ok-only-with-header-width", "push-advance", "parse_data_row-anchor"))   # the parser half: an accepted row has header width
    L.need("BITS")
    # C/X/Z only
    errs = [bb for (cb, bb, i, st) in P.constructors("errors::ParseErrorKind::ExpectedCXZ") if cb is b]
    chk.require(len(errs) == 1, "GTE", "GTE:row-entry:other-identifiers-rejected", "an identifier other than c/x/z is an error", "%d ExpectedCXZ sites" % len(errs))


def factor_rules(chk, P, L):
    L.need("FUNC")
    pf = P.body(PF)
    if not chk.anchor("parse_factor", pf):
        return
    rows = set()
    for pi in tab.paths(P, pf, to_return_only=True, limit=50000):
        k = [d[2] for d in pi.decisions() if d[0] == "variant" and d[1] == "Parser::peek(self)"]
        if not k or k[0] != ("Ident",):
            continue
        isfn = [f[3] for f in pi.cmp_facts() if f[0] == "call" and f[1] == "Parser::at" and kind_of(f[2][1]) == "LParen"]
        look = [d[2] for d in pi.decisions() if d[0] == "variant" and d[1].startswith("FuncTable::get(")]
        arity = [f[0] for f in pi.cmp_facts() if f[0] in ("Eq", "Ne") and f[1].startswith("Vec::len(") and ".number_of_args" in f[2]]
        sh = ordrules.ret_shape(pi)
        if any(d[0] == "variant" and d[2] == ("Break",) for d in pi.decisions()):
            continue
        rows.add((isfn[0] if isfn else None, look[0] if look else None, arity[0] if arity else None, sh))
    want = {(True, ("None",), None, "Err"), (True, ("Some",), "Ne", "Err"), (True, ("Some",), "Eq", "Ok"), (False, None, None, "Ok")}
    chk.require(rows == want, "GUARD", "GUARD:parse_factor:unknown-function-and-arity", "name( : unknown => Err; arity mismatch => Err; else Ok(Func); plain identifier => Ok(Variable)", "identifier factor rows (is-call, lookup, arity, result): %s" % sorted(rows, key=str))
    # argument list: '(' expr { ',' expr } ')'
    seqs = set()
    for bb, t in pf.calls():
        if callee_name(t)[0] == "parser::Parser::expect":
            ac = [a for a in pan.arm_context(pf, bb, P.cfg(pf)) if a.get("enum", "").endswith("TokenKind") and canon(a["on"]) == "Parser::peek(self)"]
            if ac and ac[-1]["variants"] == ["Ident"]:
                seqs.add(kind_of(canon(P.call_arg_terms(pf, bb)[1])))
    chk.require(seqs == {"RParen"}, "GTE", "GTE:call:closing-paren", "argument list closed by expect(RParen)", "call arm expects %s" % seqs)
    # the argument loop continues iff the next token is a comma
    cfg = P.cfg(pf)
    loops = [f for f in [None]]
    its = set()
    skips = [bb for bb, t in pf.calls() if callee_name(t)[0] == "parser::Parser::skip" and bb in cfg.cyclic_blocks()]
    hd = loop_header(P, pf, skips[0]) if skips else None
    if chk.anchor("argument loop", hd is not None):
        for pi in tab.paths(P, pf, start=hd, limit=50000):
            if pi.back != hd:
                continue
            tr = trace_of(P, pf, pi)
            commas = [f[3] for f in pi.cmp_facts() if f[0] == "call" and f[1] == "Parser::at" and kind_of(f[2][1]) == "Comma"]
            its.add((tr, commas[-1] if commas else None))
        chk.require(its == {(("skip", "<expr>"), True)}, "GTE", "GTE:call:arguments-separated-by-commas", "loop { skip; expr; if !at(Comma) break }: another iteration iff the next token is a comma", "argument loop iterations: %s" % sorted(its, key=str))


def header_rules(chk, P):
    h = P.body("parser::HeaderParser::parse")
    if not chk.anchor("HeaderParser::parse", h):
        return
    rows = set()
    for pi in tab.paths(P, h):
        if pi.back is not None or h.term(pi.path[-1])["t"] != "return":
            continue
        d = [(x[1], x[2]) for x in pi.decisions() if x[0] == "variant"]
        arm = None
        for s_, v in d:
            if s_.startswith("ok!(some!(Iterator::next(self.iter)))") or "HeaderTokenKind" in s_:
                arm = v
        nxt = [v for s_, v in d if s_ == "Iterator::next(self.iter)"]
        tok = [v for s_, v in d if s_ == "ok!(some!(Iterator::next(self.iter)))"]
        rows.add((nxt[-1] if nxt else None, tok[-1] if tok else None, ordrules.ret_shape(pi)))
    oks = [r for r in rows if r[2] == "Ok"]
    chk.require(bool(oks) and all(r[1] == ("Eol",) for r in oks), "GTE", "GTE:header:Ok-only-at-line-break", "the header is returned only from the Eol arm", "header Ok returns: %s" % sorted(oks, key=str))
    chk.require(all(r[2] == "Err" for r in rows if r[0] == ("None",)) and any(r[0] == ("None",) for r in rows), "GTE", "GTE:header:end-of-input-is-error", "lexer exhaustion before the line break => Err", "header rows: %s" % sorted(rows, key=str))
    # Ok requires a non-empty header
    for (cb, bb, i, st) in P.constructors("std::result::Result::Ok"):
        if cb is h:
            g = panrules.guards_at(P, h, bb)
            chk.require(any(x[0] == "call" and x[1] == "Vec::is_empty" and x[3] is False for x in g), "GUARD", "GUARD:header:non-empty", "Ok only with at least one signal name", "header Ok not guarded by !signals.is_empty()")
    # exact behaviour of one trip of the header loop
    hb = [bb for bb, t in h.calls() if callee_name(t)[0].endswith("Iterator>::next")]
    if chk.anchor("header loop header", len(hb) == 1):
        rows2 = set()
        for fs, eff, how in tab.iteration_table(P, h, hb[0], effects=lambda nm: nm in ("std::vec::Vec::push",)):
            if how == "unreachable":
                continue
            tok = None
            for f in fs:
                if f[0] in ("variant(Iterator::next(self.iter))", "variant(some!(Iterator::next(self.iter)))", "variant(ok!(some!(Iterator::next(self.iter))))") and f[1] not in (("Some",), ("Ok",)):
                    tok = f[1]
            other = frozenset(f for f in fs if f[0] not in ("variant(Iterator::next(self.iter))", "variant(some!(Iterator::next(self.iter)))", "variant(ok!(some!(Iterator::next(self.iter))))"))
            rows2.add((tok, other, eff, how))
        POS = "variant(Iterator::position([T]::iter(Vec::new()), closure({closure#0})))"
        EMP = "Vec::is_empty(Vec::new())"
        want2 = {(("None",), frozenset(), (), "return:Err"), (("Err",), frozenset(), (), "panic"), (("WS",), frozenset(), (), "panic"),
                 (("SignalName",), frozenset([(POS, ("Some",))]), (), "return:Err"),
                 (("SignalName",), frozenset([(POS, ("None",))]), ("Vec::push(Vec::new(), Into::into(Lexer::slice(self.iter)))", "Vec::push(Vec::new(), Lexer::span(self.iter))"), "back"),
                 (("Eol",), frozenset([(EMP, True)]), (), "back"), (("Eol",), frozenset([(EMP, False)]), (), "return:Ok")}
        chk.require(rows2 == want2, "TAB", "TAB:header:exact-loop-table", "name: new => push (name, span), repeated => Err; line break: header complete iff a name was seen, else keep going; end of input => Err; nothing else",
                    "the header loop behaves as %s" % sorted(rows2, key=str))
    # duplicate names: push only on the position == None edge
    pushes = [bb for bb, t in h.calls() if callee_name(t)[0] == "std::vec::Vec::push"]
    good = bool(pushes)
    for bb in pushes:
        arms = [a for a in pan.arm_context(h, bb, P.cfg(h)) if a.get("enum", "").endswith("Option") and "Iterator::position(" in canon(a["on"])]
        if not arms or arms[0]["variants"] != ["None"]:
            good = False
    chk.require(good, "GUARD", "GUARD:header:duplicate-name-is-error", "names are pushed only on the position(..) == None edge; Some => Err", "a header name can be pushed although it is already present")
    cl = P.body(h.name + "::{closure#0}")
    if cl is not None:
        pt = tab.predicate_table(P, cl)
        chk.require(len(pt) == 1 and list(pt)[0][1].startswith("PartialEq<&B> for &A>::eq(elem([T]::iter(Vec::new())), ") and "Lexer::slice(self.iter)" in list(pt)[0][1], "TAB", "TAB:header:duplicate-test-compares-names", "|n| n == &name", "duplicate test is %s" % sorted(pt, key=str))


def declare_rule(chk, P):
    b = P.body(PSB)
    if b is None:
        return
    ins = [bb for bb, t in b.calls() if callee_name(t)[0] == "std::collections::HashMap::insert" and canon(P.call_arg_terms(b, bb)[0]) == "self.virtual_signals"]
    if not chk.anchor("virtual_signals.insert", len(ins) == 1 and ins):
        return
    rows = set()
    J = post_statement_join(P, b)
    for pi in tab.paths(P, b, start=ins[0], stop=lambda x: x in J, limit=20000):
        d = [x[2] for x in pi.decisions() if x[0] == "variant" and x[1].startswith("HashMap::insert(self.virtual_signals")]
        if not d:
            continue
        if pi.path[-1] in J:
            end = "continues"
        elif pi.back is None and b.term(pi.path[-1])["t"] == "return":
            end = ordrules.ret_shape(pi)
        else:
            continue
        rows.add((d[0], end))
    good = all(e == "Err" for v, e in rows if v == ("Some",)) and any(v == ("Some",) for v, e in rows) and all(e != "Err" or True for v, e in rows)
    chk.require(good, "GUARD", "GUARD:declare:duplicate-name-is-error", "insert(..) == Some(previous) => Err", "duplicate declare handling: %s" % sorted(rows, key=str))


def run(chk, ctx):
    P = Prog(ctx["facts"])
    L = panrules.Lemmas(P, chk)
    chk.explanation = ("C12 decided by grammar-trace extraction (GTE) over the parser's CFG: for every statement / row-entry / factor production the set of terminal and non-terminal sequences consumed on Ok paths is extracted (skip = the peeked kind, expect(k) = k, sub-parsers as non-terminals) and compared with the reference grammar written from the property; "
                       "ORD on block exits (a block can return Ok only from the End arm in context Some(k) after expect(k), or from the Eof arm at top level — with or without a trailing newline these are the only exits; `end` at top level is an error), "
                       "GUARD (row width equality and per-entry column advance; bits <= 64; unknown function / arity; duplicate header and declare names; header only at a line break), ORG (literal value is the `?`-propagated result of i64::from_str_radix).")
    chk.trusted = ["TKA summaries of the token primitives (verified against their bodies)", "i64::from_str_radix rejects values that do not fit"]
    L.need("TKA")
    block_rules(chk, P)
    from . import lexrules
    lexrules.spelling_rule(chk, P, ("Loop", "While", "End", "Bits", "Declare", "LParen", "RParen", "Comma", "Semi"))
    lexrules.literal_language_rule(chk, P)   # "an integer literal that does not fit in 64 bits": the whole digit run is one token
    row_rules(chk, P, L)
    factor_rules(chk, P, L)
    header_rules(chk, P)
    declare_rule(chk, P)
    # literal that does not fit: value is the `?`-propagated result of from_str_radix
    pn = P.body(PN)
    if chk.anchor("parse_number", pn):
        oks = set()
        for pi in tab.paths(P, pn, to_return_only=True):
            if ordrules.ret_shape(pi) == "Ok":
                oks.add(canon(terms.strip(pi.ret())[3][0][1]))
            else:
                r_ = canon(pi.ret())
                if re.fullmatch(r"Result::map_err\(i64::from_str_radix\(.*\), closure\(\{closure#0\}\)\)", r_):
                    oks.add("try(%s)" % r_)    # the conversion's own Result returned as it is: Ok(n) is its Ok(n)
                elif ordrules.ret_shape(pi) != "Err":
                    oks.add(r_)                 # any other value that may be Ok(..) must be accounted for
        chk.require(bool(oks) and all(re.fullmatch(r"try\(Result::map_err\(i64::from_str_radix\(.*\), closure\(\{closure#0\}\)\)\)", o) for o in oks), "ORG", "ORG:parse_number:value-is-checked-conversion", "Ok(n) only with n = i64::from_str_radix(..)?", "parse_number Ok values: %s" % sorted(oks))
