"""C08 — expressions: C-like precedence, 64-bit two's-complement arithmetic, lazy ite."""
import re
from ..core import pan, terms, tab, ordrules, lexspec
from ..core.facts import callee_name
from ..core.prog import canon, Prog
from . import panrules

PREC = "parser::binoptree::<impl expr::BinOp>::precedence"
ADD = "parser::binoptree::BinOpTree::add"
PE = "parser::expr::<impl parser::Parser>::parse_expr"
PF = "parser::expr::<impl parser::Parser>::parse_factor"
PN = "parser::expr::<impl parser::Parser>::parse_number"

SPELLING = {"+": "Plus", "-": "Minus", "*": "Times", "/": "Divide", "%": "Reminder", "<<": "ShiftLeft", ">>": "ShiftRight", "&": "And", "^": "Xor", "|": "Or",
            "<": "LessThan", ">": "GreaterThan", "<=": "LessThanOrEqual", ">=": "GreaterThanOrEqual", "=": "Equal", "!=": "NotEqual"}
UNARY_SPELLING = {"-": "Minus", "!": "LogicalNot", "~": "BinaryNot"}
LEVELS = [{"Times", "Divide", "Reminder"}, {"Plus", "Minus"}, {"ShiftLeft", "ShiftRight"}, {"And"}, {"Xor"}, {"Or"},
          {"LessThan", "GreaterThan", "LessThanOrEqual", "GreaterThanOrEqual"}, {"Equal", "NotEqual"}]

# accepted result terms per operator over (left, right); anything else is reported
BIN_ACCEPT = {
    "Equal": {"(Eq(left, right) as i64)", "(Eq(right, left) as i64)"},
    "NotEqual": {"(Ne(left, right) as i64)", "(Ne(right, left) as i64)"},
    "GreaterThan": {"(Gt(left, right) as i64)", "(Lt(right, left) as i64)"},
    "LessThan": {"(Lt(left, right) as i64)", "(Gt(right, left) as i64)"},
    "GreaterThanOrEqual": {"(Ge(left, right) as i64)", "(Le(right, left) as i64)"},
    "LessThanOrEqual": {"(Le(left, right) as i64)", "(Ge(right, left) as i64)"},
    "Or": {"BitOr(left, right)", "BitOr(right, left)"},
    "Xor": {"BitXor(left, right)", "BitXor(right, left)"},
    "And": {"BitAnd(left, right)", "BitAnd(right, left)"},
    "ShiftLeft": {"i64::wrapping_shl(left, (right as u32))", "i64::wrapping_shl(left, (BitAnd(right, 63) as u32))", "Shl(left, BitAnd(right, 63))"},
    "ShiftRight": {"i64::wrapping_shr(left, (right as u32))", "i64::wrapping_shr(left, (BitAnd(right, 63) as u32))", "Shr(left, BitAnd(right, 63))"},
    "Plus": {"i64::wrapping_add(left, right)", "i64::wrapping_add(right, left)", "i64::overflowing_add(left, right).0"},
    "Minus": {"i64::wrapping_sub(left, right)", "i64::overflowing_sub(left, right).0"},
    "Times": {"i64::wrapping_mul(left, right)", "i64::wrapping_mul(right, left)", "i64::overflowing_mul(left, right).0"},
    "Divide": {"i64::wrapping_div(left, right)", "i64::overflowing_div(left, right).0"},
    "Reminder": {"i64::wrapping_rem(left, right)", "i64::overflowing_rem(left, right).0"},
}
UN_ACCEPT = {"Minus": {"i64::wrapping_neg(val)", "i64::wrapping_sub(0, val)", "i64::overflowing_neg(val).0"},
             "LogicalNot": {"(Eq(val, 0) as i64)", "(Eq(0, val) as i64)"}, "BinaryNot": {"Not(val)"}}


def parse_number_rule(chk, P):
    """Every literal kind is converted by the one checked i64 conversion of its digits (prefix skipped) in its radix:
    the value and the accept/reject verdict of a number do not depend on how it is written."""
    pn = P.body(PN)
    if chk.anchor("parse_number", pn):
        rows = {}
        for pi in tab.paths(P, pn, to_return_only=True):
            k = [d[2] for d in pi.decisions() if d[0] == "variant" and d[1] == "try(Parser::get(self)).kind"]
            if not k or ordrules.ret_shape(pi) == "Err":
                continue
            if ordrules.ret_shape(pi) == "Ok":
                r = canon(terms.strip(pi.ret())[3][0][1])
            else:
                # the converted Result returned as a whole (`conv.map_err(..)` without `?`)
                r = "try(%s)" % canon(pi.ret())
            m = re.fullmatch(r"try\(Result::map_err\(i64::from_str_radix\((.*), (\d+)\), closure\(\{closure#\d+\}\)\)\)", r)
            if not m:
                rows[k[0]] = r
                continue
            src = m.group(1)
            skip = 0
            m2 = re.fullmatch(r"Index<I> for str>::index\(Parser::text\(self, try\(Parser::get\(self\)\)\), ops::RangeFrom\{start: (\d+)\}\)", src)
            if m2:
                skip = int(m2.group(1))
            elif src != "Parser::text(self, try(Parser::get(self)))":
                skip = "?" + src
            for kn in k[0]:
                rows[kn] = (int(m.group(2)), skip)
        want = {"DecInt": (10, 0), "HexInt": (16, 2), "BinInt": (2, 2), "OctInt": (8, 0)}
        chk.require(rows == want, "TAB", "TAB:parse_number:radix-and-prefix", str(rows), "literal kinds are converted as %s, expected %s" % (rows, want), "%s:%d" % (pn.file, pn.line))


def operand_evaluation_rule(chk, P):
    """Strict evaluation: every operand of a unary / binary node is evaluated exactly once, left before right, on every
    path (no short-circuit); function nodes go through the table (shared with C17: a draw inside an operand is
    made exactly when the expression is evaluated)."""
    ev = P.body("expr::Expr::eval")
    if chk.anchor("Expr::eval", ev):
        rows = {}
        for pi in tab.paths(P, ev, to_return_only=True):
            v = [d[2] for d in pi.decisions() if d[0] == "variant" and d[1] == "self"]
            if not v:
                continue
            if any(d[0] == "variant" and d[2] == ("Break",) for d in pi.decisions()):
                continue
            evals = tuple(canon(a[0]) for bb, nm, a in pi.calls() if nm == "expr::Expr::eval")
            rc = canon(pi.ret())
            m_ = re.fullmatch(r"Result::map\((Expr::eval\(.*\)), closure\((\{closure#\d+\})\)\)", rc)
            if m_:
                # `e.eval(ctx).map(|v| f(v))` is `Ok(f(e.eval(ctx)?))`: the closure's value with its parameter read as the Ok payload
                cl_ = P.body(ev.name + "::" + m_.group(2))
                if cl_ is not None:
                    cr = set(canon(P.resolve(cl_, P.sl(cl_).ret(rb))) for rb in P.cfg(cl_).return_blocks())
                    if len(cr) == 1:
                        rc = "Result::Ok{0: %s}" % list(cr)[0].replace("elem(%s)" % m_.group(1), "try(%s)" % m_.group(1))
            rows.setdefault(v[0], set()).add((evals, rc))
        want = {("Number",): {((), "Result::Ok{0: (self as Number).0}")},
                ("UnaryOp",): {((("(self as UnaryOp).expr"),), "Result::Ok{0: UnaryOp::eval((self as UnaryOp).op, try(Expr::eval((self as UnaryOp).expr, ctx)))}")},
                ("BinOp",): {(("(self as BinOp).left", "(self as BinOp).right"), "BinOp::eval((self as BinOp).op, try(Expr::eval((self as BinOp).left, ctx)), try(Expr::eval((self as BinOp).right, ctx)))")}}
        unwrap = lambda r: r[len("Result::Ok{0: "):-1] if r.startswith("Result::Ok{0: ") and r.endswith("}") else r
        for k, w in want.items():
            g = set((e, unwrap(r)) for e, r in rows.get(k, set()))
            w = set((e, unwrap(r)) for e, r in w)
            chk.require(g == w, "CNT", "CNT:Expr::eval:%s" % k[0], "operands evaluated once, left before right", "Expr::%s evaluates as %s" % (k[0], sorted(g, key=str)))
        fr = [r for e, r in rows.get(("Func",), set())]
        chk.require(bool(fr) and all(re.fullmatch(r"\(Option::expect\(FuncTable::get\(.*, \(self as Func\)\.name\), '[^']*'\)\.f\)\(ctx, Deref::deref\(\(self as Func\)\.args\)\)|\(Option::expect\(FuncTable::get\(.*, \(self as Func\)\.name\), '[^']*'\)\.f\)\(ctx, \(self as Func\)\.args\)", r) for r in fr), "ORG", "ORG:Expr::eval:Func-dispatch", "(FUNC_TABLE.get(name).f)(ctx, args)", "Expr::Func dispatches as %s" % fr)
    fg = P.body("expr::FuncTable::get")
    if chk.anchor("FuncTable::get", fg):
        r = set(canon(P.sl(fg).ret(rb)) for rb in P.cfg(fg).return_blocks())
        cl = P.body(fg.name + "::{closure#0}")
        pt = tab.predicate_table(P, cl) if cl else set()
        chk.require(r == {"Iterator::find([T]::iter(self.entries), closure({closure#0}))"} and pt == {(frozenset(), "PartialEq<&B> for &A>::eq(elem([T]::iter(self.entries)).name, name)")}, "TAB", "TAB:FuncTable::get:by-name", "entries.iter().find(|e| e.name == name)", "FuncTable::get is %s / %s" % (r, sorted(pt, key=str)))


def run(chk, ctx):
    P = Prog(ctx["facts"])
    from .iter_rules import plumbing_rule
    plumbing_rule(chk, P, {"ParsedTestCase": ("stmts",), "TestCase": ("stmts",), "DataRowIteratorTestData": ("iter",)})   # what the parser / the binding produced is what runs
    chk.explanation = ("C08 decided clause by clause: LEX+TAB (operator spellings: the #[token] literal of each operator kind composed with From<TokenKind> for BinOp/UnaryOp), TAB (precedence compared as an ordered partition, so renumbering is not an alarm), "
                       "GUARD+ORG on BinOpTree::add (descend into `right` iff new.precedence() < cur.precedence(), strictly; otherwise wrap the whole old node as the left child) with the hand invariant of DESIGN.md, the feeding loop of parse_expr, and the role-preserving conversion to Expr, "
                       "callee identity in parse_factor (unary operand parsed by parse_factor, parentheses by parse_expr + ')'), TAB+term per operator (the arm's result over (left, right) must be in the accepted wrapping / masking / comparison set; division only under right != 0), "
                       "CNT/ORD on Expr::eval (left then right, each once) and on ite (condition once, exactly the selected branch), TAB+LEX on literals (kind -> radix and prefix; regex languages equal to the reference; from_str_radix with `?`). "
                       "The accepted terms are the definition of the reference semantics; the tree-building clause rests on the stated hand invariant.")
    chk.trusted = ["rustc MIR; semantics of i64::wrapping_* / from_str_radix (exact, case-insensitive digits)", "logos longest-match"]
    spec = lexspec.load(P.f, "lexer::token::TokenKind")
    # 1. spellings
    for enum_name, ref in (("expr::BinOp", SPELLING), ("expr::UnaryOp", UNARY_SPELLING)):
        fn = [n for n in P.f.bodies if n.endswith("From<lexer::token::TokenKind> for %s>::from" % enum_name)]
        if not chk.anchor("From<TokenKind> for %s" % enum_name, fn):
            continue
        vt = tab.variant_table(P, P.body(fn[0]), subject="value")
        got = {}
        for kind, rs in vt.items():
            rs = set(r for r in rs if r != "!panic")
            if not rs:
                continue
            lit = spec.literal(kind) if spec else None
            for r in rs:
                m = re.fullmatch(r"%s::(\w+)\{\}" % enum_name.split("::")[-1], r)
                got[lit if lit is not None else "?" + kind] = m.group(1) if m else r
        chk.require(got == ref, "LEX+TAB", "TAB:spelling->%s" % enum_name.split("::")[-1], "%d spellings match the reference" % len(got), "operator spellings differ: %s" % {k: (got.get(k), ref.get(k)) for k in set(got) | set(ref) if got.get(k) != ref.get(k)})
    # 2. precedence as ordered partition
    pb = P.body(PREC)
    if chk.anchor("BinOp::precedence", pb):
        vt = tab.variant_table(P, pb, subject="self")
        vals = {}
        okv = True
        for v, rs in vt.items():
            if len(rs) != 1 or not re.fullmatch(r"\d+", list(rs)[0]):
                okv = False
            else:
                vals.setdefault(int(list(rs)[0]), set()).add(v)
        levels = [vals[k] for k in sorted(vals)]
        chk.require(okv and levels == LEVELS, "TAB", "TAB:precedence:ordered-partition", "8 levels, tightest first: %s" % [sorted(l) for l in levels], "precedence levels (tightest first) are %s, expected %s" % ([sorted(l) for l in levels], [sorted(l) for l in LEVELS]), "%s:%d" % (pb.file, pb.line))
    # 3. tree building
    ab = P.body(ADD)
    if chk.anchor("BinOpTree::add", ab):
        rows = set()
        for pi in tab.paths(P, ab, to_return_only=True):
            v = [d[2] for d in pi.decisions() if d[0] == "variant" and d[1] == "self"]
            cmp_ = sorted(set((f[0], f[1], f[2]) for f in pi.cmp_facts() if f[0] in ("Lt", "Ge") and f[1].startswith("BinOp::precedence(new_op")))
            calls = [(nm.split("::")[-1], [canon(x) for x in a]) for bb, nm, a in pi.calls() if nm in (ADD, "std::mem::replace")]
            rows.add((v[0] if v else None, tuple(cmp_), tuple((c, tuple(a)) for c, a in calls)))
        cur = "BinOp::precedence((self as BinOp).op)"
        want = {(("BinOp",), (("Lt", "BinOp::precedence(new_op)", cur),), (("add", ("(self as BinOp).right", "new_op", "new_expr")),)),
                (("BinOp",), (("Ge", "BinOp::precedence(new_op)", cur),), (("replace", ("self", "parser::binoptree::BinOpTree::Dummy{}")),)),
                (("Atom", "Dummy"), (), (("replace", ("self", "parser::binoptree::BinOpTree::Dummy{}")),))}
        norm = set((v, c, tuple((n, tuple(x.replace("BinOpTree::Dummy{}", "parser::binoptree::BinOpTree::Dummy{}") if x.endswith("Dummy{}") and not x.startswith("parser") else x for x in a)) for n, a in cl)) for v, c, cl in rows)
        chk.require(norm == want, "GUARD", "GUARD:add:descend-right-iff-strictly-tighter", "descend into right iff new.precedence() < cur.precedence(); else replace the node", "BinOpTree::add paths: %s" % sorted(norm, key=str), "%s:%d" % (ab.file, ab.line))
        # the re-assigned node
        built = set()
        for bb in sorted(ab.reachable_blocks()):
            for i, st in enumerate(ab.blocks[bb]["stmts"]):
                if st["s"] == "assign" and st["lhs"]["l"] == 1 and st["lhs"]["p"] == ["*"]:
                    built.add(canon(P.sl(ab).rvalue(st["rv"], bb, i)))
        want_b = {"BinOpTree::BinOp{op: new_op, left: Box::new(mem::replace(self, BinOpTree::Dummy{})), right: Box::new(BinOpTree::Atom{0: new_expr})}"}
        chk.require(built == want_b, "ORG", "ORG:add:new-node-wraps-whole-old-node", "*self = BinOp{op: new, left: <old node>, right: Atom(new_expr)}", "*self is re-assigned as %s" % built)
    fb = [n for n in P.f.bodies if n.endswith("From<parser::binoptree::BinOpTree> for expr::Expr>::from")]
    if chk.anchor("From<BinOpTree> for Expr", fb):
        vt = tab.variant_table(P, P.body(fb[0]), subject="value")
        want = {"Atom": {"(value as Atom).0"}, "BinOp": {"Expr::BinOp{op: (value as BinOp).op, left: Box::new(Into::into((value as BinOp).left)), right: Box::new(Into::into((value as BinOp).right))}"}, "Dummy": {"!panic"}}
        chk.require(vt == want, "ORG", "ORG:BinOpTree->Expr:roles-kept", "op/left/right keep their roles", "conversion table is %s" % vt)
    pe = P.body(PE)
    if chk.anchor("parse_expr", pe):
        # loop iteration: peek, is_binary_op, get, into, parse_factor, add
        seqs = set()
        cfg = P.cfg(pe)
        for pi in tab.paths(P, pe):
            names = tuple(nm.split("::")[-1] for bb, nm, a in pi.calls() if nm.startswith("parser::") or nm.endswith("::into"))
            if pi.back is not None:
                seqs.add(("iter",) + names)
            elif pe.term(pi.path[-1])["t"] == "return" and ordrules.ret_shape(pi) == "Ok":
                seqs.add(("ok",) + names)
        it = [s for s in seqs if s[0] == "iter"]
        good = bool(it) and all(s[-6:] == ("peek", "is_binary_op", "get", "into", "parse_factor", "add") for s in it)
        chk.require(good, "ORD", "ORD:parse_expr:left-to-right-feeding", "factor; while peek().is_binary_op() { get; parse_factor; add }", "parse_expr iteration call orders: %s" % sorted(it))
        for bb, t in pe.calls():
            if callee_name(t)[0] == ADD:
                a = [canon(x) for x in P.call_arg_terms(pe, bb)]
                chk.require(a[1] == "Into::into(try(Parser::get(self)).kind)" and a[2] == "try(Parser::parse_factor(self))", "ORG", "ORG:parse_expr:add-arguments", "add(op of the consumed token, the next factor)", "tree.add receives %s" % a[1:])
        oks = set(canon(pi.ret()) for pi in tab.paths(P, pe, to_return_only=True) if ordrules.ret_shape(pi) == "Ok")
        chk.require(oks == {"Result::Ok{0: Into::into(parser::binoptree::BinOpTree::Atom{0: try(Parser::parse_factor(self))})}"} or oks == {"Result::Ok{0: Into::into(BinOpTree::Atom{0: try(Parser::parse_factor(self))})}"}, "ORG", "ORG:parse_expr:returns-the-converted-tree", "Ok(tree.into()) with tree seeded by the first factor", "parse_expr returns %s" % sorted(oks))
    pf = P.body(PF)
    if chk.anchor("parse_factor", pf):
        arms = {}
        for pi in tab.paths(P, pf, to_return_only=True):
            if ordrules.ret_shape(pi) != "Ok":
                continue
            k = [d[2] for d in pi.decisions() if d[0] == "variant" and d[1] == "Parser::peek(self)"]
            names = tuple(nm.split("::")[-1] for bb, nm, a in pi.calls() if nm.startswith("parser::") and not nm.endswith("::text"))
            arms.setdefault(k[0] if k else None, set()).add((names, canon(terms.strip(pi.ret())[3][0][1])))
        un = arms.get(("Minus", "LogicalNot", "BinaryNot"), set())
        want_un = {(("peek", "skip", "parse_factor", "from"), "Expr::UnaryOp{op: From<lexer::token::TokenKind> for expr::UnaryOp>::from(Parser::peek(self)), expr: Box::new(try(Parser::parse_factor(self)))}")}
        chk.require(un == want_un, "ORD", "ORD:parse_factor:unary-binds-tightest", "unary operator: skip; operand = parse_factor (not parse_expr)", "unary arm is %s" % sorted(un, key=str))
        par = arms.get(("LParen",), set())
        want_par = {(("peek", "skip", "parse_expr", "expect"), "try(Parser::parse_expr(self))")}
        chk.require(par == want_par, "ORD", "ORD:parse_factor:parentheses", "( expr ): skip; parse_expr; expect(RParen)", "parenthesis arm is %s" % sorted(par, key=str))
        for bb, t in pf.calls():
            if callee_name(t)[0] == "parser::Parser::expect":
                arm = [a for a in pan.arm_context(pf, bb, P.cfg(pf)) if a.get("enum", "").endswith("TokenKind") and canon(a["on"]) == "Parser::peek(self)"]
                if arm and arm[-1]["variants"] == ["LParen"]:
                    a = [canon(x) for x in P.call_arg_terms(pf, bb)]
                    chk.require(a[1] == "TokenKind::RParen{}", "ORG", "ORG:parse_factor:closing-paren", "expect(RParen)", "the parenthesis arm expects %s" % a[1])
    # 5. per-operator semantics
    be = P.body("expr::BinOp::eval")
    if chk.anchor("BinOp::eval", be):
        got = {}
        for pi in tab.paths(P, be, to_return_only=True):
            v = [d[2] for d in pi.decisions() if d[0] == "variant" and d[1] == "self"]
            r = terms.strip(pi.ret())
            sh = ordrules.shape_of(r)
            if sh == "Err":
                continue
            val = r[3][0][1] if (r[0] == "agg" and sh == "Ok") else r
            facts_ = set((f[0], f[1], f[2]) for f in pi.cmp_facts())
            for vn in (v[0] if v else ("*",)):
                got.setdefault(vn, set()).add((canon(val), ("Ne", "right", "0") in facts_))
        for op, acc in BIN_ACCEPT.items():
            g = got.get(op, set())
            terms_ = set(t for t, nz in g)
            good = bool(terms_) and terms_ <= acc
            if op in ("Divide", "Reminder"):
                good = good and all(nz for t, nz in g)
            chk.require(good, "TAB", "TAB:BinOp::eval:%s" % op, "%s%s" % (sorted(terms_), " under right != 0" if op in ("Divide", "Reminder") else ""), "operator %s: unrecognised or non-wrapping implementation %s (accepted: %s)" % (op, sorted(g), sorted(acc)), "%s:%d" % (be.file, be.line))
        extra = set(got) - set(BIN_ACCEPT) - {"*"}
        chk.require(not extra, "TAB", "TAB:BinOp::eval:no-unknown-operator", "", "operators without a reference: %s" % sorted(extra))
        # raw (un-nested) Result path: plain return of the value is accepted too
    ue = P.body("expr::UnaryOp::eval")
    if chk.anchor("UnaryOp::eval", ue):
        vt = tab.variant_table(P, ue, subject="self")
        for op, acc in UN_ACCEPT.items():
            g = set(x[len("Result::Ok{0: "):-1] if x.startswith("Result::Ok{0: ") else x for x in vt.get(op, set()))
            chk.require(bool(g) and g <= acc, "TAB", "TAB:UnaryOp::eval:%s" % op, str(sorted(g)), "unary %s: unrecognised or non-wrapping implementation %s (accepted: %s)" % (op, sorted(g), sorted(acc)), "%s:%d" % (ue.file, ue.line))
    # overflow asserts must not guard these functions' arithmetic
    for fn in ("expr::BinOp::eval", "expr::UnaryOp::eval"):
        b = P.body(fn)
        if b is not None:
            asserts = [b.term(bb)["msg"]["ak"] + "(%s)" % b.term(bb)["msg"].get("op", "") for bb in b.reachable_blocks() if b.term(bb)["t"] == "assert" and not b.term(bb)["msg"]["ak"].startswith("UB")]
            chk.require(not asserts, "TAB", "TAB:%s:no-trapping-arithmetic" % fn.split("::")[-2], "no Overflow/Division Assert in the body", "%s contains trapping arithmetic: %s" % (fn, sorted(set(asserts))))
    # 6. evaluation of operands
    operand_evaluation_rule(chk, P)
    # 7. lazy ite
    L = panrules.Lemmas(P, chk)
    tabl = L.func_table() or []
    ite = [t for t in tabl if t[0] == "ite"]
    if chk.anchor("table entry `ite`", ite):
        ib = P.body(ite[0][2])
        rows = set()
        for pi in tab.paths(P, ib, to_return_only=True):
            evals = tuple(canon(a[0]) for bb, nm, a in pi.calls() if nm == "expr::Expr::eval")
            z = [f for f in pi.cmp_facts() if f[0] in ("Eq", "Ne") and f[1] == "try(Expr::eval(args[0], ctx))" and f[2] == "0"]
            rows.add((evals, z[0][0] if z else None, canon(pi.ret())))
        want = {(("args[0]", "args[1]"), "Ne", "Expr::eval(args[1], ctx)"), (("args[0]", "args[2]"), "Eq", "Expr::eval(args[2], ctx)"), (("args[0]",), None, "FromResidual::from_residual(break!(Try::branch(Expr::eval(args[0], ctx))))")}
        chk.require(rows == want and ite[0][1] == 3, "CNT", "CNT:ite:lazy", "condition once; != 0 => exactly args[1]; == 0 => exactly args[2]", "ite evaluates as %s" % sorted(rows, key=str), "%s:%d" % (ib.file, ib.line))
    # 8. literals
    parse_number_rule(chk, P)
    if spec is not None:
        for kind, rx in (("DecInt", "[1-9][0-9]*"), ("HexInt", "0[xX][0-9a-fA-F]+"), ("BinInt", "0[bB][01]+"), ("OctInt", "0[0-7]*")):
            chk.require(spec.same_language(kind, rx), "LEX", "LEX:literal:%s" % kind, "language of %s == %s" % (kind, rx), "the pattern of %s (%s) does not denote %s" % (kind, [p["src"] for p in spec.patterns(kind)], rx))
    chk.not_decided = ["that the parser builds the right tree for every expression is decided as table + insertion-rule shape + the hand invariant (precedence strictly decreases down the right spine; left subtrees are complete), not by enumerating expressions"]
