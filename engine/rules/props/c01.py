"""C01 — control flow and variables determine exactly which rows run, and in what order.

AUT: the resumable interpreter `StmtIterator::next_with_context` is extracted as an
automaton (states = variants of the dispatched state field; edges = acyclic paths
from a state's arm back to the dispatch or to a return, with guards, ordered
effects, next state and exit shape).  States are classified by what their edges
do, never by name.  The per-construct obligations 1-10 of DESIGN.md are decided
on the automaton; the structural induction that makes them sufficient is written
once, by hand, in DESIGN.md."""
import re
from ..core import pan, terms, tab, ordrules
from ..core.facts import callee_name
from ..core.prog import canon, Prog

NWC = "stmt::StmtIterator::next_with_context"
EC = "eval_context::EvalContext::"
FM = "framed_map::FramedMap::"
EFFECTS = (EC, "expr::Expr::eval", "stmt::DataEntry::eval", NWC, "<std::slice::Iter<T> as std::iter::Iterator>::next", "stmt::LoopState::take", "stmt::WhileState::take")


# ---- helpers kept for other modules ------------------------------------------------------
def state_arms(P, b):
    cfg = P.cfg(b)
    out = {}
    for bb in b.reachable_blocks():
        arms = [a for a in pan.arm_context(b, bb, cfg) if a.get("enum", "").endswith("StmtIteratorState") and canon(a["on"]) == "self.inner_state"]
        if arms:
            out[bb] = tuple(arms[-1]["variants"])
    return out


def ctx_effects(P, b):
    arms = state_arms(P, b)
    out = []
    for bb, t in b.calls():
        nm = callee_name(t)[0]
        if nm.startswith(EC):
            out.append((bb, arms.get(bb), nm.split("::")[-1], [canon(x) for x in P.call_arg_terms(b, bb)]))
    return out


# ---- automaton extraction ---------------------------------------------------------------------
def norm(s):
    if not isinstance(s, str):
        return "?%r" % (s,)   # a plain-boolean fact has no right-hand side
    s = re.sub(r"\(self\.inner_state as \w+\)", "ST", s)
    s = s.replace("some!(Iterator::next(self.stmt_iter))", "STMT")
    s = re.sub(r"(LoopState|WhileState)::take\(([^()]*)\)", r"\2", s)   # take() moves the payload
    return s


class Automaton:
    def __init__(self, P, b):
        self.P, self.b = P, b
        cfg = P.cfg(b)
        self.disp = None
        for bb in cfg.rpo():
            t = b.term(bb)
            if t["t"] == "switch":
                d = terms.strip(P.operand_term(b, bb, t["discr"]))
                if d[0] == "discr" and canon(d[1]) == "self.inner_state":
                    self.disp = bb
                    break
        self.edges = []
        self.states = []
        self.inner_loop_calls = {}
        if self.disp is None:
            return
        comp = [c for c in cfg.sccs() if self.disp in c and len(c) > 1]
        if not comp:
            return
        cs = set(comp[0])
        heads = [x for x in comp[0] if any(p not in cs for p in b.preds(x))]
        self.head = heads[0]
        vs = pan._variants_of_discr(b, b.term(self.disp)["discr"], self.disp)
        cyc = cfg.cyclic_blocks()
        for val, tgt in b.term(self.disp)["targets"]:
            name = [v["name"] for v in vs if v["discr"] == val][0]
            self.states.append(name)
            for pi in tab.paths(P, b, start=tgt, stop=lambda x: x == self.head, limit=50000):
                last = pi.path[-1]
                if pi.back is not None:
                    continue   # iteration of an inner `for`: summarised below
                if last == self.head:
                    kind = "loop"
                elif b.term(last)["t"] == "return":
                    kind = "return"
                else:
                    continue
                effs = [(nm.split("::")[-1], tuple(norm(canon(x)) for x in a)) for bb, nm, a in pi.calls() if nm.startswith(EFFECTS) and not nm.endswith("::take")]
                guards = []
                for d in pi.decisions():
                    if d[0] == "variant" and d[1] == "self.inner_state":
                        continue
                    if d[0] == "variant":
                        guards.append(("variant", norm(d[1]), d[2]))
                for f in pi.cmp_facts():
                    if f[0] != "call":
                        guards.append((f[0], norm(f[1]), norm(f[2])))
                nxt = None
                nxt_t = None
                for bb in pi.path:
                    for i, s_ in enumerate(b.blocks[bb]["stmts"]):
                        if s_["s"] == "assign" and [e.get("f") if isinstance(e, dict) else e for e in s_["lhs"]["p"]] == ["*", "inner_state"]:
                            nxt_t = terms.strip(pi.sl.rvalue(s_["rv"], bb, i))
                            nxt = (nxt_t[2].split("::")[-1], norm(canon(nxt_t)))
                ret = norm(canon(pi.ret())) if kind == "return" else None
                self.edges.append({"state": name, "kind": kind, "guards": guards, "effects": effs, "next": nxt, "ret": ret, "shape": ordrules.ret_shape(pi) if kind == "return" else None, "path": pi.path})
            # calls inside inner loops of this arm
        arms = state_arms(P, b)
        for bb, t in b.calls():
            if bb in cyc and bb != self.head:
                # is bb in a cycle that does not contain the dispatch? (an inner for loop)
                inner = [c for c in cfg.sccs() if bb in c and self.disp not in c and len(c) > 1]
                if inner:
                    nm = callee_name(t)[0]
                    self.inner_loop_calls.setdefault(arms.get(bb), []).append((nm, [norm(canon(x)) for x in P.call_arg_terms(b, bb)]))

    def out(self, state):
        return [e for e in self.edges if e["state"] == state]

    def roles(self):
        r = {}
        for s in self.states:
            effs = set(e_[0] for e in self.out(s) for e_ in e["effects"])
            argsof = lambda name: [a for e in self.out(s) for n, a in e["effects"] if n == name]
            if any(a and a[0] == "self.stmt_iter" for a in argsof("next")):
                r[s] = "fetch"
            elif "push_frame" in effs:
                r[s] = "loop_entry"
            elif "pop_frame" in effs:
                r[s] = "loop_end"
            elif any(a and a[0].endswith(".condition") for a in argsof("eval")):
                r[s] = "while_test"
            elif "next_with_context" in effs:
                r[s] = "run?"
            else:
                r[s] = "body_start?"
        # disambiguate the two nested-run states by where they go when the body is drained
        for s in [x for x in r if r[x] == "run?"]:
            nxts = set(r.get(e["next"][0]) for e in self.out(s) if e["next"])
            r[s] = "body_run" if "loop_end" in nxts else "while_run" if "while_test" in nxts else "run?"
        for s in [x for x in r if r[x] == "body_start?"]:
            nxts = set(r.get(e["next"][0]) for e in self.out(s) if e["next"])
            r[s] = "body_start" if "body_run" in nxts else "?"
        return r


def counter_lemma(P, chk):
    """Used by C10 to discharge the loop-counter unwrap/expect: variables shadow outputs
    and the counter is bound in the loop's own frame while the loop is active (obligation 4)."""
    from .iter_rules import get_shape_rule
    ok = bool(get_shape_rule(chk, P))
    b = P.body(NWC)
    if b is None:
        chk.fail("ANCHOR", "anchor:next_with_context", "next_with_context not found")
        return False
    A = Automaton(P, b)
    ok &= frames_obligation(chk, A, prefix="lemma:COUNTER:")
    return ok


def frames_obligation(chk, A, prefix=""):
    """Obligation 4 (+ the counter is set right after the push and read only in the popping state)."""
    R = A.roles()
    ok = True
    depth = {}
    fetch = [s for s, r in R.items() if r == "fetch"]
    if len(fetch) != 1:
        chk.fail("AUT", prefix + "AUT:frames:fetch-state", "cannot identify the statement-fetching state (roles %s)" % R)
        return False
    depth[fetch[0]] = 0
    work = [fetch[0]]
    bad = []
    while work:
        s = work.pop()
        for e in A.out(s):
            d = depth[s]
            for n, a in e["effects"]:
                if n == "push_frame":
                    d += 1
                elif n == "pop_frame":
                    d -= 1
            if e["kind"] == "return":
                if d != depth[s]:
                    bad.append("state %s returns at frame depth %+d relative to its own" % (R.get(s), d - depth[s]))
                continue
            t = e["next"][0] if e["next"] else s
            if t not in depth:
                depth[t] = d
                work.append(t)
            elif depth[t] != d:
                bad.append("state %s is entered at frame depths %d and %d" % (R.get(t, t), depth[t], d))
    byrole = {R.get(s, s): d for s, d in depth.items()}
    want = {"fetch": 0, "loop_entry": 0, "body_start": 1, "body_run": 1, "loop_end": 1, "while_test": 0, "while_run": 0}
    ok &= bool(chk.require(not bad and byrole == want, "AUT", prefix + "AUT:4:frame-pairing", "every state has one frame depth: loop states 1 (between one push and one pop), while states 0, fetch 0", "frame depths: %s; inconsistencies: %s" % (byrole, bad[:3])))
    # counter set with the push; read in the popping state
    for s in [x for x, r in R.items() if r == "loop_entry"]:
        pushes = [e for e in A.out(s) if any(n == "push_frame" for n, a in e["effects"])]
        good = bool(pushes) and all([n for n, a in e["effects"]][:2] == ["push_frame", "set"] and e["effects"][1][1][1:] == ("ST.0.variable", "0") for e in pushes)
        ok &= bool(chk.require(good, "AUT", prefix + "AUT:6a:counter-initialised-to-0-after-push", "push_frame(); set(variable, 0)", "loop entry edges: %s" % [e["effects"] for e in pushes]))
    for s in [x for x, r in R.items() if r == "loop_end"]:
        gets = [a for e in A.out(s) for n, a in e["effects"] if n == "get"]
        ok &= bool(chk.require(bool(gets) and all(a[1] == "ST.0.variable" for a in gets), "AUT", prefix + "AUT:6b:counter-read-in-popping-state", "get(variable) in the state that pops", "loop end reads %s" % gets))
    return ok


PREV = r"Option::expect\(OutputValue::value\(Option::unwrap\(EvalContext::get\(ctx, ST\.0\.variable\)\)\), '[^']*'\)"
# the step must not wrap: a body may rebind its own counter (`let i = 0x7FFF..;` to leave early), and `MAX + 1` wrapped to
# `MIN` is below every bound — the loop would never end and yield rows no reading of the program prescribes
STEP = re.compile(r"^i64::saturating_add\(%s, 1\)$" % PREV)


PSB = "parser::stmt::<impl parser::Parser>::parse_stmt_block"
STMT_OF_ARM = {"Let": "Stmt::Let", "Loop": "Stmt::Loop", "Repeat": "Stmt::Loop", "While": "Stmt::While", "ResetRandom": "Stmt::ResetRandom",
               "LParen": "Stmt::DataRow", "Bits": "Stmt::DataRow", "Ident": "Stmt::DataRow", "DecInt": "Stmt::DataRow", "HexInt": "Stmt::DataRow", "BinInt": "Stmt::DataRow", "OctInt": "Stmt::DataRow",
               "Declare": None, "Eol": None}


def stmt_arm_rule(chk, P, only=None):
    """Every statement the parser accepts is kept: on each path of one trip of the statement loop that
    goes on to the next statement, the arm of keyword K appends exactly one statement, of K's kind, to the
    block (declare and blank lines append none) — no statement is dropped, doubled or conditional on what
    the block already holds."""
    b = P.body(PSB)
    if b is None:
        chk.fail("ANCHOR", "anchor:parse_stmt_block", "parse_stmt_block not found")
        return
    cfg = P.cfg(b)
    heads = []
    for comp in cfg.sccs():
        if len(comp) > 1:
            cs = set(comp)
            heads += [x for x in comp if any(p_ not in cs for p_ in b.preds(x))]
    heads = [h for h in heads if b.term(h)["t"] == "call" and callee_name(b.term(h))[0] == "parser::Parser::peek"]
    if not chk.anchor("statement loop header (peek)", len(heads) == 1):
        return
    per = {}
    for fs, eff, how in tab.iteration_table(P, b, heads[0], effects=lambda nm: nm == "std::vec::Vec::push"):
        if how != "back":
            continue
        tok = [f[1] for f in fs if f[0] == "variant(Parser::peek(self))"]
        if not tok:
            continue
        pushes = tuple(re.sub(r"\{.*", "", e[len("Vec::push(Vec::new(), "):]) for e in eff)
        for k in tok[0]:
            per.setdefault(k, set()).add(pushes)
    n = 0
    for k, want in sorted(STMT_OF_ARM.items()):
        if only is not None and k not in only:
            continue
        n += 1
        exp = {(want,)} if want else {()}
        chk.require(per.get(k) == exp, "GTE", "GTE:stmt-arm:%s:appends-exactly-its-statement" % k, "every continuing path of the %s arm appends %s" % (k, want or "nothing"),
                    "the %s arm appends %s on its continuing paths (expected exactly %s): a statement can be dropped, doubled or made conditional" % (k, sorted(per.get(k, set())), sorted(exp)))
    if only is None:
        extra = sorted(k for k in per if k not in STMT_OF_ARM)
        chk.require(not extra, "GTE", "GTE:stmt-arm:no-other-continuing-arm", "", "arms %s continue the statement loop" % extra)
    chk.floor("GTE", "statement arms", n, 1)


def end_is_final(chk, P, prefix=""):
    """Once the interpreter has returned Ok(None) it keeps doing so without any effect: the only
    Ok(None) exit is in the fetch state on stmt_iter.next() == None, with no other effect and no state
    change, and the statement iterator is a plain (fused) slice iterator.  Used by C02 (nothing is sent
    after None) as well as by C01."""
    b = P.body(NWC)
    if b is None:
        chk.fail("ANCHOR", prefix + "anchor:next_with_context", "interpreter not found")
        return False
    A = Automaton(P, b)
    if A.disp is None or not A.edges:
        chk.fail("ANCHOR", prefix + "anchor:state-dispatch", "state dispatch not found")
        return False
    R = A.roles()
    nones = [e for e in A.edges if e["shape"] == "None" or (e["ret"] or "").startswith("Result::Ok{0: Option::None")]
    good = len(nones) == 1 and R.get(nones[0]["state"]) == "fetch" and nones[0]["effects"] == [("next", ("self.stmt_iter",))] and nones[0]["next"] is None and ("variant", "Iterator::next(self.stmt_iter)", ("None",)) in nones[0]["guards"]
    ok = chk.require(good, "AUT", prefix + "AUT:1:Ok(None)-only-when-block-exhausted", "the only Ok(None) exit: fetch state, next() == None, no effect, no state change (so None is sticky)",
                     "Ok(None) exits: %s" % [(R.get(e["state"]), e["effects"], e["guards"][:3]) for e in nones])
    adt = P.f.adts.get("stmt::StmtIterator")
    ty = dict((f["name"], f["ty"]) for f in adt["variants"][0]["fields"]).get("stmt_iter", "") if adt else ""
    ok &= bool(chk.require(re.fullmatch(r"std::slice::Iter<'a, stmt::Stmt>", ty) is not None, "TYPE", prefix + "TYPE:StmtIterator.stmt_iter-is-a-slice-iterator", "slice::Iter is fused: None stays None", "StmtIterator.stmt_iter has type %s" % ty))
    # ... and an exhausted block iterator is never rewound or replaced: the field is set where a StmtIterator is built
    # and otherwise only lent to Iterator::next (a field assignment is not an `effect` of an edge, so the edge rule
    # above cannot see `self.stmt_iter = self.stmts.iter()` on the Ok(None) path)
    bad, lent = [], 0
    for wb, wbb, wi, kind in P.field_writers("stmt::StmtIterator", "stmt_iter"):
        t = wb.blocks[wbb]["term"]
        fn = t.get("func") if t["t"] == "call" else None
        if kind == "borrow_mut" and isinstance(fn, dict) and fn.get("fn") == "std::iter::Iterator::next" and (fn.get("self_ty") or "").startswith("std::slice::Iter<"):
            st = wb.blocks[wbb]["stmts"][wi]
            a0 = t["args"][0] if t["args"] else None
            if isinstance(a0, dict) and a0.get("pl", a0).get("l") == st["lhs"]["l"] and not st["lhs"]["p"]:
                lent += 1
                continue
        if kind in ("mem_whole", "call_dest_whole", "assign_whole"):
            continue   # a whole StmtIterator replaced: that is a construction (Box::new(StmtIterator{..}) moved into the state), read by the body rules
        bad.append((wb.name.split("::")[-1], kind))
    ok &= bool(chk.require(not bad and lent >= 1, "WHO", prefix + "WHO:stmt_iter-never-rewound", "StmtIterator.stmt_iter is lent to slice::Iter::next at %d site(s) and written nowhere else (set only where a StmtIterator is built)" % lent,
                           "StmtIterator.stmt_iter is written at %s (lent to next() at %d site(s)): an exhausted block can be rewound, so Ok(None) is not final" % (sorted(set(bad)), lent)))
    return ok


def run(chk, ctx):
    P = Prog(ctx["facts"])
    from . import eqrules
    eqrules.require_clone(chk, P, ["stmt::DataEntry"], "literal entries (X/Z/C/Number) evaluate to themselves")
    from . import lexrules
    lexrules.spelling_rule(chk, P, ("Loop", "Repeat", "While", "Let", "End", "Bits", "LParen", "RParen", "Comma", "Semi", "Equal"))   # the constructs the statement names are spelled that way
    from .iter_rules import plumbing_rule
    plumbing_rule(chk, P, {"ParsedTestCase": ("stmts",), "TestCase": ("stmts",), "DataRowIteratorTestData": ("iter",)})   # the statements parsed are the statements run
    chk.explanation = ("C01 decided as the per-construct obligations of a structural induction (DESIGN.md section 5, C01) on the automaton extracted from the resumable interpreter: states are the variants of the dispatched state field, edges are the acyclic paths from a state's arm to the dispatch or a return, "
                       "with guards, ordered effects (push_frame / pop_frame / set / get / Expr::eval tagged with the origin of its expression / DataEntry::eval / reset_random_seed / slice iterator next / nested next_with_context), next state and exit shape; states are classified by their edges, never by name. "
                       "Obligations: 1 sequencing, 2 row, 3 let, 4 frame pairing, 5 bound evaluated once, 6 counter protocol, 7 zero-trip guard, 8 body, 9 while, 10 resetRandom; plus FramedMap discipline, the MSB-first bits expansion and the parser's repeat/loop/while desugaring. "
                       "The claim is 'all local obligations hold on all paths', not 'the rows equal a reference interpreter's': no program is executed.")
    chk.trusted = ["std: slice::Iter is forward and fused; Vec::extend appends in order", "the hand induction of DESIGN.md"]
    b = P.body(NWC)
    if not chk.anchor("next_with_context", b):
        return
    A = Automaton(P, b)
    if not chk.anchor("state dispatch", A.disp is not None and A.edges):
        return
    R = A.roles()
    inv = {}
    for s, r in R.items():
        inv.setdefault(r, []).append(s)
    want_roles = ["body_run", "body_start", "fetch", "loop_end", "loop_entry", "while_run", "while_test"]
    chk.require(sorted(R.values()) == want_roles, "AUT", "AUT:states-classified", "7 states: %s" % {s: r for s, r in R.items()}, "state roles are %s (expected one each of %s)" % (R, want_roles))
    non_err = [e for e in A.edges if e["shape"] != "Err"]
    chk.floor("AUT", "states", len(A.states), 7)
    chk.floor("AUT", "non-error edges", len(non_err), 16)
    chk.extra["automaton"] = {"states": len(A.states), "edges": len(A.edges), "non_error_edges": len(non_err)}
    chk.sample({"roles": R})
    for e in A.edges[:6]:
        chk.sample({"state": R.get(e["state"]), "guards": [list(g) for g in e["guards"]][:4], "effects": [[n, list(a)] for n, a in e["effects"]], "next": R.get(e["next"][0]) if e["next"] else None, "exit": e["shape"]})
    if sorted(R.values()) != want_roles:
        return
    role = lambda e: R[e["state"]]
    nxt = lambda e: R.get(e["next"][0]) if e["next"] else None
    F = [e for e in A.edges if role(e) == "fetch"]

    def stmt_kind(e):
        k = [g[2] for g in e["guards"] if g[0] == "variant" and g[1] == "STMT"]
        return k[0][0] if k and len(k[0]) == 1 else None

    # 1. sequencing
    good = all(e["effects"] and e["effects"][0] == ("next", ("self.stmt_iter",)) and sum(1 for n, a in e["effects"] if n == "next" and a == ("self.stmt_iter",)) == 1 for e in F)
    chk.require(good, "AUT", "AUT:1:one-fetch-per-edge", "every edge of the fetch state calls stmt_iter.next() exactly once, first", "fetch edges: %s" % [e["effects"][:2] for e in F if not (e["effects"] and e["effects"][0] == ("next", ("self.stmt_iter",)))])
    nones = [e for e in A.edges if e["shape"] == "None" or (e["ret"] or "").startswith("Result::Ok{0: Option::None")]
    good = len(nones) == 1 and role(nones[0]) == "fetch" and nones[0]["effects"] == [("next", ("self.stmt_iter",))] and nones[0]["next"] is None and ("variant", "Iterator::next(self.stmt_iter)", ("None",)) in nones[0]["guards"]
    chk.require(good, "AUT", "AUT:1:Ok(None)-only-when-block-exhausted", "the only Ok(None) exit: fetch state, next() == None, no effect, no state change (so None is sticky)", "Ok(None) exits: %s" % [(role(e), e["effects"], e["guards"][:2]) for e in nones])
    iters = set()
    for (cb, bb, i, st) in P.constructors("stmt::StmtIterator"):
        t = P.sl(cb).rvalue(st["rv"], bb, i)
        iters.add((cb.name.split("::")[-1], re.sub(r"\(.*\)", "(..)", canon(dict(t[3])["stmt_iter"]))))
    chk.require(all(x[1] == "[T]::iter(..)" for x in iters) and len(iters) >= 2, "AUT", "AUT:1:forward-iteration", "every StmtIterator walks its block with slice.iter() (no rev/skip/step_by adaptor)", "StmtIterator.stmt_iter built as %s" % sorted(iters))
    # 2. row
    rows = [e for e in F if stmt_kind(e) == "DataRow" and e["shape"] != "Err"]
    good = bool(rows) and all(e["kind"] == "return" and re.fullmatch(r"Result::Ok\{0: Option::Some\{0: stmt::DataEntries\{entries: Vec::new\(\), line: \(STMT as DataRow\)\.line, update_output: 1\}\}\}", e["ret"]) for e in rows)
    chk.require(good, "AUT", "AUT:2:row-yields-immediately", "Ok(Some(DataEntries{entries, line: *line, update_output: true})) with no further effect", "DataRow edges: %s" % [(e["kind"], e["ret"]) for e in rows])
    inner = [c for arm, cs in A.inner_loop_calls.items() if arm and R.get(arm[0]) == "fetch" for c in cs]
    evals = [a for n, a in inner if n == "stmt::DataEntry::eval"]
    exts = [a for n, a in inner if n.endswith("iter::Extend<T>>::extend")]
    ITER = "[T]::iter((STMT as DataRow).data)"   # `for e in data` / `data.iter()` / a slice parameter read alike
    good = evals == [["some!(Iterator::next(%s))" % ITER, "ctx"]] and exts == [["Vec::new()", "try(DataEntry::eval(some!(Iterator::next(%s)), ctx))" % ITER]]
    chk.require(good, "AUT", "AUT:2:entries-evaluated-in-slice-order", "for entry in data { entries.extend(entry.eval(ctx)?) }", "row loop evaluates %s and extends with %s" % (evals, exts))
    # 3. let
    lets = [e for e in F if stmt_kind(e) == "Let" and e["shape"] != "Err"]
    want = [("next", ("self.stmt_iter",)), ("eval", ("(STMT as Let).expr", "ctx")), ("set", ("ctx", "(STMT as Let).name", "try(Expr::eval((STMT as Let).expr, ctx))"))]
    chk.require(len(lets) == 1 and lets[0]["effects"] == want and lets[0]["kind"] == "loop" and lets[0]["next"] is None, "AUT", "AUT:3:let", "eval(expr) once, then set(name, that value); stays in the fetch state", "let edges: %s" % [(e["effects"], e["next"]) for e in lets])
    # 4. frames
    frames_obligation(chk, A)
    # 5. bound evaluated once, on the edge leaving the fetch state
    bound_evals = [(role(e), stmt_kind(e)) for e in A.edges for n, a in e["effects"] if n == "eval" and a[0].endswith(".max")]
    good = bool(bound_evals) and all(x == ("fetch", "Loop") for x in bound_evals)
    loops = [e for e in F if stmt_kind(e) == "Loop" and e["shape"] != "Err"]
    good = good and len(loops) == 1 and loops[0]["effects"] == [("next", ("self.stmt_iter",)), ("eval", ("(STMT as Loop).max", "ctx"))] and nxt(loops[0]) == "loop_entry" \
        and re.fullmatch(r"StmtIteratorState::\w+\{0: stmt::LoopState\{variable: \(STMT as Loop\)\.variable, max: try\(Expr::eval\(\(STMT as Loop\)\.max, ctx\)\), stmts: \(STMT as Loop\)\.inner\}\}", loops[0]["next"][1]) is not None
    chk.require(good, "AUT", "AUT:5:bound-evaluated-once-on-entry", "LoopState{variable, max: eval(max)?, stmts: inner} built on the fetch edge; no other edge evaluates the bound", "bound evaluations at %s; loop edge %s" % (bound_evals, [(e["effects"], e["next"]) for e in loops]))
    # 6/7. counter protocol and zero-trip guard
    LE = [e for e in A.edges if role(e) == "loop_entry"]
    enter = [e for e in LE if nxt(e) == "body_start"]
    skip = [e for e in LE if nxt(e) == "fetch"]
    good = len(enter) == 1 and len(skip) == 1 and ("Gt", "ST.0.max", "0") in enter[0]["guards"] and ("Le", "ST.0.max", "0") in skip[0]["guards"] and skip[0]["effects"] == [] \
        and enter[0]["effects"] == [("push_frame", ("ctx",)), ("set", ("ctx", "ST.0.variable", "0"))] and enter[0]["next"][1].endswith("{0: ST.0}")
    chk.require(good, "AUT", "AUT:7:zero-trip-guard", "first body run guarded by 0 < max; otherwise straight back to the fetch state with no effect", "loop entry edges: %s" % [(e["guards"], e["effects"], nxt(e)) for e in LE])
    EN = [e for e in A.edges if role(e) == "loop_end"]
    again = [e for e in EN if nxt(e) == "body_start"]
    leave = [e for e in EN if nxt(e) == "fetch"]
    good = len(again) == 1 and len(leave) == 1
    if good:
        lt = [g for g in again[0]["guards"] if g[0] == "Lt" and g[2] == "ST.0.max"]
        ge = [g for g in leave[0]["guards"] if g[0] == "Ge" and g[2] == "ST.0.max"]
        good = len(lt) == 1 and len(ge) == 1 and lt[0][1] == ge[0][1] and STEP.match(lt[0][1]) is not None
        if good:
            v = lt[0][1]
            good = again[0]["effects"] == [("get", ("ctx", "ST.0.variable")), ("set", ("ctx", "ST.0.variable", v))] and leave[0]["effects"] == [("get", ("ctx", "ST.0.variable")), ("pop_frame", ("ctx",))] and again[0]["next"][1].endswith("{0: ST.0}")
    chk.require(good, "AUT", "AUT:6:counter-protocol", "value = prev.saturating_add(1); value < max => set(variable, value), next iteration; else pop_frame, back to fetch", "loop end edges: %s" % [(e["guards"], e["effects"], nxt(e)) for e in EN])
    # 8. body
    BS = [e for e in A.edges if role(e) == "body_start"]
    good = len(BS) == 1 and BS[0]["effects"] == [] and nxt(BS[0]) == "body_run" and re.fullmatch(r"StmtIteratorState::\w+\{inner_iterator: Box::new\(stmt::StmtIterator\{stmt_iter: \[T\]::iter\(ST\.0\.stmts\), inner_state: StmtIteratorState::(\w+)\{\}\}\), loop_state: ST\.0\}", BS[0]["next"][1]) is not None
    if good:
        m = re.search(r"inner_state: StmtIteratorState::(\w+)\{\}", BS[0]["next"][1])
        good = R.get(m.group(1)) == "fetch"
    chk.require(good, "AUT", "AUT:8:body-iterator-over-the-loop-body", "nested StmtIterator over LoopState.stmts starting in the fetch state", "body start edges: %s" % [(e["effects"], e["next"]) for e in BS])
    for rname, after, payload in (("body_run", "loop_end", "loop_state"), ("while_run", "while_test", "while_state")):
        E = [e for e in A.edges if role(e) == rname]
        some = [e for e in E if e["shape"] == "Some(?)" or (e["ret"] or "").startswith("Result::Ok{0: Option::Some")]
        done = [e for e in E if e["kind"] == "loop"]
        errs = [e for e in E if e["shape"] == "Err"]
        call = ("next_with_context", ("ST.inner_iterator", "ctx"))
        good = len(some) == 1 and len(done) == 1 and len(errs) == 1 and all(e["effects"] == [call] for e in E) \
            and some[0]["ret"] == "Result::Ok{0: Option::Some{0: some!(try(StmtIterator::next_with_context(ST.inner_iterator, ctx)))}}" \
            and nxt(done[0]) == after and done[0]["next"][1].endswith("{0: ST.%s}" % payload) \
            and errs[0]["ret"] == "FromResidual::from_residual(break!(Try::branch(StmtIterator::next_with_context(ST.inner_iterator, ctx))))"
        chk.require(good, "AUT", "AUT:8:%s-drains-the-nested-iterator" % rname, "rows forwarded unchanged; None => %s; errors propagated with `?`" % after, "%s edges: %s" % (rname, [(e["effects"], e["ret"], nxt(e)) for e in E]))
    # 9. while
    whiles = [e for e in F if stmt_kind(e) == "While"]
    good = len(whiles) == 1 and whiles[0]["effects"] == [("next", ("self.stmt_iter",))] and nxt(whiles[0]) == "while_test" and whiles[0]["next"][1].endswith("{0: stmt::WhileState{condition: (STMT as While).condition, stmts: (STMT as While).inner}}")
    chk.require(good, "AUT", "AUT:9:while-entry", "WhileState{condition, stmts: inner}; nothing evaluated yet", "while fetch edges: %s" % [(e["effects"], e["next"]) for e in whiles])
    WT = [e for e in A.edges if role(e) == "while_test"]
    ev = ("eval", ("ST.0.condition", "ctx"))
    run_ = [e for e in WT if nxt(e) == "while_run"]
    out_ = [e for e in WT if nxt(e) == "fetch"]
    C = "try(Expr::eval(ST.0.condition, ctx))"
    good = len(run_) == 1 and len(out_) == 1 and all(e["effects"] == [ev] for e in WT) and ("Ne", C, "0") in run_[0]["guards"] and ("Eq", C, "0") in out_[0]["guards"] \
        and re.fullmatch(r"StmtIteratorState::\w+\{inner_iterator: Box::new\(stmt::StmtIterator\{stmt_iter: \[T\]::iter\(ST\.0\.stmts\), inner_state: StmtIteratorState::\w+\{\}\}\), while_state: ST\.0\}", run_[0]["next"][1]) is not None
    chk.require(good, "AUT", "AUT:9:while-test", "condition evaluated on entry and after every completed body; body entered iff != 0; leaving restores the fetch state", "while test edges: %s" % [(e["guards"], e["effects"], nxt(e)) for e in WT])
    wfx = [n for e in A.edges if role(e) in ("while_test", "while_run") for n, a in e["effects"] if n in ("push_frame", "pop_frame", "set")]
    chk.require(not wfx, "AUT", "AUT:9:while-opens-no-scope", "no push/pop/set on any while edge", "while edges perform %s" % wfx)
    # 10. resetRandom
    rr = [e for e in F if stmt_kind(e) == "ResetRandom"]
    chk.require(len(rr) == 1 and rr[0]["effects"] == [("next", ("self.stmt_iter",)), ("reset_random_seed", ("ctx",))] and rr[0]["next"] is None, "AUT", "AUT:10:resetRandom", "exactly one reset_random_seed and nothing else", "resetRandom edges: %s" % [(e["effects"], e["next"]) for e in rr])
    # every statement kind is handled
    kinds = sorted(set(k for k in (stmt_kind(e) for e in F) if k))
    chk.require(kinds == ["DataRow", "Let", "Loop", "ResetRandom", "While"], "AUT", "AUT:1:every-statement-kind-dispatched", str(kinds), "fetch state handles %s" % kinds)
    # error edges: only `?`
    errs = [e for e in A.edges if e["shape"] == "Err"]
    chk.require(all((e["ret"] or "").startswith("FromResidual::from_residual(break!(") for e in errs), "AUT", "AUT:errors-propagated", "%d error edges, all `?`" % len(errs), "error edges: %s" % [e["ret"][:80] for e in errs if not (e["ret"] or "").startswith("FromResidual")])
    init = set()
    nb = P.body("stmt::StmtIterator::new")
    if nb is not None:
        for (cb, bb, i, st) in P.constructors("stmt::StmtIterator"):
            if cb is nb:
                f = {k: canon(v) for k, v in P.sl(cb).rvalue(st["rv"], bb, i)[3]}
                m = re.fullmatch(r"StmtIteratorState::(\w+)\{\}", f.get("inner_state", ""))
                chk.require(f.get("stmt_iter") == "[T]::iter(stmts)" and m is not None and R.get(m.group(1)) == "fetch", "AUT", "AUT:initial-state", "StmtIterator::new: stmts.iter(), fetch state", "StmtIterator::new builds %s" % f)
    supporting(chk, P)


def supporting(chk, P):
    stmt_arm_rule(chk, P)
    # rows are evaluated in the real variable map: the exchange made for virtual signals is undone on every path
    from .iter_rules import swap_pair_rule
    swap_pair_rule(chk, P)
    # FramedMap discipline
    st = P.body(FM + "set")
    if chk.anchor("FramedMap::set", st):
        calls = [(callee_name(t)[0].split("::")[-1], [canon(x) for x in P.call_arg_terms(st, bb)]) for bb, t in st.calls()]
        fm = [a for n, a in calls if n == "find"]
        START = "ops::RangeFrom{start: Option::unwrap_or([T]::last(self.frame_stack), 0)}"
        good = fm == [["[T]::iter_mut(IndexMut::index_mut(self.values, %s))" % START, "closure({closure#0})"]]
        chk.require(good, "TAB", "TAB:FramedMap::set:searches-innermost-frame-only", "values[frame_start..].iter_mut().find(..) with frame_start = last mark or 0", "FramedMap::set searches %s" % fm)
        rows = set()
        for pi in tab.paths(P, st, to_return_only=True):
            d = [x[2] for x in pi.decisions() if x[0] == "variant" and x[1].startswith("Iterator::find(")]
            pushes = [tuple(canon(x) for x in a) for bb, nm, a in pi.calls() if nm == "std::vec::Vec::push"]
            writes = []
            for bb in pi.path:
                for i, s_ in enumerate(st.blocks[bb]["stmts"]):
                    if s_["s"] == "assign" and s_["lhs"]["p"] and s_["lhs"]["p"][0] == "*" and s_["lhs"]["l"] != 1:
                        writes.append(canon(pi.sl.rvalue(s_["rv"], bb, i)))
            rows.add((d[0] if d else None, tuple(pushes), tuple(writes)))
        want = {(("Some",), (), ("value",)), (("None",), (("self.values", "tuple(Into::into(key), value)"),), ())}
        chk.require(rows == want, "TAB", "TAB:FramedMap::set:overwrite-or-append", "found in the innermost frame => overwrite; else append", "FramedMap::set rows: %s" % sorted(rows, key=str))
        cl = P.body(FM + "set::{closure#0}")
        if cl is not None:
            pt = tab.predicate_table(P, cl)
            chk.require(pt == {(frozenset(), "PartialEq::eq(elem([T]::iter_mut(IndexMut::index_mut(self.values, %s))).0, Into::into(key))" % START)}, "TAB", "TAB:FramedMap::set:key-test", "|entry| entry.0 == key", "set's key test: %s" % sorted(pt, key=str))
    g = P.body(FM + "get")
    if chk.anchor("FramedMap::get", g):
        r = set(canon(P.sl(g).ret(rb)) for rb in P.cfg(g).return_blocks())
        chk.require(r == {"Option::map(Iterator::find(Iterator::rev([T]::iter(self.values)), closure({closure#0})), closure({closure#1}))"}, "TAB", "TAB:FramedMap::get:innermost-first", "values.iter().rev().find(..).map(|e| e.1)", "FramedMap::get returns %s" % r)
        c0, c1 = P.body(FM + "get::{closure#0}"), P.body(FM + "get::{closure#1}")
        if c0 is not None and c1 is not None:
            E = "elem(Iterator::rev([T]::iter(self.values)))"
            p0, p1 = tab.predicate_table(P, c0), tab.predicate_table(P, c1)
            chk.require(p0 == {(frozenset(), "PartialEq<&B> for &A>::eq(%s.0, key)" % E)} and len(p1) == 1 and list(p1)[0][1].endswith(".1"), "TAB", "TAB:FramedMap::get:closures", "key equality; value projection", "get closures: %s / %s" % (sorted(p0, key=str), sorted(p1, key=str)))
    pf = P.body(FM + "push_frame")
    if chk.anchor("FramedMap::push_frame", pf):
        a = [[canon(x) for x in P.call_arg_terms(pf, bb)] for bb, t in pf.calls() if callee_name(t)[0] == "std::vec::Vec::push"]
        chk.require(a == [["self.frame_stack", "Vec::len(self.values)"]], "TAB", "TAB:FramedMap::push_frame", "records values.len()", "push_frame pushes %s" % a)
    po = P.body(FM + "pop_frame")
    if chk.anchor("FramedMap::pop_frame", po):
        a = [[canon(x) for x in P.call_arg_terms(po, bb)] for bb, t in po.calls() if callee_name(t)[0] == "std::vec::Vec::truncate"]
        chk.require(a == [["self.values", "Option::unwrap_or(Vec::pop(self.frame_stack), 0)"]], "TAB", "TAB:FramedMap::pop_frame", "truncates to the popped mark", "pop_frame truncates %s" % a)
    for fld, allowed in (("values", {FM + "set", FM + "pop_frame"}), ("frame_stack", {FM + "push_frame", FM + "pop_frame"})):
        # (the exchange of the two whole maps in swap_vars keeps each map's own invariant; it is pinned by the swap rules)
        w = set(x[0].name.split("::{closure")[0] for x in P.field_writers("framed_map::FramedMap", fld) if not (x[3] in ("mem_whole", "call_dest_whole", "assign_whole") and x[0].name == EC + "swap_vars"))
        chk.require(w <= allowed, "WHO", "WHO:FramedMap.%s-writers" % fld, str(sorted(w)), "FramedMap.%s mutated in %s" % (fld, sorted(w - allowed)))
    for fn, callee, args in ((EC + "set", FM + "set", ["self.vars", "name", "value"]), (EC + "push_frame", FM + "push_frame", ["self.vars"]), (EC + "pop_frame", FM + "pop_frame", ["self.vars"])):
        b = P.body(fn)
        if chk.anchor(fn, b):
            cs = [(callee_name(t)[0], [canon(x) for x in P.call_arg_terms(b, bb)]) for bb, t in b.calls()]
            chk.require(cs == [(callee, args)], "ORG", "ORG:%s-forwards-to-vars" % fn.split("::")[-1], "", "%s calls %s" % (fn, cs))
    from .iter_rules import get_shape_rule
    get_shape_rule(chk, P)
    # DataEntry::eval
    ev = P.body("stmt::DataEntry::eval")
    if chk.anchor("DataEntry::eval", ev):
        rows = {}
        for pi in tab.paths(P, ev, to_return_only=True):
            v = [d[2] for d in pi.decisions() if d[0] == "variant" and d[1] == "self"]
            if ordrules.ret_shape(pi) != "Ok":
                continue
            for vn in (v[0] if v else ("*",)):
                rows[vn] = canon(terms.strip(pi.ret())[3][0][1])
        want = {"Expr": "vec!(array(DataEntry::Number{0: try(Expr::eval((self as Expr).0, ctx))}))",
                "Bits": "Iterator::collect(Iterator::map(Iterator::rev(ops::Range{start: 0, end: (self as Bits).number}), closure({closure#0})))"}
        for v in ("X", "Z", "C", "Number"):
            want[v] = "vec!(array(Clone::clone(self)))"
        chk.require(rows == want, "TAB", "TAB:DataEntry::eval", "Expr -> [Number(eval)]; X/Z/C/Number -> itself; Bits -> (0..number).rev().map(bit)", "DataEntry::eval rows: %s" % rows)
        cl = P.body("stmt::DataEntry::eval::{closure#0}")
        if cl is not None:
            r = set(canon(P.resolve(cl, P.sl(cl).ret(rb))) for rb in P.cfg(cl).return_blocks())
            N = "elem(Iterator::rev(ops::Range{start: 0, end: (self as Bits).number}))"
            V = "try(Expr::eval((self as Bits).expr, ctx))"
            chk.require(r == {"DataEntry::Number{0: BitAnd(Shr(%s, %s), 1)}" % (V, N)}, "TAB", "TAB:bits:most-significant-first", "(value >> n) & 1 for n = number-1 .. 0", "bits expansion closure returns %s" % r)
    # parser desugaring
    psb = P.body("parser::stmt::<impl parser::Parser>::parse_stmt_block")
    if chk.anchor("parse_stmt_block", psb):
        built = {}
        for (cb, bb, i, st) in P.constructors("stmt::Stmt"):
            if cb is not psb:
                continue
            arms = [a for a in pan.arm_context(psb, bb, P.cfg(psb)) if a.get("enum", "").endswith("TokenKind") and canon(a["on"]) == "Parser::peek(self)"]
            k = tuple(arms[-1]["variants"]) if arms else None
            f = {kk: canon(v) for kk, v in P.sl(cb).rvalue(st["rv"], bb, i)[3]}
            built.setdefault(k, []).append((st["rv"]["variant"], f))
        IDENT = "Parser::text(self, try(Parser::expect(self, TokenKind::Ident{})))"
        lp = built.get(("Loop",), [])
        good = len(lp) == 1 and lp[0] == ("Loop", {"variable": "ToString::to_string(%s)" % IDENT, "max": "try(Parser::parse_expr(self))", "inner": "try(Parser::parse_stmt_block(self, Option::Some{0: TokenKind::Loop{}}))"})
        chk.require(good, "TAB", "TAB:parser:loop", "Loop{variable: <ident>, max: <expr>, inner: <block>}", "loop statement built as %s" % lp)
        rp = built.get(("Repeat",), [])
        row = ("DataRow", {"data": "try(Parser::parse_data_row(self))", "line": "self.line"})
        good = len(rp) == 2 and row in rp and any(v == "Loop" and f.get("variable") == "Into::into('n')" and f.get("max") == "try(Parser::parse_expr(self))" and re.fullmatch(r"vec!\(array\((?:stmt::)?Stmt::DataRow\{data: try\(Parser::parse_data_row\(self\)\), line: self\.line\}\)\)", f.get("inner", "")) for v, f in rp)
        chk.require(good, "TAB", "TAB:parser:repeat", "repeat(n) row => Loop{variable: \"n\", max: <expr>, inner: [row]}", "repeat statement built as %s" % rp)
        wh = built.get(("While",), [])
        good = len(wh) == 1 and wh[0] == ("While", {"condition": "try(Parser::parse_expr(self))", "inner": "try(Parser::parse_stmt_block(self, Option::Some{0: TokenKind::While{}}))"})
        chk.require(good, "TAB", "TAB:parser:while", "While{condition, inner}", "while statement built as %s" % wh)
        lt = built.get(("Let",), [])
        good = len(lt) == 1 and lt[0] == ("Let", {"name": "ToString::to_string(%s)" % IDENT, "expr": "try(Parser::parse_expr(self))"})
        chk.require(good, "TAB", "TAB:parser:let", "Let{name, expr}", "let statement built as %s" % lt)
        # statements are pushed in source order
        pushes = [canon(P.call_arg_terms(psb, bb)[0]) for bb, t in psb.calls() if callee_name(t)[0] == "std::vec::Vec::push"]
        chk.require(len(pushes) >= 6 and set(pushes) == {"Vec::new()"}, "ORD", "ORD:parser:statements-appended-in-order", "%d block.push sites" % len(pushes), "statements pushed into %s" % sorted(set(pushes)))
        r = set()
        for rb in P.cfg(psb).return_blocks():   # the Ok values that reach the function's return place
            rt = terms.strip(P.resolve(psb, P.sl(psb).ret(rb)))
            for alt in (rt[1] if rt[0] == "phi" else (rt,)):
                alt = terms.strip(alt)
                if alt[0] == "agg" and alt[1] == "adt" and str(alt[2]).endswith("Result::Ok"):
                    r.add(canon(alt[3][0][1]))
        chk.require(r == {"Vec::new()"}, "ORG", "ORG:parser:block-returned", "Ok(block)", "parse_stmt_block returns %s" % r)
