"""C01 — control flow and variables determine exactly which rows run.
(AUT extraction and the per-construct obligations; see DESIGN.md section 5.)"""
import re
from ..core import pan, terms, tab
from ..core.facts import callee_name
from ..core.prog import canon, Prog

NWC = "stmt::StmtIterator::next_with_context"


def state_arms(P, b):
    """Map block -> set of state variant names of `self.inner_state` that dominate it."""
    cfg = P.cfg(b)
    out = {}
    for bb in b.reachable_blocks():
        arms = [a for a in pan.arm_context(b, bb, cfg) if a.get("enum", "").endswith("StmtIteratorState") and canon(a["on"]) == "self.inner_state"]
        if arms:
            out[bb] = tuple(arms[-1]["variants"])   # outermost dispatch
    return out


def ctx_effects(P, b):
    """[(bb, state arm, effect name, [arg canon])] for calls on the EvalContext."""
    arms = state_arms(P, b)
    out = []
    for bb, t in b.calls():
        nm = callee_name(t)[0]
        if nm.startswith("eval_context::EvalContext::"):
            out.append((bb, arms.get(bb), nm.split("::")[-1], [canon(x) for x in P.call_arg_terms(b, bb)]))
    return out


def counter_lemma(P, chk):
    """The loop counter read at the end of an iteration is bound: (a) variables
    shadow outputs and are wrapped in Value; (b) the state that reads the counter
    is entered only after the state that pushes a frame and sets the counter, and
    the frame is popped only when the loop is left."""
    ok = True

    def ob(oid, cond, okd, bad, site=""):
        nonlocal ok
        ok &= bool(chk.require(bool(cond), "LEMMA", "lemma:COUNTER:" + oid, okd, bad, site))

    g = P.body("eval_context::EvalContext::get")
    if g is None:
        ob("get-anchor", False, "", "EvalContext::get not found")
    else:
        shapes = set()
        for pi in tab.paths(P, g, to_return_only=True):
            dec = [(d[1], d[2]) for d in pi.decisions() if d[0] == "variant"]
            shapes.add((tuple(dec), canon(pi.ret())))
        want = {((("FramedMap::get(self.vars, name)", ("Some",)),), "Option::Some{0: OutputValue::Value{0: some!(FramedMap::get(self.vars, name))}}"),
                ((("FramedMap::get(self.vars, name)", ("None",)),), "Option::cloned(HashMap::get(self.outputs, name))")}
        ob("get-variables-first", shapes == want, "get(): vars first (as Value), outputs only on the None edge", "EvalContext::get has shape %s" % sorted(shapes))
    b = P.body(NWC)
    if b is None:
        ob("nwc-anchor", False, "", "next_with_context not found")
        return ok
    eff = ctx_effects(P, b)
    push = [e for e in eff if e[2] == "push_frame"]
    pop = [e for e in eff if e[2] == "pop_frame"]
    gets = [e for e in eff if e[2] == "get"]
    sets = [e for e in eff if e[2] == "set"]
    ob("one-push-one-pop", len(push) == 1 and len(pop) == 1, "1 push_frame / 1 pop_frame", "%d push_frame and %d pop_frame sites" % (len(push), len(pop)))
    if len(push) == 1 and len(pop) == 1 and gets:
        A, B = push[0][1], pop[0][1]
        init = [e for e in sets if e[1] == A and re.fullmatch(r"\(self\.inner_state as \w+\)\.0\.variable", e[3][1]) and e[3][2] == "0"]
        ob("counter-set-with-push", bool(init), "state %s: push_frame(); set(variable, 0)" % (A,), "the state that pushes the frame does not set the counter to 0")
        rd = [e for e in gets if re.fullmatch(r"\(self\.inner_state as \w+\)\.0\.variable", e[3][1])]
        ob("counter-read-in-pop-state", rd and all(e[1] == B for e in rd), "counter read in state %s, which is the only one that pops" % (B,), "counter read in %s but frame popped in %s" % ([e[1] for e in rd], B))
    return ok


def run(chk, ctx):
    P = Prog(ctx["facts"])
    chk.explanation = "C01 (under construction): counter lemma only"
    counter_lemma(P, chk)
