"""C10 — running an accepted test never panics; runtime problems are error items."""
import re
from ..core import ordrules, pan, terms, tab
from ..core.facts import callee_name
from ..core.prog import canon, Prog
from . import panrules, pancheck

ROOTS = [
    "TestCase::try_iter", "TestCase::run_iter",
    "data_row_iterator::DataRowIterator::try_new",
    "<data_row_iterator::DataRowIterator<T> as std::iter::Iterator>::next",
    "data_row_iterator::DataRowIterator::vars",
    "static_test::<impl TestCase>::try_iter_static",
    "<static_test::StaticDataRowIterator as std::iter::Iterator>::next",
    "<static_test::StaticDataRow as std::convert::From<DataRow>>::from",
    "OutputResultEntry::check", "OutputResultEntry::is_checked", "DataRow::failing_outputs",
    "value::ExpectedValue::check", "value::OutputValue::check", "value::InputValue::value", "value::OutputValue::value",
]

NEXT = "<data_row_iterator::DataRowIterator<T> as std::iter::Iterator>::next"


def error_items(chk, P):
    """An evaluation error of the row becomes the item Some(Err(Runtime(ExprError(..)))) of that next()."""
    b = P.body(NEXT)
    if b is None:
        chk.fail("ANCHOR", "anchor:next", "DataRowIterator::next not found")
        return
    shapes = set()
    for pi in tab.paths(P, b, to_return_only=True):
        dec = [(d[1], d[2]) for d in pi.decisions() if d[0] == "variant" and "get_row" in d[1]]
        if not dec:
            continue
        r = canon(pi.ret())
        if dec[0][1] == ("Err",):
            shapes.add(r)
    want = {"Option::Some{0: Result::Err{0: IterationError::Runtime{0: Into::into(RuntimeErrorKind::ExprError{0: err!(DataRowIteratorTestData::get_row(self.test_data, self.ctx))})}}}"}
    chk.require(shapes == want, "TAB", "TAB:next:eval-error-becomes-item", "Err(e) from get_row => Some(Err(Runtime(ExprError(e))))", "evaluation errors leave next() as %s" % sorted(shapes), "%s:%d" % (b.file, b.line))
    # the four named conditions end in Err(..) (any error value), decided by path tables
    be = P.body("expr::BinOp::eval")
    if be is None:
        chk.fail("ANCHOR", "anchor:BinOp::eval", "BinOp::eval not found")
    else:
        seen = {}
        for pi in tab.paths(P, be, to_return_only=True):
            vs = [d[2] for d in pi.decisions() if d[0] == "variant" and d[1] == "self"]
            zero = [d[2] for d in pi.decisions() if d[0] == "bool" and d[1] in ("Eq(right, 0)", "Ne(right, 0)")]
            zd = [d for d in pi.decisions() if d[0] == "bool" and d[1] in ("Eq(right, 0)", "Ne(right, 0)")]
            r = terms.strip(pi.ret())
            shape = r[2].split("::")[-1] if r[0] == "agg" else canon(r)[:40]
            if ordrules.ret_shape(pi) == "Err":
                shape = "Err"      # `return Err(e)` / `Err(e)?`: an error leaves either way
            for v in (vs[0] if vs else ("*",)):
                if v in ("Divide", "Reminder"):
                    iszero = None
                    for d in zd:
                        iszero = d[2] if d[1].startswith("Eq") else (not d[2])
                    seen.setdefault(v, set()).add((iszero, shape))
        for v in ("Divide", "Reminder"):
            got = seen.get(v, set())
            chk.require(got == {(True, "Err"), (False, "Ok")}, "TAB", "TAB:BinOp::eval:%s:zero-divisor-is-error" % v, "right == 0 => Err(..), else Ok(..)", "operator %s: (divisor is zero?, result) = %s" % (v, sorted(got, key=str)), "%s:%d" % (be.file, be.line))
    ev = P.body("expr::Expr::eval")
    if ev is not None:
        got = set()
        for pi in tab.paths(P, ev, to_return_only=True):
            vs = [d[2] for d in pi.decisions() if d[0] == "variant" and d[1] == "self"]
            if not vs or vs[0] != ("Variable",):
                continue
            look = [d[2] for d in pi.decisions() if d[0] == "variant" and d[1].startswith("EvalContext::get(ctx, ")]
            r = terms.strip(pi.ret())
            shape = r[2].split("::")[-1] if r[0] == "agg" else ("Err" if r[0] == "call" and "from_residual" in r[1] else canon(r)[:40])
            got.add((look[0] if look else None, shape))
        chk.require(((("None",), "Err") in got) and not any(l == ("None",) and s_ != "Err" for l, s_ in got), "TAB", "TAB:Expr::eval:unbound-variable-is-error", "ctx.get(name) == None => Err(..)", "Expr::Variable: (lookup, result) = %s" % sorted(got, key=str), "%s:%d" % (ev.file, ev.line))
    tabl = panrules.Lemmas(P, chk).func_table() or []
    for name, n, fn in tabl:
        fb = P.body(fn)
        if fb is None:
            continue
        # a table function either never diverges (PAN) and, for `random`, returns Err on the empty range
        if name == "random":
            pt = tab.predicate_table(P, fb)
            # some comparison of the evaluated bound against a constant leads to Err, and Ok needs the opposite
            errs = [fs for fs, sh in pt if sh == "Err" and any(re.match(r"(Le|Lt|Gt|Ge)\(", f) for f, t in fs)]
            oks = [fs for fs, sh in pt if sh == "Ok"]
            good = bool(errs) and bool(oks) and all(any(re.match(r"(Le|Lt|Gt|Ge)\(", f) for f, t in fs) for fs in oks)
            chk.require(good, "TAB", "TAB:func_random:empty-range-is-error", "the empty-range edge returns Err(..); Ok only under the range test", "random(): %s" % sorted(((sorted(fs), sh) for fs, sh in pt), key=str), "%s:%d" % (fb.file, fb.line))


def run(chk, ctx):
    P = Prog(ctx["facts"])
    L = panrules.Lemmas(P, chk)
    chk.explanation = ("C10 decided as PAN: every panic-capable construct in the call-graph closure of try_iter / try_new / next / vars / try_iter_static / the static iterator / the public value helpers "
                       "is discharged by a machine-checked rule (index-table lemmas SIGIDX/ROWWIDTH/INPUTIDX, stack-height typestate STK, residual-variant lemma RESIDUAL, FUNC table/arity lemma, "
                       "dominating guards, uninhabited error type) — plus: the four named evaluation conditions have error constructors on guarded paths and an evaluation error leaves next() as an error item. "
                       "Calls through the generic driver parameter are the driver's responsibility (contract-honouring driver). Not decided: native stack depth; panics inside a user driver.")
    chk.trusted = ["rustc MIR construction and callee resolution", "std / rand API contracts of DESIGN.md appendix B"]
    chk.assumptions = ["ENVIRONMENT: getrandom (OS entropy) does not fail in EvalContext::new — the only allow-listed site", "callers do not mutate the pub fields TestCase.signals / ParsedTestCase.signals between loading and running (outside 'accepted at load time')",
                       "an external function not in the may-panic table and matching the safe table does not panic"]
    pancheck.run_pan(chk, P, L, ROOTS, "run", floor_sites=20, floor_fns=40)
    error_items(chk, P)
    # "surface as error items": an evaluation error raised inside a loop / while body travels up through the nested
    # iterators unchanged — the body is drained with `?`, nothing swallows an Err on the way (shared with C01)
    from . import c01 as _c01
    _c01.run(chk.only(("AUT:states-classified", "AUT:8:", "AUT:error-edges", "floor:AUT")), ctx)
    chk.not_decided = ["stack depth of deeply nested expressions/loops", "panics inside a user driver"]
