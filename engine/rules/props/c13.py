"""C13 — driver failures and contract violations surface as errors, never as wrong rows."""
import re
from ..core import pan, terms, tab, ordrules
from ..core.facts import callee_name
from ..core.prog import canon, Prog
from . import panrules
from .iter_rules import *


def closure_table(P, cl):
    return tab.predicate_table(P, cl)


def run(chk, ctx):
    P = Prog(ctx["facts"])
    from . import eqrules
    eqrules.require(chk, P, ["Signal"], "`output.signal == signal` identifies the signal (name, width and direction all equal)")
    L = panrules.Lemmas(P, chk)
    chk.explanation = ("C13 decided as: ORG (the driver's Err payload flows, by moves only, through `?` and the derived From<T> for IterationError<T> = Driver(source), and through next()'s Err arm, to the caller); "
                       "CNT (one driver call per next(), nothing prefetched: the failing call's next() returns the error and earlier rows are unaffected); "
                       "GUARD (every read outputs[i] in the extraction is dominated by the length test against the remembered first-answer length and by the signal-identity test; Ok(value) only on the equal edge) "
                       "with lemma OUTIDX (stored positions < remembered length).")
    chk.trusted = ["rustc MIR; thiserror's derived From impl is read from its MIR, not assumed"]
    # 1. derived From
    fr = P.body("<errors::IterationError<T> as std::convert::From<T>>::from")
    if chk.anchor("From<T> for IterationError<T>", fr):
        r = set(canon(P.sl(fr).ret(rb)) for rb in P.cfg(fr).return_blocks())
        chk.require(r == {"IterationError::Driver{0: source}"}, "ORG", "ORG:From<T>-is-Driver(source)", "From<T>::from(e) = IterationError::Driver(e)", "the conversion of a driver error builds %s" % r)
    # 2. `?` at every driver call site inside the iterator
    n = 0
    for b, bb, nm in driver_sites(P):
        if b.name == "TestDriver::write_input":
            continue
        n += 1
        shapes = set()
        for pi in tab.paths(P, b, to_return_only=True):
            for d in pi.decisions():
                if d[0] == "variant" and d[2] == ("Break",):
                    subj = terms.strip(d[3])
                    if subj[0] == "call" and subj[1].endswith("Try>::branch") and terms.strip(subj[2][0])[0] == "call" and terms.strip(subj[2][0])[3] == bb:
                        shapes.add(canon(pi.ret()))
        good = len(shapes) == 1 and re.fullmatch(r"FromResidual::from_residual\(break!\(Try::branch\(TestDriver::\w+\(.*\)\)\)\)", list(shapes)[0] if shapes else "")
        chk.require(bool(good), "ORG", "ORG:%s:%s:error-propagated-unchanged" % (b.name.split("::")[-1], nm.split("::")[-1]), "Err(e) => return Err(From::from(e))", "the error of the %s call in %s leaves as %s" % (nm.split("::")[-1], b.name, sorted(shapes)), "%s:%d" % (b.file, b.term(bb)["span"]["line"]))
    provided_write_input_rule(chk, P)
    chk.floor("ORG", "driver call sites with `?`", n, 3)
    # "from the constructor when it is the initial call, otherwise as the item for exactly the row whose call failed": the
    # constructor owns exactly one driver call (a second one would surface a row's failure from try_iter) — shared with C02
    from . import c02 as _c02
    _c02.run(chk.only(("CNT:try_new:exactly-one-read-call", "WHO:try_new-uses-read-call", "WHO:driver-call-sites")), ctx)
    # 3. next() forwards handle_io's error; try_iter forwards try_new's result
    nx = P.body(NEXT)
    if chk.anchor("next", nx):
        shapes = set()
        for pi in tab.paths(P, nx, to_return_only=True):
            for d in pi.decisions():
                if d[0] == "variant" and "handle_io" in d[1] and d[2] == ("Err",):
                    shapes.add(canon(pi.ret()))
        # `Some(r.map(f))` hands r's Err on as it is (Result::map touches only the Ok value)
        for pi in tab.paths(P, nx, to_return_only=True):
            r_ = canon(pi.ret())
            m_ = re.fullmatch(r"Option::Some\{0: Result::map\((DataRowIterator::handle_io\(.*\)), closure\(\{closure#\d+\}\)\)\}", r_)
            if m_:
                shapes.add("Option::Some{0: Result::Err{0: err!(%s)}}" % m_.group(1))
        good = len(shapes) == 1 and re.fullmatch(r"Option::Some\{0: Result::Err\{0: err!\(DataRowIterator::handle_io\(.*\)\)\}\}", list(shapes)[0] if shapes else "")
        chk.require(bool(good), "ORG", "ORG:next:handle_io-error-forwarded", "Err(e) => Some(Err(e))", "handle_io's error leaves next() as %s" % sorted(shapes))
        g = count_range(P, nx, DRIVER, {DRI + "handle_io": (1, 1)})
        chk.require(all(v[1] <= 1 for v in g.values()) and g.get("Some(Ok)") == [1, 1], "CNT", "CNT:next:one-call-per-item", "at most one driver call per next(): %s" % g, "next() makes %s driver calls" % g)
    ti = P.body("TestCase::try_iter")
    if chk.anchor("try_iter", ti):
        r = set(canon(P.sl(ti).ret(rb)) for rb in P.cfg(ti).return_blocks())
        chk.require(r == {"DataRowIterator::try_new(self, driver)"}, "ORG", "ORG:try_iter-forwards-try_new", "try_iter = try_new(self, driver)", "try_iter returns %s" % r)
    # 4. extraction guards
    ex = P.body(TD + "extract_output_values")
    if chk.anchor("extract_output_values", ex):
        cls = [c for c in P.f.closures_of(ex.name)]
        main = [c for c in cls if any(callee_name(t)[0].endswith("Index<I>>::index") for bb, t in c.calls())]
        if chk.anchor("per-entry closure", main):
            c = main[0]
            rows = set()
            for pi in tab.paths(P, c, to_return_only=True):
                arm = [d[2] for d in pi.decisions() if d[0] == "variant" and d[1].endswith(".1") or (d[0] == "variant" and "output_indices" in d[1])]
                eq = [(f[0], f[1], f[2]) for f in pi.cmp_facts() if f[0] in ("Eq", "Ne") and "signal" in f[1] + f[2]]
                r = terms.strip(pi.ret())
                sh = ordrules.shape_of(r)
                pay = canon(r[3][0][1]) if r[0] == "agg" and r[3] else ""
                rows.add((arm[0] if arm else None, tuple(sorted(set(e[0] for e in eq))), sh, pay if sh == "Ok" else ""))
            E = r"elem\(Iterator::zip\(\[T\]::iter\(self\.expected_indices\), self\.output_indices\)\)"
            out = [r_ for r_ in rows if r_[0] == ("Output",)]
            good = len(out) == 2 and any(r_[1] == ("Eq",) and r_[2] == "Ok" and re.fullmatch(r"Index::index\(outputs, \(%s\.1 as Output\)\.0\)\.value" % E, r_[3]) for r_ in out) and any(r_[1] == ("Ne",) and r_[2] == "Err" for r_ in out)
            chk.require(good, "GUARD", "GUARD:extract:value-only-after-identity-test", "Ok(outputs[i].value) only on the edge where the expected signal equals outputs[i].signal; Err otherwise", "Output arm of the extraction closure: %s" % sorted(out, key=str))
            # the identity test compares this entry's signal with outputs[same i].signal
            eqs = set()
            for pi in tab.paths(P, c, to_return_only=True):
                for f in pi.cmp_facts():
                    if f[0] == "Eq" and "outputs" in f[2] and "outputs" not in f[1]:
                        eqs.add((f[1], f[2]))
            want = {("self.signals[EntryIndex::signal_index(elem(Iterator::zip([T]::iter(self.expected_indices), self.output_indices)).0)]", "Index::index(outputs, (elem(Iterator::zip([T]::iter(self.expected_indices), self.output_indices)).1 as Output).0).signal")}
            chk.require(eqs == want, "ORG", "ORG:extract:identity-test-operands", "signals[expected.signal_index] == outputs[i].signal with the same i as the value read", "identity test compares %s" % sorted(eqs))
            # exact decision table of the per-entry closure and of the function around it: no further condition,
            # no other source for the value
            Z = "elem(Iterator::zip([T]::iter(self.expected_indices), self.output_indices))"
            OI = "Index::index(outputs, (%s.1 as Output).0)" % Z
            SG = "self.signals[EntryIndex::signal_index(%s.0)]" % Z
            a_, b_ = sorted(["%s.signal" % OI, SG])
            V = "variant(%s.1)" % Z
            full = set()
            for pi in tab.paths(P, c, to_return_only=True):
                r = terms.strip(pi.ret())
                sh = ordrules.shape_of(r)
                full.add((tab.path_facts(pi), sh if sh in ("Ok", "Err") else canon(r), canon(r[3][0][1]) if sh == "Ok" and r[0] == "agg" and r[3] else ""))
            want_full = {(frozenset([(V, ("None",))]), "Ok", "OutputValue::X{}"),
                         (frozenset([(V, ("Output",)), ("Eq(%s, %s)" % (a_, b_), True)]), "Ok", "%s.value" % OI),
                         (frozenset([(V, ("Output",)), ("Ne(%s, %s)" % (a_, b_), True)]), "Err", ""),
                         (frozenset([(V, ("Virtual",))]), "Result::map_err(Result::map(Expr::eval((%s.1 as Virtual).0, ctx), fn:value::OutputValue::Value), closure({closure#0}))" % Z, "")}
            chk.require(full == want_full, "TAB", "TAB:extract:exact-per-entry-table", "None => X; Output(i) => outputs[i].value iff outputs[i].signal is the entry's signal, else Err; Virtual => eval; no other condition", "the per-entry extraction behaves as %s" % sorted(full, key=str))
            outer = set()
            COLL = "Iterator::collect(Iterator::map(Iterator::zip([T]::iter(self.expected_indices), self.output_indices), closure({closure#0})))"
            for pi in tab.paths(P, ex, to_return_only=True):
                rc = canon(pi.ret())
                fs = tab.path_facts(pi)
                # `let v = collect::<Result<_, _>>()?; ..; Ok(v)` returns the same Result as returning the collected one
                if rc in ("Result::Ok{0: try(%s)}" % COLL, "FromResidual::from_residual(break!(Try::branch(%s)))" % COLL):
                    rc = COLL
                    fs = frozenset(f for f in fs if f[0] != "variant(Try::branch(%s))" % COLL)
                outer.add((fs, ordrules.ret_shape(pi) if ordrules.ret_shape(pi) in ("Ok", "Err") and rc != COLL else rc))
            NL = sorted(["Vec::len(outputs)", "self.num_driver_outputs"])
            want_outer = {(frozenset([("Eq(%s, %s)" % tuple(NL), True)]), "Iterator::collect(Iterator::map(Iterator::zip([T]::iter(self.expected_indices), self.output_indices), closure({closure#0})))"),
                          (frozenset([("Ne(%s, %s)" % tuple(NL), True)]), "Err")}
            chk.require(outer == want_outer, "TAB", "TAB:extract:exact-outer-table", "wrong answer length => Err; otherwise the collected per-entry results over zip(expected_indices, output_indices), nothing skipped", "extract_output_values behaves as %s" % sorted(outer, key=str))
            none = [r_ for r_ in rows if r_[0] == ("None",)]
            chk.require(len(none) == 1 and none[0][2] == "Ok" and none[0][3] == "OutputValue::X{}", "TAB", "TAB:extract:never-supplied-is-X", "OutputEntryIndex::None => Ok(X)", "None arm: %s" % none)
            # length test dominates the closure
            cs = P.closure_creation(c)
            g = panrules.guards_at(P, cs[0], cs[1]) if cs else []
            flds = [re.fullmatch(r"self\.(\w+)", x[2]).group(1) for x in g if x[0] == "Eq" and x[1] == "Vec::len(outputs)" and re.fullmatch(r"self\.(\w+)", x[2])]
            chk.require(bool(flds), "GUARD", "GUARD:extract:length-test-first", "the per-entry closure runs only when outputs.len() == self.%s" % (flds[0] if flds else "?"), "no dominating test of outputs.len() against a remembered length field before the per-entry extraction (guards %s)" % [x for x in g if x[0] in ("Eq", "Ne")])
            if flds:
                L.need("OUTIDX:" + flds[0])
    # the answer handed to the extraction is this call's answer
    hio = P.body(DRI + "handle_io")
    if hio is not None:
        for bb, t in hio.calls():
            if callee_name(t)[0] == TD + "extract_output_values":
                a = [canon(x) for x in P.call_arg_terms(hio, bb)]
                chk.require(a[1] == "try(TestDriver::write_input_and_read_output(self.driver, inputs))", "ORG", "ORG:handle_io:extraction-gets-this-calls-answer", a[1], "extract_output_values receives %s" % a[1])
    chk.not_decided = ["a consistent driver that returns outputs no expected signal matches is accepted (outside the statement)"]
