"""C15 — deterministic and re-runnable; static iteration equals any dynamic run."""
import re
from ..core import pan, terms, tab, ordrules
from ..core.facts import callee_name
from ..core.prog import canon, Prog
from . import panrules
from .iter_rules import *

ITER_STARTERS = re.compile(r"(<std::collections::(HashMap|HashSet)<.*> as std::iter::IntoIterator>::into_iter|<&(mut )?std::collections::(HashMap|HashSet)<.*> as std::iter::IntoIterator>::into_iter|std::collections::(HashMap|HashSet)::(iter|iter_mut|keys|values|values_mut|into_keys|into_values|drain|difference|union|intersection|symmetric_difference|extract_if|retain))$")
ORDER_FREE = ("::any", "::all", "::count", "::contains", "::is_subset", "::is_superset", "::is_disjoint", "::len", "::sum", "::min", "::max")


def hash_iteration_sites(P):
    out = []
    for b in P.f.hand_bodies():
        for bb, t in b.calls():
            nm, fi = callee_name(t)
            full = fi.get("fn", nm) if isinstance(fi, dict) else nm
            probe = nm
            if nm.endswith("iter::IntoIterator>::into_iter"):
                st = fi.get("self_ty", "") or ""
                if re.search(r"std::collections::(hash::map::|hash::set::)?(HashMap|HashSet)<", st):
                    probe = "<std::collections::HashMap<> as std::iter::IntoIterator>::into_iter"
                else:
                    continue
            if ITER_STARTERS.search(probe):
                out.append((b, bb, nm))
    return out


def sorted_before_use(P, b, start_bb):
    """The chain starting at the hash iteration in start_bb is collected into a Vec
    local V; some `sort*` on V dominates every later use of V.  -> (ok, detail)"""
    sl = P.sl(b)
    cfg = P.cfg(b)
    # follow dest -> arg chain until a collect
    cur = b.term(start_bb)["dest"]["l"]
    bbx = start_bb
    chain = []
    for _ in range(12):
        nxt = None
        for bb2, t2 in b.calls():
            if any(a.get("k") in ("move", "copy") and a["l"] == cur and not a["p"] for a in t2["args"]):
                nxt = (bb2, t2)
                break
        if nxt is None:
            break
        bb2, t2 = nxt
        nm2 = callee_name(t2)[0]
        chain.append(nm2.split("::")[-1])
        cur = t2["dest"]["l"]
        bbx = bb2
        if nm2.endswith("::collect"):
            break
    if not chain or chain[-1] != "collect":
        return (False, "iteration is not collected: %s" % chain, None)
    vty = b.local_ty(cur)
    if re.search(r"collections::(HashMap|HashSet|BTreeMap|BTreeSet)", vty):
        return (True, "collected into an unordered/sorted container %s" % vty, "container")
    collect_bb = bbx

    def is_v(t):
        t = terms.strip(t)
        return t[0] == "call" and t[1].endswith("::collect") and t[3] == collect_bb

    sorts, uses = [], []
    for bb2 in sorted(b.reachable_blocks()):
        t2 = b.term(bb2)
        if t2["t"] == "call":
            nm2 = callee_name(t2)[0]
            args = sl.call_args(bb2)
            if re.search(r"::sort(_unstable)?(_by|_by_key|_by_cached_key)?$", nm2) and args and is_v(args[0]):
                sorts.append(bb2)
            elif bb2 != collect_bb and any(is_v(a) for a in args) and not nm2.endswith("DerefMut>::deref_mut"):
                uses.append(bb2)
        for i, st in enumerate(b.blocks[bb2]["stmts"]):
            if st["s"] == "assign" and st["rv"]["r"] == "agg":
                for o in st["rv"]["ops"]:
                    if is_v(sl.operand(o, bb2, i)):
                        uses.append(bb2)
    if not sorts:
        return (False, "the collected vector is never sorted", None)
    if not uses:
        return (False, "no use of the collected vector found", None)
    if not all(any(cfg.dominates(s_, u) and s_ != u for s_ in sorts) for u in uses):
        return (False, "a use of the collected vector is not dominated by its sort", None)
    return (True, "collected into a Vec that must pass through sort_by before it is stored in the result", "sorted")


def run(chk, ctx):
    P = Prog(ctx["facts"])
    chk.explanation = ("C15 decided as: DET order-leak rule (every iteration-starting call on a HashMap/HashSet in hand-written code is classified: collected and must-pass-through a sort before any other use; order-insensitive consumer / unordered container; error text only; commuting loop — keyed by function and container, each class condition machine-checked; anything else is an order leak), "
                       "inventories (no static mut, no static with interior mutability, no thread_local; the only ambient input is getrandom in EvalContext::new, which the property exempts), TYPE (TestCase and everything reachable from it is Freeze; the iterator's test data holds shared references only; all run state is owned by the iterator), "
                       "GUARD (try_iter_static returns Err exactly on the !read_outputs.is_empty() edge), ORG (the static iterator wraps a DataRowIterator; From<DataRow> for StaticDataRow moves inputs and line and maps outputs to their expected values in order; the static next() forwards rows and runtime errors), "
                       "taint (the driver's answers flow only into the outputs map, the per-entry output values and the layout tests).")
    chk.trusted = ["std: Vec/slice iteration order is positional; sort_by with a total order is deterministic"]
    sites = hash_iteration_sites(P)
    chk.floor("DET", "hash-container iteration sites", len(sites), 3)   # the three drains of Parser::finish are the sites the property rests on; fewer hash iterations elsewhere are only safer
    seen = []
    for b, bb, nm in sites:
        recv = canon(P.call_arg_terms(b, bb)[0])
        site = "%s:%d" % (b.file, b.term(bb)["span"]["line"])
        key = "DET:%s:%s" % (b.name, recv if len(recv) < 60 else nm.split("::")[-1])
        fn = b.name
        method = nm.split("::")[-1]
        seen.append((fn, recv[:60], method))
        if fn == "parser::Parser::finish":
            ok, why, cls = sorted_before_use(P, b, bb)
            chk.require(ok, "DET", key, why, "order leak: %s is iterated in hash order and %s" % (recv, why), site)
        elif fn == "dig::File::parse" and method == "difference":
            # error text only: flows into join -> MissingSignals
            dest = b.term(bb)["dest"]["l"]
            uses = [canon(x) for (cb, cbb, i, st) in P.constructors("errors::DigFileErrorKind::MissingSignals") if cb is b for x in [P.sl(b).rvalue(st["rv"], cbb, i)[3][0][1]]]
            good = len(uses) == 1 and "HashSet::difference(" in uses[0] and uses[0].startswith("[T]::join(")
            others = [canon(P.sl(b).rvalue(st["rv"], cbb, i)) for (cb, cbb, i, st) in P.constructors("dig::File") if cb is b]
            good = good and all("difference" not in o for o in others)
            chk.require(good, "DET", key, "class (iii): feeds only the text of the MissingSignals error", "order leak: the hash-ordered difference reaches %s" % (uses + others), site)
        elif fn == "dig::File::parse" and method == "into_iter":
            # class (iv): `for name in bidirectional`: each iteration rewrites the typ of one signal selected by name and current type
            cfg = P.cfg(b)
            body_calls = []
            cyc = cfg.cyclic_blocks()
            writes = []
            for x in sorted(cyc):
                for i, st in enumerate(b.blocks[x]["stmts"]):
                    if st["s"] == "assign" and st["lhs"]["p"] and st["lhs"]["p"][0] == "*":
                        writes.append(([e.get("f") if isinstance(e, dict) else e for e in st["lhs"]["p"]], canon(P.sl(b).rvalue(st["rv"], x, i))))
            loopw = [w for w in writes if w[0][-1] == "typ"]
            good = len(loopw) == 1 and re.fullmatch(r"SignalType::Bidirectional\{default: \(.*Iterator::find\(\[T\]::iter_mut\(.*\), closure\(\{closure#\d+\}\)\).*\.typ.* as Input\)\.default\}", loopw[0][1]) is not None
            otherw = [w for w in writes if w[0][-1] != "typ" and "signals" in str(w)]
            chk.require(good and not otherw, "DET", key, "class (iv): iterations commute — each converts the first Input signal of that name to Bidirectional keeping its default; distinct names touch distinct signals", "the loop over the bidirectional set does more than convert one signal's type per name: %s" % writes, site)
        else:
            # generic: order-insensitive consumer directly on the iterator
            dest = b.term(bb)["dest"]["l"]
            consumer = None
            for bb2, t2 in b.calls():
                if any(a.get("k") in ("move", "copy") and a["l"] == dest and not a["p"] for a in t2["args"]):
                    consumer = callee_name(t2)[0]
            good = consumer is not None and consumer.endswith(ORDER_FREE)
            chk.require(good, "DET", key, "class (i): consumed by %s" % consumer, "unclassified hash-order iteration: %s over %s in %s (consumer %s)" % (method, recv, fn, consumer), site)
    chk.sample({"hash_iteration_sites": seen})
    # sort keys are the stored spans
    fin = P.body("parser::Parser::finish")
    if chk.anchor("Parser::finish", fin):
        ncmp = 0
        for cl in P.f.closures_of(fin.name):
            cs = panrules.canon_calls(P, cl)
            if any(n.endswith("cmp") for n, a in cs):
                ncmp += 1
                good = len(cs) == 1 and re.fullmatch(r"elem\(.*\)\.0\.1\.start|_2\.0\.1\.start|.*\.1\.start", cs[0][1][0]) is not None and cs[0][1][1].endswith(".1.start")
                chk.require(good, "DET", "DET:finish:sort-key:%s" % cl.name.split("::")[-1], "usize::cmp(a.span.start, b.span.start)", "sort comparator is %s" % cs)
        chk.floor("DET", "sort comparators in finish", ncmp, 3)
    # inventories
    statics = [i for i in P.f.items if i["kind"].startswith("Static")]
    bad = [i["name"] for i in statics if i.get("mutable") or not i.get("freeze") or i.get("thread_local")]
    hand = [i["name"] for i in statics if not i["exp"]]
    chk.require(not bad, "INV", "INV:no-mutable-or-interior-mutable-static", "%d static(s), all immutable and Freeze (logos lookup tables)" % len(statics), "statics with mutable state: %s" % bad)
    chk.require(not hand, "INV", "INV:no-hand-written-static", "no hand-written static item", "hand-written statics: %s" % hand)
    tls = []
    for b in P.f.all_bodies:
        for bb in b.reachable_blocks():
            for st in b.blocks[bb]["stmts"]:
                if st["s"] == "assign" and st["rv"]["r"] == "tls":
                    tls.append(b.name)
    chk.require(not tls, "INV", "INV:no-thread-local", "no thread_local access", "thread-local access in %s" % sorted(set(tls)))
    ambient = sorted(set(b.name for b, bb, nm in P.callers(lambda n: n.startswith("getrandom::") or n.startswith("std::time::") or n.startswith("std::env::") or "thread_rng" in n or n.startswith("std::process::id"))))
    chk.require(ambient == [EC + "new"], "INV", "INV:ambient-inputs", "the only ambient input is getrandom in EvalContext::new (exempted: values drawn by random)", "ambient inputs read in %s" % ambient)
    # types
    for adt in ("TestCase", "Signal", "stmt::Stmt", "expr::Expr", "parsed_test_case::ParsedTestCase"):
        a = P.f.adts.get(adt)
        chk.require(a is not None and a["freeze"], "TYPE", "TYPE:%s-is-Freeze" % adt, "no interior mutability: a shared borrow cannot change it", "%s is not Freeze (contains interior mutability)" % adt)
    td = P.f.adts.get("data_row_iterator::DataRowIteratorTestData")
    if chk.anchor("DataRowIteratorTestData", td):
        flds = {f["name"]: f["ty"] for f in td["variants"][0]["fields"]}
        shared = all(flds.get(k, "").startswith("&'a [") for k in ("signals", "input_indices", "expected_indices"))
        chk.require(shared and not any("&'a mut" in v or "&mut" in v for v in flds.values()), "TYPE", "TYPE:iterator-borrows-test-immutably", "test data is held through shared slices only", "DataRowIteratorTestData fields: %s" % flds)
    it = P.f.adts.get("data_row_iterator::DataRowIterator")
    if chk.anchor("DataRowIterator", it):
        flds = {f["name"]: f["ty"] for f in it["variants"][0]["fields"]}
        chk.require(flds.get("ctx") == "eval_context::EvalContext" and flds.get("driver") == "&'b mut T", "TYPE", "TYPE:run-state-owned-by-iterator", "ctx owned, driver exclusively borrowed", "DataRowIterator fields: %s" % flds)
    # try_iter_static
    ts = P.body("static_test::<impl TestCase>::try_iter_static")
    if chk.anchor("try_iter_static", ts):
        rows = set()
        for pi in tab.paths(P, ts, to_return_only=True):
            e = [f[3] for f in pi.cmp_facts() if f[0] == "call" and f[1] == "Vec::is_empty" and f[2] == ("self.read_outputs",)]
            rows.add((e[0] if e else None, ordrules.ret_shape(pi)))
        chk.require(rows == {(True, "Ok"), (False, "Err")}, "GUARD", "GUARD:try_iter_static:iff-no-outputs-read", "Err exactly when read_outputs is non-empty", "try_iter_static: (read_outputs.is_empty(), result) = %s" % sorted(rows, key=str))
    sit = P.f.adts.get("static_test::StaticDataRowIterator")
    if chk.anchor("StaticDataRowIterator", sit):
        flds = {f["name"]: f["ty"] for f in sit["variants"][0]["fields"]}
        chk.require(re.fullmatch(r"data_row_iterator::DataRowIterator<'a, 'static, static_test::Driver>", flds.get("it", "")) is not None, "TYPE", "TYPE:static-iterator-is-a-dynamic-iterator", "field it: DataRowIterator<_, _, static Driver>", "StaticDataRowIterator fields: %s" % flds)
    fr = P.body("<static_test::StaticDataRow as std::convert::From<DataRow>>::from")
    if chk.anchor("From<DataRow> for StaticDataRow", fr):
        r = set(canon(P.sl(fr).ret(rb)) for rb in P.cfg(fr).return_blocks())
        chk.require(r == {"static_test::StaticDataRow{inputs: row.inputs, expected: Iterator::collect(Iterator::map(IntoIterator::into_iter(row.outputs), closure({closure#0}))), line: row.line}"}, "ORG", "ORG:StaticDataRow:from", "inputs and line moved; outputs mapped in order", "StaticDataRow::from builds %s" % r)
        cl = P.body(fr.name + "::{closure#0}")
        if cl is not None:
            rr = set(canon(P.resolve(cl, P.sl(cl).ret(rb))) for rb in P.cfg(cl).return_blocks())
            E = "elem(IntoIterator::into_iter(row.outputs))"
            chk.require(rr == {"ExpectedEntry{signal: %s.signal, value: %s.expected}" % (E, E)}, "ORG", "ORG:StaticDataRow:expected-entry", "ExpectedEntry{signal, value: expected}", "expected entries built as %s" % rr)
    sn = P.body("<static_test::StaticDataRowIterator as std::iter::Iterator>::next")
    if chk.anchor("StaticDataRowIterator::next", sn):
        rows = set()
        for pi in tab.paths(P, sn):
            last = pi.path[-1]
            d = []
            for x in pi.decisions():
                if x[0] == "variant" and x[1] not in [y[0] for y in d]:
                    d.append((x[1], x[2]))
            d = tuple(d)
            if sn.term(last)["t"] == "return" and pi.back is None:
                rows.add((d, canon(pi.ret())))
        IT = "Iterator::next(self.it)"
        want = {(((IT, ("None",)),), "Option::None{}"),
                (((IT, ("Some",)), ("some!(%s)" % IT, ("Ok",))), "Option::Some{0: Result::Ok{0: Into::into(ok!(some!(%s)))}}" % IT),
                (((IT, ("Some",)), ("some!(%s)" % IT, ("Err",)), ("err!(some!(%s))" % IT, ("Runtime",))), "Option::Some{0: Result::Err{0: (err!(some!(%s)) as Runtime).0}}" % IT)}
        chk.require(rows == want, "TAB", "TAB:static-next:forwards", "None -> None; Ok(row) -> Ok(row.into()); Err(Runtime(e)) -> Err(e)", "static next() rows: %s" % sorted(rows, key=str))
    # taint of the driver's answers
    hio = P.body(DRI + "handle_io")
    if hio is not None:
        ans = "try(TestDriver::write_input_and_read_output(self.driver, inputs))"
        users = sorted(set(nm.split("::")[-1] for bb, t in hio.calls() for nm in [callee_name(t)[0]] if any(ans == canon(x) for x in P.call_arg_terms(hio, bb)) and not nm.endswith("Deref>::deref") and not nm.endswith("Try>::branch")))
        chk.require(users == ["extract_output_values", "set_outputs"], "ORG", "ORG:taint:row-answer-consumers", "the answer of a row's call is used only by set_outputs and the extraction", "the driver's answer flows into %s" % users)
    tn = P.body(DRI + "try_new")
    if tn is not None:
        ans = "try(TestDriver::write_input_and_read_output(driver, DataRowIteratorTestData::generate_default_input_entries(DataRowIteratorTestData::new(test_case))))"
        users = sorted(set(nm.split("::")[-1] for bb, t in tn.calls() for nm in [callee_name(t)[0]] if any(ans == canon(x) for x in P.call_arg_terms(tn, bb)) and not nm.endswith("Deref>::deref") and not nm.endswith("Try>::branch")))
        chk.require(users == ["build_output_indices", "new_with_outputs"], "ORG", "ORG:taint:first-answer-consumers", "the first answer is used only by build_output_indices and new_with_outputs", "the first answer flows into %s" % users)
    scope_soundness(chk, P)
    # the gate's reading of the parser's scope is right only if, at run time too, a bound variable hides an output of the same name
    get_shape_rule(chk, P)
    swap_pair_rule(chk, P)
    # the gate is only as good as the parser's classification of identifiers: the parse-time scoping rules (shared with C11)
    from . import c11
    c11.scoping_rules(chk, P, exclude=("while-opens-no-scope",))   # that one is C01/C11's; here a while frame would be welcome (F18)
    # ... and as the interpreter's scoping at run time: every name the parser holds in scope at a read must be bound
    # when that read executes (a frame popped that was never pushed, a counter not set, a `let` that does not bind
    # would let the read fall through to the device outputs) — the run-time half, shared with C01
    from . import c01
    c01.run(chk.only(("AUT:states-classified", "AUT:3:", "AUT:4:", "AUT:6", "AUT:7:", "TAB:FramedMap", "ORG:set-forwards", "ORG:push_frame-forwards", "ORG:pop_frame-forwards", "WHO:vars-writers", "WHO:FramedMap")), ctx)
    chk.not_decided = ["equality of random streams across runs (exempted by the property)"]


PSB = "parser::stmt::<impl parser::Parser>::parse_stmt_block"


def scope_soundness(chk, P):
    """The static gate trusts the parser: an identifier counts as an output read unless a
    variable of that name is in the parse-time scope.  That is sound only if every name in the
    parse-time scope is bound at run time whenever the read executes (otherwise EvalContext::get
    falls through to the device outputs).  Rule: for every statement kind whose body the
    interpreter may skip entirely (an edge from its entry state back to the fetch state that
    does not run the body), the parser must discard the names bound while parsing that body
    (push_frame before / pop_frame after the recursive block parse)."""
    from . import c01
    nwc = P.body(c01.NWC)
    psb = P.body(PSB)
    if not (chk.anchor("interpreter", nwc) and chk.anchor("parse_stmt_block", psb)):
        return
    A = c01.Automaton(P, nwc)
    # statement kinds with a body, their entry state, and whether the body can be skipped
    entry = {}
    for e in A.edges:
        if e["state"] == "Iterate" and e["kind"] == "loop" and e["next"]:
            kinds = [g[2] for g in e["guards"] if g[0] == "variant" and g[1] == "STMT"]
            if kinds and len(kinds[0]) == 1:
                entry[kinds[0][0]] = e["next"][0]
    runs_body = set(e["state"] for e in A.edges if any(x[0] == "next_with_context" for x in e["effects"]))
    skippable = {}
    for kind, st in entry.items():
        # reach Iterate from the entry state without passing a state that runs the body
        seen, work, skip = set(), [st], False
        while work:
            x = work.pop()
            if x in seen or x in runs_body:
                continue
            seen.add(x)
            for e in A.edges:
                if e["state"] == x and e["kind"] == "loop" and e["next"]:
                    if e["next"][0] == "Iterate":
                        skip = True
                    else:
                        work.append(e["next"][0])
        skippable[kind] = skip
    chk.require(set(entry) == {"Loop", "While"} and all(skippable.values()), "AUT", "AUT:skippable-bodies", "Loop (max <= 0) and While (condition == 0) may skip their body", "statement kinds with bodies / skippable: %s" % skippable)
    cfg = P.cfg(psb)
    # parser side: per constructed Stmt kind with a body, is the recursive block parse bracketed by a frame?
    for kind in sorted(entry):
        cons = [(bb, i) for (cb, bb, i, st) in P.constructors("stmt::Stmt::" + kind) if cb is psb]
        if not chk.anchor("parser builds Stmt::%s" % kind, cons):
            continue
        for (cbb, ci) in cons:
            # body parses feeding this literal: recursive block parses / row parses dominating the literal in the same arm
            ac = [a for a in pan.arm_context(psb, cbb, cfg) if a.get("enum", "").endswith("TokenKind") and canon(a["on"]) == "Parser::peek(self)"]
            arm = tuple(ac[-1]["variants"]) if ac else ()
            def in_arm(bb):
                a2 = [a for a in pan.arm_context(psb, bb, cfg) if a.get("enum", "").endswith("TokenKind") and canon(a["on"]) == "Parser::peek(self)"]
                return bool(a2) and tuple(a2[-1]["variants"]) == arm
            body = [bb for bb, t in psb.calls() if callee_name(t)[0] in (PSB, "parser::stmt::<impl parser::Parser>::parse_data_row") and in_arm(bb) and cfg.dominates(bb, cbb)]
            push = [bb for bb, t in psb.calls() if callee_name(t)[0] == "framed_map::FramedSet::push_frame" and in_arm(bb)]
            pop = [bb for bb, t in psb.calls() if callee_name(t)[0] == "framed_map::FramedSet::pop_frame" and in_arm(bb)]
            framed = bool(body) and all(any(cfg.dominates(pu, bd) for pu in push) and any(cfg.dominates(bd, po) and cfg.dominates(po, cbb) for po in pop) for bd in body)
            site = "%s:%d" % (psb.file, psb.blocks[cbb]["stmts"][ci]["span"]["line"])
            chk.require(framed or not skippable.get(kind), "GATE", "GATE:static:%s(%s)-body-bindings-outlive-a-skippable-body" % (kind, "/".join(arm)),
                        "names bound while parsing the body are discarded (frame) — the parse-time scope stays a subset of the run-time bindings",
                        "the interpreter may skip the body of Stmt::%s, but names `let`-bound while parsing it stay in the parser's scope: a later read of such a name is not recorded as an output read although it falls through to the device outputs when the body did not run, so try_iter_static accepts a test whose rows depend on the driver" % kind, site)
