"""C04 — expressions that read outputs see the most recently read device values."""
import re
from ..core import pan, terms, tab, ordrules
from ..core.facts import callee_name
from ..core.prog import canon, alloc_site, selection_of, Prog
from . import panrules
from .iter_rules import *


def run(chk, ctx):
    P = Prog(ctx["facts"])
    # "a variable of the same name IN SCOPE takes precedence": once a loop has ended (or was never entered) its counter and its
    # lets must be gone, or they keep hiding the device output — the interpreter's run-time scoping, shared with C01
    from . import c01 as _c01
    _c01.run(chk.only(("AUT:states-classified", "AUT:3:", "AUT:4:", "AUT:6", "AUT:7:", "TAB:FramedMap", "ORG:set-forwards", "ORG:push_frame-forwards", "ORG:pop_frame-forwards", "WHO:vars-writers", "WHO:FramedMap")), ctx)
    from .iter_rules import plumbing_rule
    plumbing_rule(chk, P, {"ParsedTestCase": ("read_outputs",), "TestCase": ("read_outputs",)})   # what the parser / the binding produced is what runs
    # "variables shadow outputs" holds only while the real variable map is the active one: the exchange made for
    # virtual-signal evaluation must be undone on every path (shared with C14 / C18)
    swap_pair_rule(chk, P)
    from . import eqrules
    eqrules.require(chk, P, ["Signal"], "`output.signal == signal` identifies the signal (name, width and direction all equal)")
    eqrules.require_clone(chk, P, ["value::OutputValue"], "EvalContext::get hands out the stored output value")
    chk.explanation = ("C04 decided structurally: TAB (variables shadow outputs in EvalContext::get; Expr::Variable yields Ok only for Value), WHO (who writes / refreshes the outputs map: the constructor literal and set_outputs, "
                       "called only from new_with_outputs and handle_io's read branch; set_outputs replaces the map by exactly its argument), ORD (in handle_io the write branch refreshes nothing; in next() the row is evaluated by get_row strictly before its own IO and nothing is evaluated afterwards outside handle_io; "
                       "in try_new build_output_indices lies on every Ok path with its error propagated and rejects iff a read output is missing from the first answer).")
    chk.trusted = ["rustc MIR and callee resolution"]
    get_shape_rule(chk, P)
    # writers of outputs
    w = sorted(set((x[0].name, x[3]) for x in P.field_writers("eval_context::EvalContext", "outputs")))
    chk.require(w == [(EC + "set_outputs", "assign")], "WHO", "WHO:outputs-writers", "only set_outputs assigns EvalContext.outputs", "EvalContext.outputs written at %s" % w)
    so = P.body(EC + "set_outputs")
    if chk.anchor("set_outputs", so):
        vals = set()
        for bb in sorted(so.reachable_blocks()):
            for i, st in enumerate(so.blocks[bb]["stmts"]):
                if st["s"] == "assign" and any(isinstance(e, dict) and e.get("f") == "outputs" for e in st["lhs"]["p"]):
                    vals.add(canon(P.sl(so).rvalue(st["rv"], bb, i)))
        chk.require(vals == {"Iterator::collect(Iterator::map([T]::iter(outputs), closure({closure#0})))"}, "ORG", "ORG:set_outputs-replaces-map", "outputs = outputs.iter().map(..).collect()  (replace, not merge)", "set_outputs assigns %s" % vals)
        for cl in P.f.closures_of(so.name):
            r = set(canon(P.resolve(cl, P.sl(cl).ret(rb))) for rb in P.cfg(cl).return_blocks())
            chk.require(r == {"tuple(ToString::to_string(elem([T]::iter(outputs)).signal.name), elem([T]::iter(outputs)).value)"}, "ORG", "ORG:set_outputs-entry", "(entry.signal.name, entry.value)", "set_outputs maps an entry to %s" % r)
    callers = sorted(set(b.name for b, bb, nm in P.callers(lambda n: n == EC + "set_outputs")))
    chk.require(callers == sorted([EC + "new_with_outputs", DRI + "handle_io"]), "WHO", "WHO:set_outputs-callers", "new_with_outputs (constructor's answer) and handle_io's read branch", "set_outputs called from %s" % callers)
    callers = sorted(set(b.name for b, bb, nm in P.callers(lambda n: n == EC + "new_with_outputs")))
    chk.require(callers == [DRI + "try_new"], "WHO", "WHO:new_with_outputs-callers", "only try_new", "new_with_outputs called from %s" % callers)
    handle_io_order_rule(chk, P)
    # next(): evaluate, then IO, nothing else evaluated before return
    nx = P.body(NEXT)
    if chk.anchor("next", nx):
        evaluators = P.cg.reachers({"expr::Expr::eval"}) | {"expr::Expr::eval"}
        seqs = set()
        for pi in tab.paths(P, nx, to_return_only=True):
            names = tuple(nm for bb, nm, a in pi.calls() if nm in evaluators)
            seqs.add(names)
        full = (TD + "get_row", DRI + "handle_io")
        good = all(s in ((), (TD + "get_row",), full) for s in seqs) and full in seqs
        chk.require(good, "ORD", "ORD:next:evaluate-then-io", "get_row strictly precedes handle_io; no other evaluator call on any path of next()", "evaluator call orders in next(): %s" % sorted(seqs))
    # try_new
    tn = P.body(DRI + "try_new")
    if chk.anchor("try_new", tn):
        okb = [bb for (cb, bb, i, st) in P.constructors("std::result::Result::Ok") if cb is tn]
        n = 0
        for target in okb:
            for pi in ordrules.paths_to(P, tn, target):
                n += 1
                seq = ordrules.call_sequence(pi)
                names = [nm for bb, nm in seq]
                want = [READ, TD + "build_output_indices", EC + "new_with_outputs"]
                chk.require(ordrules.is_subsequence(want, names), "ORD", "ORD:try_new:layout-check-on-every-Ok-path", "read-call, build_output_indices, new_with_outputs", "Ok path of try_new calls %s" % [x.split("::")[-1] for x in names])
                for bb, nm in seq:
                    if nm == TD + "build_output_indices":
                        chk.require(ordrules.propagated(pi, tn, bb), "ORD", "ORD:try_new:missing-output-error-propagated", "build_output_indices(..)?", "the result of build_output_indices is not propagated")
        chk.floor("ORD", "Ok paths of try_new", n, 1)
        seqs = set()
        for pi in tab.paths(P, tn, to_return_only=True):
            seqs.add((ordrules.ret_shape(pi), tuple(nm.split("::")[-1] for bb, nm, a in pi.calls() if nm in P.f.bodies or nm in DRIVER)))
        full = ("new", "generate_default_input_entries", "write_input_and_read_output", "build_output_indices", "new_with_outputs")
        chk.require(seqs == {("Ok", full), ("Err", full[:4]), ("Err", full[:3])}, "ORD", "ORD:try_new:exact-call-sequence", "constructor does exactly: new, default vector, read-call, layout check, context — nothing is evaluated or prefetched", "try_new call sequences: %s" % sorted(seqs, key=str))
        for bb, t in tn.calls():
            if callee_name(t)[0] == EC + "new_with_outputs":
                a = [canon(x) for x in P.call_arg_terms(tn, bb)]
                chk.require(a == ["try(TestDriver::write_input_and_read_output(driver, DataRowIteratorTestData::generate_default_input_entries(DataRowIteratorTestData::new(test_case))))"], "ORG", "ORG:try_new:context-seeded-with-first-answer", "new_with_outputs(&constructor answer)", "new_with_outputs receives %s" % a)
    boi = P.body(TD + "build_output_indices")
    if chk.anchor("build_output_indices", boi):
        shapes = set()
        for pi in tab.paths(P, boi, to_return_only=True):
            emp = [f[3] for f in pi.cmp_facts() if f[0] == "call" and f[1] == "Vec::is_empty"]
            if emp:
                shapes.add((emp[-1], ordrules.ret_shape(pi)))
        chk.require(shapes == {(True, "Ok"), (False, "Err")}, "GUARD", "GUARD:build_output_indices:missing-read-output-is-error", "Err iff some read output is not among the found outputs", "build_output_indices: (missing.is_empty(), result) = %s" % sorted(shapes, key=str))
        pt = tab.predicate_table(P, boi)
        MS = "Vec::is_empty(MISSING)"
        NXE = "variant(Iterator::next([T]::iter(self.expected_indices)))"

        def _ms(f):
            # `missing` is a selection of read_outputs (filter_map, or filter + map): which elements it keeps is the closure table below
            m_ = re.fullmatch(r"Vec::is_empty\((.*)\)", f[0])
            if m_ and selection_of(m_.group(1), "[T]::iter(read_outputs)") in (["filter_map"], ["filter", "map"]):
                return (MS, f[1])
            return f
        pt = set((frozenset(_ms(f) for f in fs), sh) for fs, sh in pt)
        chk.require(pt == {(frozenset([(MS, False), (NXE, ("None",))]), "Err"), (frozenset([(MS, True), (NXE, ("None",))]), "Ok")}, "TAB", "TAB:build_output_indices:exact-outcome",
                    "after the full scan: Err(MissingOutputs) iff some read output was not found among the driver's outputs", "build_output_indices decides %s" % sorted(pt, key=str))
        # found_outputs gets the signal index exactly when the entry is Output(_)
        out_sites = set()
        for bb_ in sorted(boi.reachable_blocks()):
            for i_, st_ in enumerate(boi.blocks[bb_]["stmts"]):
                if st_["s"] == "assign" and any(isinstance(e, dict) and e.get("f") == "output_indices" for e in st_["lhs"]["p"]):
                    out_sites.add(alloc_site(P.resolve(boi, P.sl(boi).rvalue(st_["rv"], bb_, i_))))
        # found_outputs is the vector that is *not* the layout stored into self.output_indices (identified by allocation site)
        pushf = [bb for bb, t in boi.calls() if callee_name(t)[0] == "std::vec::Vec::push" and alloc_site(P.call_arg_terms(boi, bb)[0]) not in out_sites]
        nextb = [bb for bb, t in boi.calls() if callee_name(t)[0] == "<std::slice::Iter<T> as std::iter::Iterator>::next"]
        if chk.anchor("found_outputs push", len(pushf) == 1 and len(nextb) == 1):
            rows = set()
            for pi in tab.paths(P, boi, start=nextb[0]):
                if pi.back is None:
                    continue
                pushed = [canon(a[1]) for bb, nm, a in pi.calls() if bb == pushf[0]]
                kinds = [canon(a[1]) for bb, nm, a in pi.calls() if nm == "std::vec::Vec::push" and bb != pushf[0]]
                kind = re.sub(r"\{.*", "", kinds[0]).split("::")[-1] if kinds else None
                rows.add((kind, tuple(pushed)))
            SI = "EntryIndex::signal_index(some!(Iterator::next([T]::iter(self.expected_indices))))"
            want = {("Virtual", ()), ("None", ()), ("Output", (SI,))}
            got = rows
            chk.require(got == want, "GUARD", "GUARD:build_output_indices:found-iff-Output", "found_outputs.push(signal_index) exactly when the entry is Output(_)", "per-iteration (entry kind, found_outputs pushes): %s" % sorted(rows, key=str))
        # the closure that decides what is "missing": exactly the read outputs that are not among the found ones
        CT = "[T]::contains(Vec::new(), elem([T]::iter(read_outputs)))"
        deciders = []
        for cl in P.f.closures_of(boi.name):
            pt = tab.predicate_table(P, cl)
            if any("contains" in f for fs, sh in pt for f, t in fs) or any("contains" in str(sh) for fs, sh in pt):
                deciders.append(pt)
        want_fm = {(frozenset([(CT, False)]), "Some(?)"), (frozenset([(CT, True)]), "None")}      # filter_map(|r| if !found.contains(r) { Some(..) } else { None })
        want_f = [{(frozenset(), "Not(%s)" % CT)},                                                    # filter(|r| !found.contains(r))
                  {(frozenset([(CT, False)]), "1"), (frozenset([(CT, True)]), "0")}]
        chk.require(len(deciders) == 1 and (deciders[0] == want_fm or deciders[0] in want_f), "TAB", "TAB:build_output_indices:missing-filter", "missing = read_outputs not contained in found_outputs",
                    "missing filter is %s" % [sorted(d, key=str) for d in deciders])
    # which identifiers count as output reads (parse-time scoping) and how they are resolved at load time:
    # the missing-output check above is only as good as the read set it is given (shared with C11)
    from . import c11
    c11.scoping_rules(chk, P)
    c11.condition_rules(chk, P)
    # Expr::Variable: Value(n) -> Ok(n), anything else -> Err
    ev = P.body("expr::Expr::eval")
    if chk.anchor("Expr::eval", ev):
        rows = set()
        for pi in tab.paths(P, ev, to_return_only=True):
            vs = [d[2] for d in pi.decisions() if d[0] == "variant" and d[1] == "self"]
            if not vs or vs[0] != ("Variable",):
                continue
            val = [d[2] for d in pi.decisions() if d[0] == "variant" and re.fullmatch(r"some!\(EvalContext::get\(ctx, \(self as Variable\)\.0\)\)", d[1])]
            sh = ordrules.ret_shape(pi)
            pay = ""
            r = terms.strip(pi.ret())
            if sh == "Ok":
                pay = canon(r[3][0][1])
            rows.add((val[0] if val else None, sh, pay))
        good = any(v == ("Value",) and sh == "Ok" and pay == "(some!(EvalContext::get(ctx, (self as Variable).0)) as Value).0" for v, sh, pay in rows) and all(sh == "Err" for v, sh, pay in rows if v != ("Value",))
        chk.require(good, "TAB", "TAB:Expr::Variable:non-numeric-is-error", "Value(n) => Ok(n); Z / X / unbound => Err", "Expr::Variable rows: %s" % sorted(rows, key=str))
