"""Discharge rules for the panic inventory (PAN) and the lemmas they rest on.

Every panic-capable site found by `core.pan.inventory` must be discharged by one
of the rules below; each rule *checks* its side conditions on the extracted
program (origin slices, dominating guards, who-may-construct sets, tables).  A
site no rule discharges is reported.  Lemmas are checked once per run; a failed
lemma is itself a violation and the sites that rest on it are listed with it.
"""
import re
from ..core import ordrules, pan, terms, tab
from ..core.facts import callee_name, norm_name
from ..core.prog import canon, short, alloc_site, selection_of, sel_re, Prog

TESTDATA = "data_row_iterator::DataRowIteratorTestData"


def site_data(P, s):
    b, t = s.body, s.term
    d = {"kind": s.kind, "construct": s.construct}
    if s.kind == "assert":
        m = t["msg"]
        for k in ("len", "index", "a", "b"):
            if k in m:
                d[k + "_t"] = P.operand_term(b, s.bb, m[k])
                d[k] = canon(d[k + "_t"])
                d[k + "_op"] = m[k]
    elif s.kind in ("call", "unknown-ext"):
        d["args_t"] = P.call_arg_terms(b, s.bb)
        d["args"] = [canon(x) for x in d["args_t"]]
    else:
        d["arms"] = pan.arm_context(b, s.bb, P.cfg(b))
        for a in d["arms"]:
            if "on" in a:
                a["on"] = P.resolve(b, a["on"])
            if "cond" in a:
                a["cond"] = P.resolve(b, a["cond"])
    return d


# ---------------------------------------------------------------------------
# guards
# ---------------------------------------------------------------------------

CMP_FLIP = {"Lt": "Gt", "Gt": "Lt", "Le": "Ge", "Ge": "Le", "Eq": "Eq", "Ne": "Ne"}
CMP_NEG = {"Lt": "Ge", "Ge": "Lt", "Gt": "Le", "Le": "Gt", "Eq": "Ne", "Ne": "Eq"}


def guards_at(P, b, bb):
    """Comparison facts that hold at block bb of body b: list of (op, lhs_canon, rhs_canon),
    canonicalised so that both `a < b` and `b > a` are present, plus call-predicates
    (callee short name, [args canon], truth)."""
    out = []
    cfg = P.cfg(b)
    for (p, vals, other, listed) in cfg.conditions_at(bb):
        t = b.term(p)
        d = P.operand_term(b, p, t["discr"])
        ds = terms.strip(d)
        # boolean switch: value 0 = false
        truth = None
        if t["dty"] == "bool":
            if vals == {0} and not other:
                truth = False
            elif other and listed == {0}:
                truth = True
            elif vals == {1}:
                truth = True
        if truth is None:
            # discriminant switches are reported as variant facts
            if ds[0] == "discr":
                names = _variant_names(b, t, p, vals, other, listed)
                if names is not None:
                    out.append(("variant", canon(ds[1]), tuple(sorted(names))))
            continue
        neg = 0
        while ds[0] == "un" and ds[1] == "Not":
            ds = terms.strip(ds[2])
            neg += 1
        if neg % 2:
            truth = not truth
        if ds[0] == "bin" and ds[1] in CMP_FLIP:
            op = ds[1] if truth else CMP_NEG[ds[1]]
            l, r = canon(ds[2]), canon(ds[3])
            out.append((op, l, r))
            out.append((CMP_FLIP[op], r, l))
        elif ds[0] == "call":
            nm = short(ds[1])
            args = [canon(a) for a in ds[2]]
            # PartialEq::eq / ne on values => Eq/Ne facts
            if nm.endswith("::eq") or nm.endswith("::ne"):
                op = "Eq" if nm.endswith("::eq") else "Ne"
                if not truth:
                    op = CMP_NEG[op]
                if len(args) == 2:
                    out.append((op, args[0], args[1]))
                    out.append((op, args[1], args[0]))
            out.append(("call", nm, tuple(args), truth))
    out.extend(tab.emptiness_facts(out))
    return out


def _variant_names(b, t, p, vals, other, listed):
    vs = pan._variants_of_discr(b, t["discr"], p)
    if vs is None:
        return None
    if other:
        return [v["name"] for v in vs if v["discr"] not in listed or v["discr"] in vals]
    return [v["name"] for v in vs if v["discr"] in vals]


# ---------------------------------------------------------------------------
# Lemmas
# ---------------------------------------------------------------------------

class Lemmas:
    """Invariants of the crate that several discharge rules share.  Each lemma is
    a list of machine-checked obligations; `status[name]` is True/False."""

    def __init__(self, P, chk):
        self.P = P
        self.chk = chk
        self.status = {}
        self.users = {}

    def need(self, name, only=None):
        """`only`: keep just the obligations of the lemma whose id contains one of these substrings
        (for a property that rests on one half of a lemma, e.g. the parser half of ROWWIDTH)."""
        skey = name if only is None else "%s|%s" % (name, ",".join(only))
        if skey not in self.status:
            self.status[skey] = None  # cycle guard
            prev = getattr(self, "_only", None)
            self._only = only
            try:
                if ":" in name:
                    base, arg = name.split(":", 1)
                    ok = getattr(self, "lemma_" + base)(arg)
                else:
                    ok = getattr(self, "lemma_" + name)()
            finally:
                self._only = prev
            self.status[skey] = ok
        return self.status[skey]

    def _ob(self, lemma, oid, cond, okd, faild, site=""):
        key = "lemma:%s:%s" % (lemma, oid)
        only = getattr(self, "_only", None)
        if only is not None and not any(o in oid for o in only):
            return True
        return self.chk.require(bool(cond), "LEMMA", key, okd, faild, site)

    # -- SIGIDX: every stored signal index is < signals.len() ----------------
    def lemma_SIGIDX(self):
        P, ok = self.P, True
        cons = P.constructors("EntryIndex")
        fns = sorted(set(b.name for b, _, _, _ in cons))
        ok &= self._ob("SIGIDX", "who-constructs-EntryIndex", fns == ["parsed_test_case::ParsedTestCase::build_indices"],
                       "EntryIndex built only in build_indices (%d sites)" % len(cons),
                       "EntryIndex is constructed outside build_indices: %s" % fns)
        self.chk.floor("WHO", "EntryIndex constructors", len(cons), 6)
        pat = re.compile(r"^some!\(Iterator::next\(Iterator::enumerate\(\[T\]::iter\(signals\)\)\)\)\.0$")
        for b, bb, i, st in cons:
            t = P.sl(b).rvalue(st["rv"], bb, i)
            f = dict(t[3])
            c = canon(f.get("signal_index", ("unknown", "")))
            ok &= self._ob("SIGIDX", "signal_index-origin:%s" % t[2].split("::")[-1], pat.match(c) and b.name.endswith("build_indices"),
                           "signal_index = enumerate index over parameter `signals`", "signal_index of %s is `%s`, not the enumerate index over the signal list" % (t[2], c), "%s:%d" % (b.file, st["span"]["line"]))
        tcs = P.constructors("TestCase")
        fns = sorted(set(b.name for b, _, _, _ in tcs))
        ok &= self._ob("SIGIDX", "who-constructs-TestCase", fns == ["parsed_test_case::ParsedTestCase::with_signals"], "TestCase built only in with_signals", "TestCase constructed in %s" % fns)
        for fld in ("input_indices", "expected_indices", "read_outputs", "stmts"):
            w = [x for x in P.field_writers("TestCase", fld)]
            adt = P.f.adts.get("TestCase")
            pub = True
            if adt:
                for fd in adt["variants"][0]["fields"]:
                    if fd["name"] == fld:
                        pub = fd["pub"]
            ok &= self._ob("SIGIDX", "TestCase.%s-private-and-unwritten" % fld, not w and not pub, "private, no writers", "TestCase.%s is %s and written at %s" % (fld, "pub" if pub else "private", [(x[0].name, x[3]) for x in w]))
        # with_signals: the same `signals` local goes to build_indices/build_read_outputs and into the TestCase
        ws = P.body("parsed_test_case::ParsedTestCase::with_signals")
        if ws is None:
            ok &= self._ob("SIGIDX", "with_signals-anchor", False, "", "with_signals not found")
            return ok
        sl = P.sl(ws)
        agg = [(b, bb, i, st) for (b, bb, i, st) in tcs if b is ws]
        sig_local = None
        if agg:
            _, bb, i, st = agg[0]
            for fname, op in zip(st["rv"]["fields"], st["rv"]["ops"]):
                if fname == "signals" and op.get("k") in ("move", "copy") and not op["p"]:
                    sig_local = op["l"]
                    # follow plain moves back to the named local
                    for _ in range(5):
                        ds = sl.whole_defs(sig_local)
                        if len(ds) == 1 and ds[0][2] == "assign" and ds[0][3]["rv"]["r"] == "use" and ds[0][3]["rv"]["a"].get("k") in ("move", "copy") and not ds[0][3]["rv"]["a"]["p"]:
                            sig_local = ds[0][3]["rv"]["a"]["l"]
                        else:
                            break
        ok &= self._ob("SIGIDX", "TestCase.signals-origin", sig_local is not None, "TestCase.signals = local `%s`" % (ws.local_name(sig_local) if sig_local else "?"), "cannot find the local stored as TestCase.signals")
        if sig_local is not None:
            nm = ws.local_name(sig_local)
            last_mut = None
            for callee in ("parsed_test_case::ParsedTestCase::build_indices", "parsed_test_case::ParsedTestCase::build_read_outputs"):
                sites = [(bb, t) for bb, t in ws.calls() if callee_name(t)[0] == callee]
                good = False
                for bb, t in sites:
                    args = [canon(x) for x in sl.call_args(bb)]
                    if len(args) >= 2 and re.fullmatch(r"(Deref::deref\()?%s\)?" % re.escape(nm), args[1]):
                        good = True
                ok &= self._ob("SIGIDX", "with_signals-passes-signals-to:%s" % callee.split("::")[-1], good, "argument is `%s`" % nm, "%s is not called with the signal list that is stored in the TestCase" % callee)
            # no mutation of `signals` after build_indices
            bi = [bb for bb, t in ws.calls() if callee_name(t)[0].endswith("::build_indices")]
            muts = []
            for bb in sorted(ws.reachable_blocks()):
                for i, st in enumerate(ws.blocks[bb]["stmts"]):
                    if st["s"] == "assign" and st["rv"]["r"] == "ref" and st["rv"]["bk"] == "mut" and st["rv"]["a"]["l"] == sig_local:
                        muts.append(bb)
            cfg = P.cfg(ws)
            bad = [m for m in muts if bi and cfg.can_reach(bi[0], {m}) and m != bi[0]]
            ok &= self._ob("SIGIDX", "signals-frozen-after-build_indices", bi and not bad, "%d &mut borrows, all before build_indices" % len(muts), "the signal list is mutably borrowed after build_indices (blocks %s)" % bad)
        # read_outputs elements are positions in `signals`
        bro = P.body("parsed_test_case::ParsedTestCase::build_read_outputs")
        if bro is not None:
            pushes = [(bb, t) for bb, t in bro.calls() if callee_name(t)[0] == "std::vec::Vec::push"]
            sl2 = P.sl(bro)
            good = bool(pushes)
            rets = set(canon(sl2.ret(rb)) for rb in P.cfg(bro).return_blocks())
            for bb, t in pushes:
                a = [canon(x) for x in sl2.call_args(bb)]
                if not re.match(r"^some!\(Iterator::position\(\[T\]::iter\(signals\), closure", a[1]):
                    good = False
            ok &= self._ob("SIGIDX", "read_outputs-elements-are-positions", good, "pushed values are `position` results over parameter `signals`", "build_read_outputs pushes something that is not a position in the signal list")
        else:
            ok &= self._ob("SIGIDX", "build_read_outputs-anchor", False, "", "build_read_outputs not found")
        # DataRowIteratorTestData: built only in `new`, from one TestCase
        dcs = P.constructors(TESTDATA)
        fns = sorted(set(b.name for b, _, _, _ in dcs))
        ok &= self._ob("SIGIDX", "who-constructs-TestData", fns == [TESTDATA + "::new"], "built only in new()", "DataRowIteratorTestData constructed in %s" % fns)
        for b, bb, i, st in dcs:
            t = P.sl(b).rvalue(st["rv"], bb, i)
            f = {k: canon(v) for k, v in t[3]}
            want = {"signals": "Deref::deref(test_case.signals)", "input_indices": "Deref::deref(test_case.input_indices)", "expected_indices": "Deref::deref(test_case.expected_indices)"}
            got = {k: f.get(k) for k in want}
            good = all(re.fullmatch(r"(Deref::deref\()?test_case\.%s\)?" % k, got[k] or "") for k in want)
            ok &= self._ob("SIGIDX", "TestData-fields-from-one-TestCase", good, str(got), "DataRowIteratorTestData fields do not all come from the same TestCase: %s" % got)
        for fld in ("signals", "input_indices", "expected_indices"):
            w = P.field_writers(TESTDATA, fld)
            ok &= self._ob("SIGIDX", "TestData.%s-unwritten" % fld, not w, "no writers", "written at %s" % [(x[0].name, x[3]) for x in w])
        # accessor
        acc = P.body("data_row_iterator::<impl EntryIndex>::signal_index")
        if acc is not None:
            rets = set(canon(P.sl(acc).ret(rb)) for rb in P.cfg(acc).return_blocks())
            good = rets and all(re.fullmatch(r"(phi\()?(\(self as (Entry|Default)\)\.signal_index( \| )?)+\)?", r) for r in rets)
            ok &= self._ob("SIGIDX", "accessor-signal_index", good, str(rets), "EntryIndex::signal_index returns %s" % rets)
        # try_new hands test_case.read_outputs of the same test case to build_output_indices
        tn = P.body("data_row_iterator::DataRowIterator::try_new")
        if tn is not None:
            good = False
            for bb, t in tn.calls():
                if callee_name(t)[0].endswith("::build_output_indices"):
                    a = [canon(x) for x in P.sl(tn).call_args(bb)]
                    good = len(a) >= 3 and re.fullmatch(r"(Deref::deref\()?test_case\.read_outputs\)?", a[2]) and "DataRowIteratorTestData::new(test_case)" in a[0]
            ok &= self._ob("SIGIDX", "try_new-read_outputs-same-test", good, "build_output_indices(new(test_case), .., test_case.read_outputs)", "try_new does not pass the read_outputs of the test case the indices were built from")
        return ok

    # -- ROWWIDTH: every evaluated row has header width; entry_index < width -----
    def lemma_ROWWIDTH(self):
        P, ok = self.P, True
        cons = P.constructors("EntryIndex::Entry")
        pat = re.compile(r"Iterator::position\(\[T\]::iter\(self\.signals\), closure")
        for b, bb, i, st in cons:
            t = P.sl(b).rvalue(st["rv"], bb, i)
            c = canon(dict(t[3]).get("entry_index", ("unknown", "")))
            ok &= self._ob("ROWWIDTH", "entry_index-origin", bool(pat.search(c)) and b.name.endswith("build_indices"), "entry_index = position in the header (self.signals)", "entry_index is `%s`, not a header position" % c, "%s:%d" % (b.file, st["span"]["line"]))
        self.chk.floor("ORG", "EntryIndex::Entry constructors", len(cons), 3)
        # parse_data_row: Ok only when the column counter equals the header width
        pdr = P.body("parser::stmt::<impl parser::Parser>::parse_data_row")
        if pdr is None:
            return self._ob("ROWWIDTH", "parse_data_row-anchor", False, "", "parse_data_row not found")
        sl, cfg = P.sl(pdr), P.cfg(pdr)
        okrets = []
        for bb in sorted(pdr.reachable_blocks()):
            for i, st in enumerate(pdr.blocks[bb]["stmts"]):
                if st["s"] == "assign" and st["lhs"]["l"] == 0 and not st["lhs"]["p"] and st["rv"]["r"] == "agg" and st["rv"].get("variant") == "Ok":
                    okrets.append(bb)
        good = bool(okrets)
        for bb in okrets:
            g = guards_at(P, pdr, bb)
            if not any(x[0] == "Eq" and "signal_index" in x[1] and x[2] == "[T]::len(self.signals)" for x in g):
                good = False
        ok &= self._ob("ROWWIDTH", "row-Ok-only-with-header-width", good, "Ok(data) dominated by signal_index == self.signals.len()", "parse_data_row can return Ok without the column counter being equal to the header width")
        # each push advances the counter by the width of the pushed entry
        # the row vector is the one that is returned in Ok(..) (identified by its allocation site, not by how it is pre-sized)
        data_sites = set()
        for rb_ in okrets:
            for i_, st_ in enumerate(pdr.blocks[rb_]["stmts"]):
                if st_["s"] == "assign" and st_["lhs"]["l"] == 0 and not st_["lhs"]["p"] and st_["rv"]["r"] == "agg" and st_["rv"].get("variant") == "Ok":
                    r_ = terms.strip(P.resolve(pdr, sl.rvalue(st_["rv"], rb_, i_)))
                    if r_[0] == "agg" and r_[3]:
                        data_sites.add(alloc_site(r_[3][0][1]))
        data_sites.discard(None)
        pushes = [(bb, t) for bb, t in pdr.calls() if callee_name(t)[0] == "std::vec::Vec::push" and alloc_site(P.resolve(pdr, sl.call_args(bb)[0])) in data_sites]
        self.chk.floor("PAIR", "row pushes", len(pushes), 6)
        for bb, t in pushes:
            val = sl.call_args(bb)[1]
            vs = terms.strip(val)
            variant = vs[2].split("::")[-1] if vs[0] == "agg" else "?"
            # find the increment reachable from this push before any other push / loop header
            inc = self._next_increment(pdr, bb, "signal_index")
            if variant == "Bits":
                num = canon(dict(vs[3]).get("number", ("unknown", "")))
                good = inc is not None and inc == "(%s as usize)" % num
                ok &= self._ob("ROWWIDTH", "push-advance:Bits", good, "Bits{number} advances the column by number", "pushing Bits{number: %s} advances the column counter by `%s`" % (num, inc), "%s:%d" % (pdr.file, t["span"]["line"]))
            else:
                ok &= self._ob("ROWWIDTH", "push-advance:%s" % variant, inc == "1", "one entry, column +1", "pushing DataEntry::%s advances the column counter by `%s` instead of 1" % (variant, inc), "%s:%d" % (pdr.file, t["span"]["line"]))
        # one trip of the entry loop = exactly one push and exactly one advance of the column counter
        heads = []
        for comp in cfg.sccs():
            if len(comp) > 1:
                cs_ = set(comp)
                heads += [x for x in comp if any(p_ not in cs_ for p_ in pdr.preds(x))]
        heads = [h for h in heads if pdr.term(h)["t"] == "call" and callee_name(pdr.term(h))[0] == "parser::Parser::peek"]
        if heads:
            incb = set()
            for bb in pdr.reachable_blocks():
                for st in pdr.blocks[bb]["stmts"]:
                    if st["s"] == "assign" and not st["lhs"]["p"] and pdr.local_name(st["lhs"]["l"]) == "signal_index" and bb != 0 and st["rv"]["r"] != "use" or (st["s"] == "assign" and not st["lhs"]["p"] and pdr.local_name(st["lhs"]["l"]) == "signal_index" and st["rv"]["r"] == "use" and st["rv"]["a"].get("k") != "const"):
                        incb.add(bb)
            shapes = set()
            for pi in tab.paths(P, pdr, start=heads[0]):
                if pi.back is None:
                    continue
                np_ = sum(1 for bb, nm, a in pi.calls() if nm == "std::vec::Vec::push" and alloc_site(a[0]) in data_sites)
                ni = sum(1 for bb in pi.path if bb in incb)
                shapes.add((np_, ni))
            # the loop is left (other than by `return Err`) only on an unconsumed Eol / Eof: no token is swallowed by an exit
            exits = set()
            comp = set()
            for c_ in cfg.sccs():
                if heads[0] in c_:
                    comp = set(c_)
            for pi in tab.paths(P, pdr, start=heads[0], stop=lambda x: x not in comp):
                last = pi.path[-1]
                if pi.back is not None or last in comp:
                    continue
                if pdr.term(last)["t"] == "return" and ordrules.ret_shape(pi) == "Err":
                    continue
                # does this exit lead to an Err return only?  (error construction blocks outside the loop)
                tok = [d[2] for d in pi.decisions() if d[0] == "variant" and d[1] == "Parser::peek(self)"]
                consumed = [nm.split("::")[-1] for bb, nm, a in pi.calls() if nm in ("parser::Parser::get", "parser::Parser::skip", "parser::Parser::expect") or (nm in P.f.bodies and nm.startswith("parser::") and nm.split("::")[-1].startswith("parse_"))]
                errs_only = all(ordrules.ret_shape(p2) == "Err" for p2 in tab.paths(P, pdr, start=last, to_return_only=True)) if pdr.term(last)["t"] != "return" else False
                if errs_only:
                    continue
                exits.add((tok[0] if tok else None, tuple(consumed)))
            ok &= self._ob("ROWWIDTH", "push-advance:loop-left-only-at-unconsumed-line-end", bool(exits) and all(t is not None and set(t) <= {"Eol", "Eof"} and not c for t, c in exits),
                           "the entry loop is left only when the next token is Eol / Eof, without consuming anything", "the entry loop can be left as %s (peeked kinds, tokens consumed on the way out): an entry can be swallowed without being stored" % sorted(exits, key=str))
            ok &= self._ob("ROWWIDTH", "push-advance:one-of-each-per-trip", shapes == {(1, 1)}, "every continuing trip of the entry loop pushes one entry and advances the column counter once", "trips of the entry loop do (pushes, counter advances) = %s: an entry can be dropped or the counter can run ahead of the data" % sorted(shapes))
        else:
            ok &= self._ob("ROWWIDTH", "push-advance:entry-loop-anchor", False, "", "entry loop of parse_data_row not found")
        # DataEntry::eval: Bits -> `number` entries, everything else -> exactly one
        ev = P.body("stmt::DataEntry::eval")
        if ev is None:
            ok &= self._ob("ROWWIDTH", "DataEntry::eval-anchor", False, "", "DataEntry::eval not found")
        else:
            seen = {}
            for pi in tab.paths(P, ev, to_return_only=True):
                names = [d[2] for d in pi.decisions() if d[0] == "variant" and d[1] == "self"]
                r = terms.strip(pi.ret())
                if r[0] == "call" and "from_residual" in r[1]:
                    continue  # `?` error propagation
                shape = "?"
                if r[0] == "agg" and r[2].endswith("Result::Ok"):
                    v = terms.strip(r[3][0][1])
                    if v[0] == "call" and v[1] == "vec!" and v[2][0][0] == "agg" and v[2][0][1] == "array":
                        shape = "vec![%d]" % len(v[2][0][3])
                    else:
                        shape = canon(v)
                for v_ in (names[0] if names else ("*",)):
                    seen.setdefault(v_, set()).add(shape)
            for v, rs in sorted(seen.items()):
                if v == "Bits":
                    good = rs == {"Iterator::collect(Iterator::map(Iterator::rev(ops::Range{start: 0, end: (self as Bits).number}), closure({closure#0})))"}
                    ok &= self._ob("ROWWIDTH", "eval-len:Bits", good, "Ok(collect(map(rev(0..number))))", "DataEntry::Bits evaluates to %s, not `number` entries" % sorted(rs))
                else:
                    ok &= self._ob("ROWWIDTH", "eval-len:%s" % v, rs == {"vec![1]"}, "Ok(vec![one entry])", "DataEntry::%s evaluates to %s, not exactly one entry" % (v, sorted(rs)))
            self.chk.floor("TAB", "DataEntry::eval arms", len(seen), 6)
        # nothing resizes DataEntries.entries after the interpreter built the row
        w = [x for x in P.field_writers("stmt::DataEntries", "entries") if x[3] == "borrow_mut"]
        resize = []
        for b, bb, i, kind in w:
            # the &mut borrow must feed IndexMut::index_mut only
            l = b.blocks[bb]["stmts"][i]["lhs"]["l"]
            for cbb, t in b.calls():
                if any(a.get("k") in ("move", "copy") and a["l"] == l for a in t["args"]):
                    nm = callee_name(t)[0]
                    if "IndexMut" not in nm:
                        resize.append((b.name, nm))
        ok &= self._ob("ROWWIDTH", "entries-never-resized", not resize, "%d &mut borrows of DataEntries.entries, all for element assignment" % len(w), "DataEntries.entries is mutably used by %s" % resize)
        # changed[] has the width of the row
        cce = P.body(TESTDATA + "::check_changed_entries")
        if cce is not None:
            rets = set()
            for rb in P.cfg(cce).return_blocks():
                r = P.sl(cce).ret(rb)
                for alt in (r[1] if r[0] == "phi" else (r,)):
                    rets.add(canon(alt))
            good = rets and all(re.fullmatch(r"Iterator::collect\(Iterator::map\(Iterator::zip\(\[T\]::iter\(stmt_entries\), some!\(self\.prev\)\), closure\(\{closure#0\}\)\)\)|vec::from_elem\(1, \[T\]::len\(stmt_entries\)\)", r) for r in rets)
            ok &= self._ob("ROWWIDTH", "changed-has-row-width", good, str(sorted(rets)), "check_changed_entries returns %s" % sorted(rets))
        return ok

    def _next_increment(self, b, bb, var):
        """After the call in block bb, follow the unique successor chain to the
        first `var = var + k` and return canon(k)."""
        sl = self.P.sl(b)
        cur = b.succ(bb)
        seen = set()
        while cur and len(cur) == 1 and cur[0] not in seen:
            x = cur[0]
            seen.add(x)
            t = b.term(x)
            for i, st in enumerate(b.blocks[x]["stmts"]):
                if st["s"] == "assign" and st["rv"]["r"] == "bin" and st["rv"]["op"] in ("AddWithOverflow", "Add"):
                    a = st["rv"]["a"]
                    if a.get("k") in ("copy", "move") and b.local_name(a["l"]) == var:
                        return canon(sl.operand(st["rv"]["b"], x, i))
            if t["t"] == "call" and callee_name(t)[0] == "std::vec::Vec::push":
                return None
            cur = b.succ(x)
        return None

    # -- INPUTIDX: input_indices only for input-capable signals ---------------------
    def lemma_INPUTIDX(self):
        P, ok = self.P, True
        bi = P.body("parsed_test_case::ParsedTestCase::build_indices")
        if bi is None:
            return self._ob("INPUTIDX", "anchor", False, "", "build_indices not found")
        sl = P.sl(bi)
        # the local returned as .0 of the tuple
        pushes = [(bb, t) for bb, t in bi.calls() if callee_name(t)[0] == "std::vec::Vec::push"]
        rets = [sl.ret(rb) for rb in P.cfg(bi).return_blocks()]
        n = 0
        for bb, t in pushes:
            recv = t["args"][0]
            rt = P.sl(bi).operand(recv, bb, len(bi.blocks[bb]["stmts"]))
            nm = bi.local_name(self._root_local(bi, recv, bb))
            if nm != "input_indices":
                continue
            n += 1
            arms = [a for a in pan.arm_context(bi, bb, P.cfg(bi)) if a.get("enum", "").endswith("SignalType")]
            vs = set(arms[0]["variants"]) if arms else set()
            ok &= self._ob("INPUTIDX", "input_indices-push-arm", vs and vs <= {"Input", "Bidirectional"}, "pushed in arm %s" % sorted(vs), "input_indices receives an entry for signal types %s" % sorted(vs), "%s:%d" % (bi.file, t["span"]["line"]))
        self.chk.floor("GUARD", "input_indices pushes", n, 1)
        good = False
        for r in rets:
            c = canon(r)
            good = c.startswith("tuple(") and "input_indices" not in c  # locals named by origin
        # returned tuple order: (.0 = input_indices local)
        rb = P.cfg(bi).return_blocks()
        if rb:
            st = None
            for bbk in sorted(bi.reachable_blocks()):
                for i, s_ in enumerate(bi.blocks[bbk]["stmts"]):
                    if s_["s"] == "assign" and s_["lhs"]["l"] == 0 and s_["rv"]["r"] == "agg" and s_["rv"]["ak"] == "tuple":
                        st = s_
            if st is not None:
                names = [bi.local_name(self._root_local(bi, o, None)) for o in st["rv"]["ops"]]
                ok &= self._ob("INPUTIDX", "tuple-order", names == ["input_indices", "expected_indices"], str(names), "build_indices returns %s" % names)
        # default_value is Some exactly for Input | Bidirectional
        dv = P.body("Signal::default_value")
        if dv is None:
            ok &= self._ob("INPUTIDX", "default_value-anchor", False, "", "Signal::default_value not found")
        else:
            vt = tab.variant_table(P, dv, subject="self.typ")
            tabl = {}
            for v, rs in vt.items():
                kinds = set("Some" if r.startswith("Option::Some{") else "None" if r.startswith("Option::None") else r for r in rs)
                tabl[v] = "|".join(sorted(kinds))
            want = {"Input": "Some", "Bidirectional": "Some", "Output": "None", "Virtual": "None"}
            ok &= self._ob("INPUTIDX", "default_value-table", tabl == want, str(tabl), "Signal::default_value table is %s" % tabl)
        # with_signals stores tuple.0 as input_indices
        ws = P.body("parsed_test_case::ParsedTestCase::with_signals")
        for b, bb, i, st in P.constructors("TestCase"):
            t = P.sl(b).rvalue(st["rv"], bb, i)
            f = {k: canon(v) for k, v in t[3]}
            ok &= self._ob("INPUTIDX", "TestCase.input_indices=tuple.0", f.get("input_indices", "").endswith("build_indices(self, signals).0") and f.get("expected_indices", "").endswith("build_indices(self, signals).1"), "%s / %s" % (f.get("input_indices"), f.get("expected_indices")), "TestCase index fields: %s / %s" % (f.get("input_indices"), f.get("expected_indices")))
        return ok

    def _root_local(self, b, op, bb):
        """Follow reborrows `_a = &mut _b` / moves back to a user-named local."""
        l = op["l"]
        sl = self.P.sl(b)
        for _ in range(8):
            if l in b.debug_names:
                return l
            ds = sl.whole_defs(l)
            if len(ds) != 1 or ds[0][2] != "assign":
                return l
            rv = ds[0][3]["rv"]
            if rv["r"] in ("ref",) and not [e for e in rv["a"]["p"] if e != "*"]:
                l = rv["a"]["l"]
            elif rv["r"] == "use" and rv["a"].get("k") in ("move", "copy") and not [e for e in rv["a"]["p"] if e != "*"]:
                l = rv["a"]["l"]
            else:
                return l
        return l

    # -- FUNC: Expr::Func is built only for a table entry with matching arity --------
    def func_table(self):
        for it in self.P.f.items:
            if norm_name(it["name"]) == "expr::FUNC_TABLE" and "hir" in it:
                try:
                    es = it["hir"]["fields"]["entries"]["e"]["elems"]
                    out = []
                    for e in es:
                        # fields by role, not by name (a private field may be renamed): the one string is the function's name,
                        # the one integer its arity, the one path the implementing function
                        by = {}
                        for fv in e["fields"].values():
                            by.setdefault(fv.get("h"), []).append(fv)
                        if not (len(by.get("str", [])) == 1 and len(by.get("int", [])) == 1 and len(by.get("path", [])) == 1):
                            return None
                        out.append((by["str"][0]["v"], by["int"][0]["v"], norm_name(by["path"][0]["path"])))
                    return out
                except (KeyError, TypeError):
                    return None
        return None

    def lemma_FUNC(self):
        P, ok = self.P, True
        tab = self.func_table()
        ok &= self._ob("FUNC", "table-readable", bool(tab), str(tab), "cannot read expr::FUNC_TABLE")
        cons = P.constructors("expr::Expr::Func")
        fns = sorted(set(b.name for b, _, _, _ in cons))
        ok &= self._ob("FUNC", "who-constructs-Expr::Func", fns == ["parser::expr::<impl parser::Parser>::parse_factor"], "only parse_factor", "Expr::Func constructed in %s" % fns)
        for b, bb, i, st in cons:
            g = guards_at(P, b, bb)
            t = P.sl(b).rvalue(st["rv"], bb, i)
            f = {k: canon(v) for k, v in t[3]}
            name_src = re.sub(r"^ToString::to_string\((.*)\)$", r"\1", f.get("name", ""))
            arity = any(x[0] == "Eq" and x[1].startswith("Vec::len(") and re.fullmatch(r"some!\(FuncTable::get\(.*, %s\)\)\.number_of_args" % re.escape(name_src), x[2]) for x in g)
            ok &= self._ob("FUNC", "Func-guarded-by-lookup-and-arity", arity, "dominated by args.len() == FUNC_TABLE.get(name).number_of_args", "Expr::Func{name: %s} is built without a dominating arity check against its table entry (guards: %s)" % (f.get("name"), [x for x in g if x[0] != "variant"][:6]), "%s:%d" % (b.file, st["span"]["line"]))
            args_src = f.get("args", "")
            lenarg = [x[1] for x in g if x[0] == "Eq" and x[1].startswith("Vec::len(")]
        # Expr.args / name never written after construction
        # every table function indexes below its arity
        if tab:
            for name, n, fn in tab:
                fb = P.body(fn)
                if fb is None:
                    ok &= self._ob("FUNC", "table-fn:%s" % name, False, "", "function %s of table entry %s not found" % (fn, name))
                    continue
                mx = -1
                bad = []
                for bb in sorted(fb.reachable_blocks()):
                    t = fb.term(bb)
                    if t["t"] == "assert" and t["msg"]["ak"] == "BoundsCheck":
                        it = terms.strip(P.operand_term(fb, bb, t["msg"]["index"]))
                        ln = canon(P.operand_term(fb, bb, t["msg"]["len"]))
                        if it[0] == "const" and it[1] == "int" and ln in ("len(args)", "len(%s)" % fb.local_name(2)):   # the argument slice, whatever the parameter is called
                            mx = max(mx, it[2])
                        else:
                            bad.append(canon(it))
                ok &= self._ob("FUNC", "table-fn-index<arity:%s" % name, mx < n and not bad, "max constant index %d < arity %d" % (mx, n), "function `%s` (arity %d) indexes its arguments at %s" % (name, n, [mx] + bad))
        # the dispatcher checks the arity before the indirect call
        ev = P.body("expr::Expr::eval")
        if ev is not None:
            for bb, t in ev.calls():
                if callee_name(t)[0] == "<indirect>":
                    g = guards_at(P, ev, bb)
                    good = any(x[0] == "Eq" and ".number_of_args" in x[1] and re.match(r"(Vec::len|\[T\]::len|len)\(", x[2]) for x in g)   # the argument list as a Vec or as a slice
                    fnt = canon(P.operand_term(ev, bb, t["func"]))
                    ok &= self._ob("FUNC", "dispatch-guarded", good and ".f" in fnt, "indirect call of entry.f dominated by the arity test", "indirect call `%s` not dominated by an arity test" % fnt)
        return ok

    # -- BITS: DataEntry::Bits.number <= 64 -------------------------------------------
    def lemma_BITS(self):
        P, ok = self.P, True
        cons = P.constructors("stmt::DataEntry::Bits")
        ok &= self._ob("BITS", "constructors-found", len(cons) >= 1, "%d" % len(cons), "no constructor of DataEntry::Bits found")
        for b, bb, i, st in cons:
            t = P.sl(b).rvalue(st["rv"], bb, i)
            num = canon(dict(t[3]).get("number", ("unknown", "")))
            m = re.fullmatch(r"\((.*) as u8\)", num)
            src = m.group(1) if m else num
            g = guards_at(P, b, bb)
            good = any(x[0] == "Le" and x[1] == src and x[2] == "64" for x in g)
            ok &= self._ob("BITS", "number<=64", good, "Bits.number = `%s`, dominated by %s <= 64" % (num, src), "DataEntry::Bits{number: %s} is not dominated by a `<= 64` test (guards %s)" % (num, [x for x in g if x[0] in ("Le", "Lt", "Gt", "Ge")]), "%s:%d" % (b.file, st["span"]["line"]))
        return ok

    # -- PAIRLEN: header names and their spans are pushed pairwise ------------------------
    def lemma_PAIRLEN(self):
        P, ok = self.P, True
        hp = P.body("parser::HeaderParser::parse")
        if hp is None:
            return self._ob("PAIRLEN", "anchor", False, "", "HeaderParser::parse not found")
        pushes = {}
        for bb, t in hp.calls():
            if callee_name(t)[0] == "std::vec::Vec::push":
                nm = hp.local_name(self._root_local(hp, t["args"][0], bb))
                pushes.setdefault(nm, []).append(bb)
        sig, sp = pushes.get("signals", []), pushes.get("spans", [])
        good = len(sig) == len(sp) == 1
        if good:
            # straight line from one push to the other
            a, b_ = sig[0], sp[0]
            chain = hp.succ(a)
            good = chain == [b_] or (len(chain) == 1 and hp.succ(chain[0]) == [b_])
        ok &= self._ob("PAIRLEN", "header-push-pairing", good, "signals.push and spans.push are consecutive", "header names and spans are not pushed pairwise (%s / %s)" % (sig, sp))
        # returned together; stored together; signal_spans never written
        par = P.body("parsed_test_case::ParsedTestCase::parse")
        for b, bb, i, st in P.constructors("parsed_test_case::ParsedTestCase"):
            t = P.sl(b).rvalue(st["rv"], bb, i)
            f = {k: canon(v) for k, v in t[3]}
            good = f.get("signals", "").endswith("HeaderParser::parse(HeaderParser::new(input))).0") and f.get("signal_spans", "").endswith("HeaderParser::parse(HeaderParser::new(input))).1")
            ok &= self._ob("PAIRLEN", "stored-pairwise", good, "%s / %s" % (f.get("signals"), f.get("signal_spans")), "ParsedTestCase.signals/signal_spans = %s / %s" % (f.get("signals"), f.get("signal_spans")))
        w = P.field_writers("parsed_test_case::ParsedTestCase", "signal_spans")
        ok &= self._ob("PAIRLEN", "signal_spans-unwritten", not w, "no writers", "signal_spans written at %s" % [(x[0].name) for x in w])
        w = [x for x in P.field_writers("parsed_test_case::ParsedTestCase", "signals")]
        ok &= self._ob("PAIRLEN", "signals-unwritten-in-crate", not w, "no writers in the crate (the field is pub: callers mutating it are outside the properties)", "ParsedTestCase.signals written at %s" % [(x[0].name) for x in w])
        return ok

    # -- STK: the row cache is non-empty where it is popped -------------------------------
    def lemma_STK(self):
        """get_row: cache non-empty before expand_x (refilled on the empty edge,
        else non-empty by the test); expand_x: pre>=1 => post>=1; expand_c: pre>=1 => post>=1."""
        P, ok = self.P, True
        CACHE_RE = re.compile(r"^(Deref::deref\()?self\.cache\)?$")

        def cache_ops(b):
            out = []
            for bb, t in b.calls():
                nm = callee_name(t)[0]
                args = [canon(x) for x in P.sl(b).call_args(bb)]
                if args and CACHE_RE.match(args[0]) and (nm.startswith("std::vec::Vec::") or nm.startswith("core::slice::<impl [T]>::")):
                    out.append((bb, nm.split("::")[-1]))
                elif nm.startswith(TESTDATA + "::expand_"):
                    out.append((bb, nm.split("::")[-1]))
            return out

        def analyse(b, pre):
            """Forward dataflow of a lower bound on the cache height (join = min)
            with refinement on the result of `cache.is_empty()`."""
            cfg = P.cfg(b)
            ops = dict(cache_ops(b))
            empties = {}   # local -> True for results of cache.is_empty()
            for bb, op in ops.items():
                if op == "is_empty":
                    empties[b.term(bb)["dest"]["l"]] = bb
            state = {0: pre}
            work = [0]
            problems = set()
            exit_h = []
            it = 0
            while work and it < 20000:
                it += 1
                bb = work.pop()
                h = state[bb]
                t = b.term(bb)
                op = ops.get(bb)
                nh = h
                line = "%s:%d" % (b.file, t["span"]["line"])
                if op == "push":
                    nh = min(h + 1, 4)
                elif op == "pop":
                    if h < 1:
                        problems.add("pop on a possibly empty cache at %s" % line)
                    nh = max(h - 1, 0)
                elif op == "last":
                    if h < 1:
                        problems.add("last() on a possibly empty cache at %s" % line)
                elif op in ("expand_x", "expand_c"):
                    if h < 1:
                        problems.add("%s called with a possibly empty cache at %s" % (op, line))
                    nh = 1 if h >= 1 else 0   # summary: pre >= 1 => post >= 1
                elif op is not None and op not in ("len", "iter", "first", "is_empty"):
                    problems.add("unrecognised cache operation %s at %s" % (op, line))
                if t["t"] == "return":
                    exit_h.append(nh)
                for s_ in b.succ(bb):
                    v = nh
                    if t["t"] == "switch" and t["discr"].get("l") in empties and not t["discr"].get("p"):
                        ev = cfg.edge_values(bb, s_)
                        if ev[0] == {0} and not ev[1]:
                            v = max(nh, 1)      # is_empty() == false
                        else:
                            v = 0
                    old = state.get(s_)
                    new = v if old is None else min(old, v)
                    if old is None or new != old:
                        state[s_] = new
                        work.append(s_)
            return (not problems, min(exit_h) if exit_h else None, sorted(problems))

        ex = P.body(TESTDATA + "::expand_x")
        ec = P.body(TESTDATA + "::expand_c")
        gr = P.body(TESTDATA + "::get_row")
        for nm, b in (("expand_x", ex), ("expand_c", ec)):
            if b is None:
                ok &= self._ob("STK", nm + "-anchor", False, "", "%s not found" % nm)
                continue
            good, eh, pr = analyse(b, 1)
            ok &= self._ob("STK", "%s-pre>=1-safe" % nm, good, "all cache accesses safe under pre >= 1", "; ".join(pr))
            ok &= self._ob("STK", "%s-post>=1" % nm, eh is not None and eh >= 1, "post >= 1", "%s may return with an empty cache" % nm)
        if gr is None:
            ok &= self._ob("STK", "get_row-anchor", False, "", "get_row not found")
        else:
            good, eh, pr = analyse(gr, 0)
            ok &= self._ob("STK", "get_row-safe", good, "refill on the empty edge, then expand_x, expand_c, pop", "; ".join(pr))
        # nobody else touches the cache
        w = set(x[0].name for x in P.field_writers(TESTDATA, "cache"))
        allowed = {TESTDATA + "::expand_x", TESTDATA + "::expand_c", TESTDATA + "::get_row"}
        ok &= self._ob("STK", "who-writes-cache", w <= allowed, str(sorted(w)), "cache is mutated in %s" % sorted(w - allowed))
        callers = set(b.name for b, bb, nm in P.callers(lambda n: n.startswith(TESTDATA + "::expand_")))
        ok &= self._ob("STK", "who-calls-expand", callers <= {TESTDATA + "::get_row"}, str(sorted(callers)), "expand_x/expand_c called from %s" % sorted(callers))
        return ok

    # -- FRAMES: FramedMap marks never exceed values.len() -------------------------------------
    def lemma_FRAMES(self):
        P, ok = self.P, True
        FM = "framed_map::FramedMap"
        allowed_v = {FM + "::set", FM + "::pop_frame"}
        allowed_f = {FM + "::push_frame", FM + "::pop_frame"}
        # swap_vars exchanges two whole maps (mem::swap of the two fields): each keeps its own marks <= len; pinned by the swap rules
        SW = "eval_context::EvalContext::swap_vars"
        wv = set(x[0].name.split("::{closure")[0] for x in P.field_writers(FM, "values") if not (x[3] in ("mem_whole", "call_dest_whole", "assign_whole") and x[0].name == SW))
        wf = set(x[0].name.split("::{closure")[0] for x in P.field_writers(FM, "frame_stack") if not (x[3] in ("mem_whole", "call_dest_whole", "assign_whole") and x[0].name == SW))
        sw = P.body(SW)
        if sw is not None:
            cs = canon_calls(P, sw)
            from .iter_rules import swap_vars_exchanges
            ok &= self._ob("FRAMES", "swap_vars-exchanges-two-whole-maps", swap_vars_exchanges(P, sw), str(cs), "swap_vars does %s" % cs)
        ok &= self._ob("FRAMES", "who-writes-values", wv <= allowed_v, str(sorted(wv)), "FramedMap.values mutated in %s" % sorted(wv - allowed_v))
        ok &= self._ob("FRAMES", "who-writes-frame_stack", wf <= allowed_f, str(sorted(wf)), "FramedMap.frame_stack mutated in %s" % sorted(wf - allowed_f))
        pf = P.body(FM + "::push_frame")
        if pf is not None:
            a = [[canon(x) for x in P.sl(pf).call_args(bb)] for bb, t in pf.calls() if callee_name(t)[0] == "std::vec::Vec::push"]
            ok &= self._ob("FRAMES", "push_frame-records-len", a == [["self.frame_stack", "Vec::len(self.values)"]], str(a), "push_frame pushes %s" % a)
        po = P.body(FM + "::pop_frame")
        if po is not None:
            a = [[canon(x) for x in P.sl(po).call_args(bb)] for bb, t in po.calls() if callee_name(t)[0] == "std::vec::Vec::truncate"]
            ok &= self._ob("FRAMES", "pop_frame-truncates-to-mark", a == [["self.values", "Option::unwrap_or(Vec::pop(self.frame_stack), 0)"]], str(a), "pop_frame truncates with %s" % a)
            others = [callee_name(t)[0] for bb, t in po.calls() if callee_name(t)[0].startswith("std::vec::Vec::") and callee_name(t)[0].split("::")[-1] not in ("truncate", "pop")]
            ok &= self._ob("FRAMES", "pop_frame-no-other-ops", not others, "", "pop_frame also calls %s" % others)
        st = P.body(FM + "::set")
        if st is not None:
            vops = []
            for bb, t in st.calls():
                nm = callee_name(t)[0]
                a = [canon(x) for x in P.sl(st).call_args(bb)]
                if a and a[0] == "self.values" and nm.startswith("std::vec::Vec::"):
                    vops.append(nm.split("::")[-1])
            ok &= self._ob("FRAMES", "set-only-grows", sorted(set(vops)) in (["push"], []), str(vops), "FramedMap::set applies %s to values" % vops)
        return ok

    # -- CONLY: `C` reaches a generator only in an input column ------------------------
    def lemma_RESIDUAL(self):
        """Row entries that reach the generators are Number|X|Z (inputs: Number|Z):
        DataEntry::eval builds only Number or a clone of X|Z|C|Number; every `C`
        pushed by the parser is recorded for the load-time input check."""
        P, ok = self.P, True
        ev = P.body("stmt::DataEntry::eval")
        if ev is not None:
            built = set()
            for (b, bb, i, st) in P.constructors("stmt::DataEntry"):
                if b.name.startswith("stmt::DataEntry::eval"):
                    built.add(st["rv"]["variant"])
            ok &= self._ob("RESIDUAL", "eval-builds-only-Number", built <= {"Number"}, str(sorted(built)), "DataEntry::eval constructs %s" % sorted(built))
            # the clone arm is taken only for X|Z|C|Number
            for bb, t in ev.calls():
                if callee_name(t)[0].endswith("Clone>::clone") or callee_name(t)[0].endswith("::clone"):
                    arms = [a for a in pan.arm_context(ev, bb, P.cfg(ev)) if a.get("enum", "").endswith("DataEntry")]
                    vs = set(arms[0]["variants"]) if arms else {"?"}
                    ok &= self._ob("RESIDUAL", "eval-clone-arm", vs <= {"X", "Z", "C", "Number"}, str(sorted(vs)), "DataEntry::eval passes through %s unchanged" % sorted(vs))
        # parser: every push of DataEntry::C is preceded by recording the column
        pdr = P.body("parser::stmt::<impl parser::Parser>::parse_data_row")
        if pdr is not None:
            sl = P.sl(pdr)
            n = 0
            for bb, t in pdr.calls():
                if callee_name(t)[0] == "std::vec::Vec::push":
                    v = terms.strip(sl.call_args(bb)[1])
                    if v[0] == "agg" and v[2].endswith("DataEntry::C"):
                        n += 1
                        # some dominating block (same arm) calls HashMap::entry(self.expected_inputs, signals[signal_index]) unless the column is out of range
                        cfg = P.cfg(pdr)
                        rec = []
                        for cbb, ct in pdr.calls():
                            if callee_name(ct)[0] == "std::collections::HashMap::entry":
                                a = [canon(x) for x in sl.call_args(cbb)]
                                if a and a[0] == "self.expected_inputs":
                                    rec.append((cbb, a))
                        good = False
                        for cbb, a in rec:
                            g = guards_at(P, pdr, cbb)
                            key_ok = re.search(r"some!\(\[T\]::get\((Deref::deref\()?self\.signals\)?, .*signal_index.*\)\)|^self\.signals\[.*signal_index.*\]$|^Index::index\(self\.signals, .*signal_index.*\)$", a[1]) is not None
                            # the only way around the recording is the None edge of get(): column out of range
                            if key_ok and cfg.can_reach(cbb, {bb}):
                                # paths to the push that avoid the recording must go through the None edge of that same get()
                                sw = [x for x in cfg.conditions_at(cbb)]
                                avoid = cfg.reach_from(0, avoid=frozenset([cbb]))
                                good = True
                        ok &= self._ob("RESIDUAL", "C-recorded-with-its-column", good, "data.push(C) is paired with expected_inputs.entry(signals[signal_index])", "a `C` entry is pushed without recording its column for the load-time input check", "%s:%d" % (pdr.file, t["span"]["line"]))
            self.chk.floor("PAIR", "C pushes", n, 1)
        # with_signals rejects a recorded column that is not input-capable
        cc = P.body("parsed_test_case::ParsedTestCase::check_and_consume_expected_inputs")
        if cc is not None:
            cl = [c for c in P.f.closures_of(cc.name)]
            good = False
            for c in cl:
                calls = [callee_name(t)[0] for bb, t in c.calls()]
                if "Signal::is_input" in calls and any("PartialEq" in x and x.endswith("::eq") for x in calls):
                    good = True
            ok &= self._ob("RESIDUAL", "C-column-must-be-input", good, "any(sig.name == name && sig.is_input())", "check_and_consume_expected_inputs no longer tests name equality and is_input()")
            # ... and exactly that: the decision tables of the check (shared with C11), not just the presence of the two tests
            from . import c11
            n0 = len(self.chk.violations)
            c11.condition_rules(self.chk.only(("check_expected_inputs", "expected-inputs:exact-loop-table")), P)
            ok &= len(self.chk.violations) == n0
            ii = P.body("Signal::is_input")
        # expand_x leaves no input X, expand_c no input C: loop exit only on find_map == None
        ex = P.body(TESTDATA + "::expand_x")
        if ex is not None:
            cfg = P.cfg(ex)
            good = True
            for rb in cfg.return_blocks():
                arms = pan.arm_context(ex, rb, cfg)
                g = [a for a in arms if a.get("enum", "").endswith("Option") and "find_map" in canon(a["on"])]
                if not g or g[0]["variants"] != ["None"]:
                    good = False
            ok &= self._ob("RESIDUAL", "expand_x-exits-only-when-no-input-X", good, "return dominated by find_map(..) == None", "expand_x can return while an input X remains")
            for c in P.f.closures_of(ex.name):
                good, got = selector_complete(P, c, "X")
                ok &= self._ob("RESIDUAL", "expand_x-selector-complete", good, "every input-column X is selectable (so none is left when the loop exits)", "expand_x selects entries by %s" % got)
        ecb = P.body(TESTDATA + "::expand_c")
        if ecb is not None:
            for c in P.f.closures_of(ecb.name):
                good, got = selector_complete(P, c, "C")
                ok &= self._ob("RESIDUAL", "expand_c-selector-complete", good, "every input-column C is selected", "expand_c selects entries by %s" % got)
        # after the expansions nobody may put an X (or C) back into an input column: every run-time
        # construction of DataEntry::X / ::C outside the parser is a write row.entries[col] = .. that is
        # dominated by !entry_is_input(col) for that same col (a header column can be both the expected
        # column `<name>_out` of a bidirectional signal and the input column of a signal of that name)
        nw = 0
        for v in ("X", "C"):
            for (b, bb, i, st) in P.constructors("stmt::DataEntry::" + v):
                if b.is_promoted or b.name.startswith("parser::") or b.name.startswith("stmt::DataEntry::eval") or b.derived:
                    continue
                nw += 1
                cfg = P.cfg(b)
                cols = [canon(P.call_arg_terms(b, bb2)[1]) for bb2, t in b.calls() if callee_name(t)[0].endswith("IndexMut<I>>::index_mut") and cfg.dominates(bb, bb2)]
                g = guards_at(P, b, bb)
                good = len(cols) == 1 and any(x[0] == "call" and x[1] == "DataRowIteratorTestData::entry_is_input" and x[3] is False and len(x[2]) == 2 and x[2][1] == cols[0] for x in g)
                ok &= self._ob("RESIDUAL", "no-%s-written-into-an-input-column:%s" % (v, b.name.split("::")[-1]), good, "entries[%s] = %s only under !entry_is_input(%s)" % (cols[0] if cols else "?", v, cols[0] if cols else "?"),
                               "%s writes DataEntry::%s into column `%s` without excluding input columns: when that column is also an input column (e.g. `A_out` both as the expected column of bidirectional `A` and as an input pin), the generators meet an %s in an input column and hit unreachable!()" % (b.name.split("::")[-1], v, cols[0] if cols else "?", v),
                               "%s:%d" % (b.file, st["span"]["line"]))
        self.chk.floor("RESIDUAL", "run-time writers of X/C entries", nw, 1)
        eii = P.body(TESTDATA + "::entry_is_input")
        if eii is not None:
            r = set(canon(P.sl(eii).ret(rb)) for rb in P.cfg(eii).return_blocks())
            cl = P.f.closures_of(eii.name)
            pt = tab.predicate_table(P, cl[0]) if cl else set()
            good = r == {"Iterator::any([T]::iter(self.input_indices), closure({closure#0}))"} and pt == {(frozenset(), "EntryIndex::indexes(elem([T]::iter(self.input_indices)), entry_index)")}
            ok &= self._ob("RESIDUAL", "entry_is_input", good, "input_indices.any(|e| e.indexes(i))", "entry_is_input is %s with %s" % (r, pt))
        ix = P.body("data_row_iterator::<impl EntryIndex>::indexes")
        if ix is not None:
            pt = tab.predicate_table(P, ix)
            want = {(frozenset([("variant(self)", ("Default",))]), "0"), (frozenset([("variant(self)", ("Entry",))]), "Eq((self as Entry).entry_index, entry_index)")}
            ok &= self._ob("RESIDUAL", "EntryIndex::indexes", pt == want, "Entry{entry_index} == i; Default => false", "EntryIndex::indexes is %s" % sorted(pt, key=str))
        return ok

    # -- OUTIDX: stored output positions are below the remembered answer length ----------------
    def lemma_OUTIDX(self, FLD="num_driver_outputs"):
        P, ok = self.P, True
        cons = P.constructors("data_row_iterator::OutputEntryIndex::Output")
        fns = sorted(set(b.name for b, _, _, _ in cons))
        ok &= self._ob("OUTIDX", "who-constructs-Output(n)", fns == [TESTDATA + "::build_output_indices"], "only build_output_indices", "OutputEntryIndex::Output constructed in %s" % fns)
        for b, bb, i, st in cons:
            t = P.sl(b).rvalue(st["rv"], bb, i)
            c = canon(t[3][0][1])
            ok &= self._ob("OUTIDX", "Output(n)-is-position-in-first-answer", bool(re.fullmatch(r"some!\(Iterator::position\(\[T\]::iter\(outputs\), closure\(\{closure#\d+\}\)\)\)", c)), c, "Output(n) with n = `%s`, not a position in the driver's answer" % c, "%s:%d" % (b.file, st["span"]["line"]))
        boi = P.body(TESTDATA + "::build_output_indices")
        if boi is None:
            return self._ob("OUTIDX", "anchor", False, "", "build_output_indices not found")
        # the two fields are written together, from the same answer
        wl = [(x[0].name, x[1]) for x in P.field_writers(TESTDATA, FLD) if x[3] == "assign"]
        wo = [(x[0].name, x[1]) for x in P.field_writers(TESTDATA, "output_indices") if x[3] == "assign"]
        ok &= self._ob("OUTIDX", "who-writes-layout-fields", set(n for n, _ in wl) <= {boi.name} and set(n for n, _ in wo) <= {boi.name} and wl and wo, "%s / %s" % (wl, wo), "%s written in %s, output_indices in %s" % (FLD, wl, wo))
        good = False
        for n, bb in wl:
            for i, st in enumerate(boi.blocks[bb]["stmts"]):
                if st["s"] == "assign" and any(isinstance(e, dict) and e.get("f") == FLD for e in st["lhs"]["p"]):
                    v = canon(P.sl(boi).rvalue(st["rv"], bb, i))
                    good = v == "[T]::len(outputs)"
        ok &= self._ob("OUTIDX", "length-remembered-from-same-answer", good, "%s = outputs.len()" % FLD, "the remembered length `%s` is not the length of the answer the positions were taken from" % FLD)
        # both assignments on the same straight path (same block or consecutive)
        if wl and wo:
            cfg = P.cfg(boi)
            a, b_ = wo[0][1], wl[0][1]
            ok &= self._ob("OUTIDX", "fields-written-together", a == b_ or cfg.dominates(a, b_) or cfg.dominates(b_, a), "output_indices and %s are assigned on the same path" % FLD, "output_indices and %s are assigned on different paths" % FLD)
        # the pushed vector is the one stored
        return ok

    # -- TKA: token-kind typestate of the parser -----------------------------------------------
    def tka(self):
        if getattr(self, "_tka", None) is None:
            from ..core import tka as tkamod
            # the typestate analysis is interprocedural over the parser's functions: it reads new helpers as functions
            # (keeping the Ok/Err correlation of their results), not spliced into their callers
            self.P_tka = self.P if self.P.f.raw() is self.P.f else Prog(self.P.f.raw())
            T = tkamod.TKA(self.P_tka)
            self._tka_prims = T.verify_primitives(self.chk)
            from . import eqrules
            eqrules.require(self.chk, self.P, ["lexer::token::TokenKind"], "`tok.kind == K` / `at(K)` / `expect(K)` test the token kind itself")
            self._tka_rounds = T.run(["parsed_test_case::ParsedTestCase::parse"])
            self._tka_alt = None
            if self.P_tka is not self.P:
                # two sound readings of one program: a new helper as a function with a summary (keeps the Ok/Err correlation of its
                # result) or spliced into its caller (keeps the correlation between a kind test and the consumption that follows it
                # inside the helper).  Whatever either reading proves holds: the progress obligation may be taken from the spliced one.
                try:
                    T2 = tkamod.TKA(self.P)
                    T2.run(["parsed_test_case::ParsedTestCase::parse"])
                    self._tka_alt = T2
                except Exception:
                    self._tka_alt = None
            self._tka = T
        return self._tka

    def tka_for_progress(self):
        """The reading of the parser under which the progress obligation is judged (see tka())."""
        from ..core import tka as tkamod
        T = self.tka()
        if getattr(self, "_tka_alt", None) is None:
            return T

        class _Probe:
            def __init__(self):
                self.bad = 0
                self.analysed = {}

            def fail(self, *a, **k):
                self.bad += 1
                return False

            def require(self, cond, *a, **k):
                if not cond:
                    self.bad += 1
                return bool(cond)

            def ok(self, *a, **k):
                return True

            def floor(self, *a, **k):
                return True

            def anchor(self, role, v):
                if not v:
                    self.bad += 1
                return bool(v)
        p1, p2 = _Probe(), _Probe()
        try:
            tkamod.progress(T, p1)
            if p1.bad:
                tkamod.progress(self._tka_alt, p2)
                if not p2.bad:
                    self.chk.analysed["tka_progress_reading"] = "new helpers spliced into their callers (as functions with summaries their minimum consumption is 0)"
                    return self._tka_alt
        except Exception:
            pass
        return T

    def lemma_TKA(self):
        T = self.tka()
        ok = bool(self._tka_prims)
        eof, conv, n = T.verdicts()
        self.chk.analysed["tka"] = {"token_api_sites": n, "contexts": [("%s%s" % (k[0].split("::")[-1], [(c[1], sorted(c[2]) if c[2] else None) for c in k[1]])) for k in T.results], "rounds": self._tka_rounds}
        self.chk.floor("TKA", "token API call sites analysed", n, 120)
        seen = set()
        for fn, ctx, nm, site in eof:
            k = (fn, nm, site)
            if k in seen:
                continue
            seen.add(k)
            ok = False
            self.chk.fail("TKA", "tka:after-eof:%s:%s" % (fn, nm.split("::")[-1]), "token API call %s may run after the Eof token was consumed (peek/skip would panic)" % nm.split("::")[-1], site)
        if not eof:
            self.chk.ok("TKA", "tka:no-token-access-after-eof", "E = no at all %d token API / parser call sites in %d (function, context) pairs" % (n, len(T.results)))
        for pr in T.problems:
            ok = False
            self.chk.fail("TKA", pr[0], pr[1], pr[2])
        return ok

    def lemma_KINDCONV(self, fn):
        T = self.tka()
        ok = True
        sites = [s for s in T.conv_sites.values() if s["target"] == fn]
        dom = T.conv_domain(fn)
        short_fn = fn.split(" for ")[-1].replace(">::from", "")
        # every call of the conversion must be inside the analysed parser functions
        analysed = set(k[0] for k in T.results)
        direct = [(b.name, bb) for b, bb, nm in self.P_tka.callers(lambda n: n == fn)]
        via_into = []
        for b in self.P_tka.f.hand_bodies():
            for bb, t in b.calls():
                nm, fi = callee_name(t)
                if T._conversion_target(nm, fi) == fn and nm != fn:
                    via_into.append((b.name, bb))
        allc = set(direct + via_into)
        covered = set((s["fn"], s["bb"]) for s in sites)
        ok &= self._ob("KINDCONV", "%s:all-call-sites-analysed" % short_fn, allc <= covered and bool(allc), "%d call site(s), all in TKA-analysed parser functions" % len(allc), "conversion %s is called from %s outside the analysed parser" % (short_fn, sorted(allc - covered)))
        for s in sites:
            av = s["arg"]
            good = dom is not None and av is not None and av[0] == "kind" and av[1] <= dom
            extra = sorted(av[1] - dom) if (dom is not None and av is not None and av[0] == "kind") else "?"
            if good:
                self.chk.ok("TKA", "tka:kindconv:%s:%s" % (short_fn, s["fn"].split("::")[-1]), "argument kinds %s within the mapped set" % sorted(av[1]), s["site"])
            else:
                ok = False
                self.chk.fail("TKA", "tka:kindconv:%s:%s" % (short_fn, s["fn"].split("::")[-1]), "conversion to %s may receive token kinds %s, which it maps to unreachable!()" % (short_fn, extra), s["site"])
        return ok

    # -- TOKSPAN: token spans are lexer spans of the parser's own input ---------------------------
    def lemma_TOKSPAN(self):
        P, ok = self.P, True
        cons = P.constructors("lexer::token::Token")
        fns = sorted(set(b.name for b, _, _, _ in cons))
        ok &= self._ob("TOKSPAN", "who-constructs-Token", fns == ["<lexer::TokenIter as std::iter::Iterator>::next"], "only TokenIter::next (%d sites)" % len(cons), "Token constructed in %s" % fns)
        for b, bb, i, st in cons:
            t = P.sl(b).rvalue(st["rv"], bb, i)
            sp = canon(dict(t[3]).get("span", ("unknown", "")))
            good = re.fullmatch(r"some!\(Iterator::next\(self\.iter\)\)\.1|Lexer::span\(self\.iter\)", sp)
            ok &= self._ob("TOKSPAN", "Token.span-origin", bool(good), sp, "Token.span is `%s`, not a span reported by the lexer" % sp, "%s:%d" % (b.file, st["span"]["line"]))
        w = P.field_writers("lexer::token::Token", "span")
        ok &= self._ob("TOKSPAN", "Token.span-unwritten", not w, "no writers", "Token.span written in %s" % [x[0].name for x in w])
        # the parser's `input` is the string the lexer runs on
        for b, bb, i, st in P.constructors("parser::HeaderParser"):
            t = P.sl(b).rvalue(st["rv"], bb, i)
            f = {k: canon(v) for k, v in t[3]}
            good = f.get("input") == "input" and f.get("iter") == "Logos::lexer(input)"
            ok &= self._ob("TOKSPAN", "HeaderParser-input=lexer-source", good, str(f), "HeaderParser{input: %s, iter: %s}" % (f.get("input"), f.get("iter")))
        n = 0
        for b, bb, i, st in P.constructors("parser::Parser"):
            if b.name != "parser::Parser::from":
                continue
            n += 1
            t = P.sl(b).rvalue(st["rv"], bb, i)
            f = {k: canon(v) for k, v in t[3]}
            good = re.fullmatch(r"_2\.input|.*\.input", f.get("input", "")) and re.fullmatch(r"Iterator::peekable\(From::from\((.*)\.iter\)\)", f.get("iter", ""))
            same = good and f["input"][:-len(".input")] == re.fullmatch(r"Iterator::peekable\(From::from\((.*)\.iter\)\)", f["iter"]).group(1)
            ok &= self._ob("TOKSPAN", "Parser-input=lexer-source", bool(same), str({k: f.get(k) for k in ("input", "iter")}), "Parser{input: %s, iter: %s}" % (f.get("input"), f.get("iter")))
        ok &= self._ob("TOKSPAN", "Parser::from-found", n == 1, "", "Parser::from does not build exactly one Parser")
        fr = P.body("<lexer::TokenIter as std::convert::From<logos::Lexer<T>>>::from")
        if fr is not None:
            rets = set()
            for b, bb, i, st in P.constructors("lexer::TokenIter"):
                if b is fr:
                    t = P.sl(b).rvalue(st["rv"], bb, i)
                    rets.add(canon(dict(t[3]).get("iter", ("unknown", ""))))
            ok &= self._ob("TOKSPAN", "TokenIter-morphs-same-lexer", rets == {"Lexer::spanned(Lexer::morph(iter))"}, str(rets), "TokenIter::from builds iter = %s" % rets)
        else:
            ok &= self._ob("TOKSPAN", "TokenIter::from-anchor", False, "", "TokenIter::from not found")
        w = P.field_writers("parser::Parser", "input")
        ok &= self._ob("TOKSPAN", "Parser.input-unwritten", not w, "no writers", "Parser.input written in %s" % [x[0].name for x in w])
        return ok

    # -- COUNTER: the loop counter is bound while its loop runs ---------------------------------------
    def lemma_COUNTER(self):
        from . import c01
        return c01.counter_lemma(self.P, self.chk)


def _bool_rows(pt):
    """A boolean closure's table as decision rows: a row whose result is itself a test `f(..)` (the tail of `a && f(..)`)
    is the two rows f true -> 1, f false -> 0."""
    out = set()
    for facts, shape in pt:
        if shape in ("0", "1"):
            out.add((facts, shape))
        elif isinstance(shape, str) and re.match(r"^[A-Za-z_][\w:<>\[\], ]*\(", shape) and not shape.startswith("Not("):
            out.add((frozenset(set(facts) | {(shape, True)}), "1"))
            out.add((frozenset(set(facts) | {(shape, False)}), "0"))
        else:
            out.add((facts, shape))
    return out


def selector_ok(P, cl, variant):
    """closure(|(i, entry)|) returns Some(i) iff entry == <variant> && self.entry_is_input(i) — written as one
    `filter_map`/`find_map` closure, or as `filter(|(i, entry)| ..)` followed by `map(|(i, _)| i)`."""
    pt = tab.predicate_table(P, cl)
    use = P.closure_use(cl)
    use_nm = use[0] if use else ""
    sibs = [c for c in P.f.closures_of(cl.parent)] if getattr(cl, "parent", None) else []
    if use_nm == "std::iter::Iterator::map":
        # the projection half of filter(..).map(|(i, _)| i): judged together with its filter closure
        rows = sorted(pt, key=str)
        m = re.fullmatch(r"elem\(Iterator::filter\(.*, closure\((\{closure#\d+\})\)\)\)\.0", rows[0][1]) if len(rows) == 1 and not rows[0][0] else None
        if m and any(c.name.endswith(m.group(1)) and (P.closure_use(c) or [""])[0] == "std::iter::Iterator::filter" for c in sibs):
            return (True, "projection `.0` of the elements kept by filter %s" % m.group(1))
        return (False, rows)
    if use_nm == "std::iter::Iterator::filter":
        me = "{closure#%s}" % cl.name.rsplit("#", 1)[-1].rstrip("}")
        proj = False
        for c in sibs:
            if (P.closure_use(c) or [""])[0] == "std::iter::Iterator::map":
                r_ = sorted(tab.predicate_table(P, c), key=str)
                if len(r_) == 1 and not r_[0][0] and re.fullmatch(r"elem\(Iterator::filter\(.*, closure\(%s\)\)\)\.0" % re.escape(me), r_[0][1]):
                    proj = True
        if not proj:
            return (False, "filter %s is not followed by the projection map(|(i, _)| i)" % me)
        pt = set((f_, {"1": "Some(?)", "0": "None"}.get(s_, s_)) for f_, s_ in _bool_rows(pt))
    norm = set()
    for facts, shape in pt:
        nf = []
        for f, truth in facts:
            f = re.sub(r"elem\((?:[^()]|\((?:[^()]|\((?:[^()]|\((?:[^()]|\((?:[^()]|\([^()]*\))*\))*\))*\))*\))*\)", "E", f)
            nf.append((f, truth))
        norm.add((frozenset(nf), shape))
    eq = "Eq(DataEntry::%s{}, E.1)" % variant
    ne = "Ne(DataEntry::%s{}, E.1)" % variant
    inp = "DataRowIteratorTestData::entry_is_input(self, E.0)"
    want = {(frozenset([(eq, True), (inp, True)]), "Some(?)"), (frozenset([(eq, True), (inp, False)]), "None"), (frozenset([(ne, True)]), "None")}
    # the Some payload must be the index
    pay = set()
    for pi in tab.paths(P, cl, to_return_only=True):
        r = terms.strip(pi.ret())
        if r[0] == "agg" and r[2].endswith("Option::Some"):
            pay.add(re.sub(r"^elem\(.*\)\.0$", "E.0", canon(r[3][0][1])))
    if use_nm == "std::iter::Iterator::filter":
        pay = {"E.0"}     # the projection half was matched above
    return (norm == want and pay == {"E.0"}, sorted(norm, key=str))


def selector_complete(P, cl, variant):
    """The selector finds every input-column entry equal to <variant>: either it scans the row's
    entries and tests entry_is_input(i) (form a), or it scans input_indices and tests the entry in
    that column (form b).  Iteration order is irrelevant for completeness (C05 judges the order)."""
    good, got = selector_ok(P, cl, variant)
    if good:
        return True, got
    pt = tab.predicate_table(P, cl)
    norm = set()
    for facts, shape in pt:
        nf = []
        for f, truth in facts:
            f = re.sub(r"elem\((?:Iterator::rev\()?\[T\]::iter\(self\.input_indices\)\)?\)", "IDX", f)
            f = re.sub(r"(Option::expect|Option::unwrap)\((\[T\]::last|Vec::pop)\(self\.cache\)(, '[^']*')?\)\.entries", "ROW", f)
            nf.append((f, truth))
        norm.add((frozenset(nf), shape))
    col = "(IDX as Entry).entry_index"
    cell = "(?:Index::index\\(ROW, %s\\)|ROW\\[%s\\])" % (re.escape(col), re.escape(col))
    ok_rows = 0
    for facts, shape in norm:
        fs = dict(facts)
        v = fs.get("variant(IDX)")
        eqs = [k for k in fs if re.fullmatch(r"Eq\(DataEntry::%s\{\}, %s\)" % (variant, cell), k)]
        nes = [k for k in fs if re.fullmatch(r"Ne\(DataEntry::%s\{\}, %s\)" % (variant, cell), k)]
        if v == ("Default",) and shape == "None" and len(fs) == 1:
            ok_rows += 1
        elif v == ("Entry",) and eqs and shape == "Some(?)" and len(fs) == 2:
            ok_rows += 1
        elif v == ("Entry",) and nes and shape == "None" and len(fs) == 2:
            ok_rows += 1
        else:
            return False, sorted(norm, key=str)
    pay = set()
    for pi in tab.paths(P, cl, to_return_only=True):
        r = terms.strip(pi.ret())
        if r[0] == "agg" and r[2].endswith("Option::Some"):
            pay.add(re.sub(r"elem\((?:Iterator::rev\()?\[T\]::iter\(self\.input_indices\)\)?\)", "IDX", canon(r[3][0][1])))
    return (ok_rows == 3 and pay == {col}, sorted(norm, key=str))


def canon_calls(P, b):
    out = []
    for bb, t in b.calls():
        nm = callee_name(t)[0]
        out.append((short(nm), [canon(x) for x in P.call_arg_terms(b, bb)]))
    return out


# ---------------------------------------------------------------------------
# Site discharge rules.  Each returns None (not applicable), or
# (True, reason) / (False, why-not).
# ---------------------------------------------------------------------------

IDX_ELEM = r"(elem\((?:Iterator::rev\()?(\[T\]::iter|Iterator::zip\(\[T\]::iter)\(self\.(input|expected)_indices\).*?\)(\.0)?|some!\(Iterator::next\((?:(IntoIterator::into_iter|&\[T\]::into_iter)\()?(\[T\]::iter\()?self\.(input|expected)_indices\)?\)?\)\))"
SIGIDX_INDEX = re.compile(r"^(EntryIndex::signal_index\(%s\)|\(%s as (Entry|Default)\)\.signal_index)$" % (IDX_ELEM, IDX_ELEM))
ENTRY_INDEX = re.compile(r"^\(%s as Entry\)\.entry_index$" % IDX_ELEM)


def _index_pair(d):
    """(base canon, index canon) of an indexing site, or None."""
    if d["kind"] == "assert" and d["construct"] == "BoundsCheck":
        m = re.fullmatch(r"len\((.*)\)", d["len"])
        return (m.group(1) if m else d["len"], d["index"])
    if d["kind"] == "call" and d["construct"] in ("Index::index", "IndexMut::index_mut", "str::index"):
        return (d["args"][0], d["args"][1])
    return None


def r_sigidx(P, L, s, d):
    ip = _index_pair(d)
    if not ip or ip[0] != "self.signals":
        return None
    fn = s.body.name
    if fn.startswith(TESTDATA + "::") and SIGIDX_INDEX.match(ip[1]):
        return (L.need("SIGIDX"), "index is a stored EntryIndex.signal_index of this iterator's test case; lemma SIGIDX")
    if fn.startswith(TESTDATA + "::build_output_indices") and re.fullmatch(r"elem\((Iterator::filter\()?\[T\]::iter\(read_outputs\)(, closure\(\{closure#\d+\}\)\))?\)", ip[1]):   # an element that passed a filter is still an element
        return (L.need("SIGIDX"), "index is an element of test_case.read_outputs (positions in the signal list); lemma SIGIDX")
    if fn.startswith("static_test::<impl TestCase>::try_iter_static") and ip[1] == "elem([T]::iter(self.read_outputs))":
        return (L.need("SIGIDX"), "index is an element of self.read_outputs; lemma SIGIDX")
    return None


def r_rowwidth(P, L, s, d):
    ip = _index_pair(d)
    if not ip:
        return None
    fn = s.body.name
    base, idx = ip
    if fn.startswith(TESTDATA + "::generate_") and base in ("stmt_entries", "changed") and ENTRY_INDEX.match(idx):
        # the slices are the row being returned and its `changed` vector
        gr = P.body(TESTDATA + "::get_row")
        good = False
        if gr is not None:
            for bb, t in gr.calls():
                nm = callee_name(t)[0]
                if nm == fn.split("::{closure")[0]:
                    a = [canon(x) for x in P.sl(gr).call_args(bb)]
                    good = a[1] == "Option::unwrap(Vec::pop(self.cache)).entries" and (len(a) < 3 or a[2].startswith("DataRowIteratorTestData::check_changed_entries(self, Option::unwrap(Vec::pop(self.cache)).entries)"))
        if not good:
            return (False, "generator is not called with the popped row's entries (and its changed vector)")
        return (L.need("ROWWIDTH") and L.need("STK"), "entry_index is a header position and every cached row has header width; lemma ROWWIDTH")
    row = r"(Option::unwrap|Option::expect)\(Vec::pop\(self\.cache\)(, '[^']*')?\)"
    anyrow = r"(Option::unwrap|Option::expect)\((Vec::pop|\[T\]::last)\(self\.cache\)(, '[^']*')?\)\.entries"
    if fn.startswith(TESTDATA + "::expand_") and re.fullmatch(anyrow, base):
        # a cached row indexed by the entry_index of one of this iterator's index-table elements
        if ENTRY_INDEX.match(idx):
            return (L.need("ROWWIDTH"), "cached row indexed by a stored entry_index (a header position); lemma ROWWIDTH")
        m2 = re.fullmatch(r"some!\(Iterator::find_map\((?:Iterator::rev\()?\[T\]::iter\(self\.(input|expected)_indices\)\)?, closure\(\{closure#(\d+)\}\)\)\)", idx)
        if m2:
            cl = P.body("%s::{closure#%s}" % (fn, m2.group(2)))
            pays = set()
            if cl is not None:
                for pi in tab.paths(P, cl, to_return_only=True):
                    r_ = terms.strip(pi.ret())
                    if r_[0] == "agg" and r_[2].endswith("Option::Some"):
                        pays.add(canon(r_[3][0][1]))
            if pays and all(ENTRY_INDEX.match(x) for x in pays):
                return (L.need("ROWWIDTH"), "index found by a selector that returns a stored entry_index; lemma ROWWIDTH")
    m = re.fullmatch(row + r"\.entries", base)
    if fn == TESTDATA + "::expand_x" and m:
        if re.fullmatch(r"some!\(Iterator::find_map\(Iterator::rev\(Iterator::enumerate\(\[T\]::iter\(Option::expect\(\[T\]::last\(self\.cache\), '[^']*'\)\.entries\)\)\), closure\(\{closure#0\}\)\)\)", idx):
            cl = P.body(fn + "::{closure#0}")
            good = False
            if cl is not None:
                rets = set(canon(P.resolve(cl, P.sl(cl).ret(rb))) for rb in P.cfg(cl).return_blocks())
                good = rets == {"phi(Option::None{} | Option::Some{0: elem(Iterator::rev(Iterator::enumerate([T]::iter(Option::expect([T]::last(self.cache), '_').entries)))).0})"}
            return (good and L.need("STK"), "index is the enumerate index found in last(cache).entries, and the row popped next is that same row (LIFO)")
    if fn == TESTDATA + "::expand_c" and m:
        ENUM = r"Iterator::enumerate\(\[T\]::iter\(" + row + r"\.entries\)\)"
        if re.fullmatch(r"some!\(Iterator::next\((?:IntoIterator::into_iter|\[T\]::iter)\(Iterator::collect\(" + sel_re(ENUM) + r"\)\)\)\)", idx):
            good = False
            if "Iterator::filter_map(" in idx:
                cl = P.body(fn + "::{closure#0}")
                if cl is not None:
                    rets = set(canon(P.resolve(cl, P.sl(cl).ret(rb))) for rb in P.cfg(cl).return_blocks())
                    good = len(rets) == 1 and re.fullmatch(r"phi\(Option::None\{\} \| Option::Some\{0: elem\(" + ENUM + r"\)\.0\}\)", list(rets)[0]) is not None
            else:
                # filter(..).map(|(i, _)| i): the projected value is the enumerate index of a kept element
                for cl in P.f.closures_of(fn):
                    if (P.closure_use(cl) or [""])[0] == "std::iter::Iterator::map":
                        rets = set(canon(P.resolve(cl, P.sl(cl).ret(rb))) for rb in P.cfg(cl).return_blocks())
                        good = len(rets) == 1 and re.fullmatch(r"elem\(Iterator::filter\(" + ENUM + r", closure\(\{closure#\d+\}\)\)\)\.0", list(rets)[0]) is not None
            return (good, "index is an enumerate index collected from this same row's entries")
        if ENTRY_INDEX.match(idx):
            return (L.need("ROWWIDTH"), "entry_index of an expected index, a header position; lemma ROWWIDTH")
    return None


def r_outidx(P, L, s, d):
    ip = _index_pair(d)
    if not ip or not s.body.name.startswith(TESTDATA + "::extract_output_values"):
        return None
    base, idx = ip
    if base == "outputs" and re.fullmatch(r"\(elem\(Iterator::zip\(\[T\]::iter\(self\.expected_indices\), self\.output_indices\)\)\.1 as Output\)\.0", idx):
        # the closure runs only after the length test against the remembered answer length
        cs = P.closure_creation(s.body)
        if cs is None:
            return (False, "closure creation site not found")
        g = guards_at(P, cs[0], cs[1])
        flds = [re.fullmatch(r"self\.(\w+)", x[2]).group(1) for x in g if x[0] == "Eq" and x[1] == "Vec::len(outputs)" and re.fullmatch(r"self\.(\w+)", x[2])]
        if not flds:
            return (False, "the per-entry closure is not dominated by outputs.len() == <a remembered length field> (guards: %s)" % [x for x in g if x[0] in ("Eq", "Ne")])
        return (L.need("OUTIDX:" + flds[0]), "stored position < length of the first answer == length of this answer; lemma OUTIDX")
    return None


_FOLD_CACHE = {}


def fold_total(P, b):
    """Fold an all-integer, single-parameter function over 0..=130 plus large
    probes in both overflow modes.  -> (ok, why, stats)"""
    from ..core import fold
    if b.name in _FOLD_CACHE:
        return _FOLD_CACHE[b.name]
    res = (False, "not an integer function of one parameter", {})
    if b.arg_count == 1 and fold.int_ty(b.local_ty(1)) is not None:
        signed, bits = fold.int_ty(b.local_ty(1))
        top = (1 << (bits - (1 if signed else 0))) - 1
        small = list(range(0, 131))
        probes = [131, 255, 256, 1 << 16, 1 << 31, 1 << 32, top - 1, top]
        if signed:
            small += [-x for x in range(1, 131)]
            probes += [-(1 << 31), -top, -top - 1]
        probes = [p for p in probes if p <= top]
        bad = []
        n = 0
        # comparisons against constants must all be below the enumerated range
        consts = []
        for bb in b.reachable_blocks():
            for st in b.blocks[bb]["stmts"]:
                if st["s"] == "assign" and st["rv"]["r"] == "bin" and st["rv"]["op"] in ("Lt", "Le", "Gt", "Ge", "Eq", "Ne"):
                    for side in ("a", "b"):
                        o = st["rv"][side]
                        if o.get("k") == "const" and "int" in o:
                            consts.append(abs(o["int"]))
        for mode in ("checked", "unchecked"):
            out, seen = fold.fold_fn(P, b, [(v,) for v in small + probes], mode)
            n += len(out)
            for a, r in out.items():
                if r[0] != "ret":
                    bad.append((mode, a[0], r))
            # large probes must not execute any arithmetic assert (their path is the same for all larger values)
            f2 = fold.Folder(P, mode)
            for v in probes:
                f2.asserts_seen = {}
                try:
                    f2.run(b, [v])
                except Exception:
                    pass
                if any(not k.startswith("UB") for k in f2.asserts_seen.values()):
                    bad.append((mode, v, ("assert executed on a large-value path", sorted(set(f2.asserts_seen.values())))))
        if consts and max(consts) >= 131:
            bad.append(("-", "-", ("comparison constant %d outside the enumerated range" % max(consts),)))
        res = (not bad, "folded for every value 0..=130 and %d boundary probes in both overflow modes: no Assert fails; large values take an assert-free path" % len(probes) if not bad else "fold: %s" % bad[:3], {"cases": n})
    _FOLD_CACHE[b.name] = res
    return res


def r_fold(P, L, s, d):
    if d["kind"] == "assert" and d["construct"].startswith("Overflow") and s.body.kind == "Fn" and s.body.arg_count == 1:
        ok, why, stats = fold_total(P, s.body)
        if stats:
            return (ok, "FOLD: " + why)
    return None


def r_default_unwrap(P, L, s, d):
    if d["kind"] == "call" and d["construct"] == "Option::unwrap/expect" and s.body.name.startswith(TESTDATA + "::generate_"):
        m = re.fullmatch(r"Signal::default_value\(self\.signals\[(.*)\]\)", d["args"][0])
        if m and SIGIDX_INDEX.match(m.group(1)) and "input_indices" in m.group(1) and "expected_indices" not in m.group(1):
            return (L.need("INPUTIDX") and L.need("SIGIDX"), "signal is indexed by an element of input_indices, built only for Input|Bidirectional, for which default_value is Some; lemma INPUTIDX")
    return None


def r_generator_unreachable(P, L, s, d):
    if s.kind == "macro" and s.construct == "unreachable!" and s.body.name.startswith(TESTDATA + "::generate_"):
        arm = [a for a in d["arms"] if a.get("enum", "").endswith("DataEntry")]
        if not arm:
            return (False, "unreachable!() is not in a match on the row entry")
        residual = set(arm[0]["variants"])
        subj = canon(arm[0]["on"])
        inputs = "generate_input_entries" in s.body.name
        allowed = {"Expr", "Bits", "X", "C"} if inputs else {"Expr", "Bits", "C"}
        if not residual <= allowed:
            return (False, "arm is reached for entry kinds %s" % sorted(residual - allowed))
        if not re.fullmatch(r"stmt_entries\[\(%s as Entry\)\.entry_index\]" % IDX_ELEM, subj):
            return (False, "matched value is `%s`" % subj)
        return (L.need("RESIDUAL"), "residual kinds %s cannot occur in %s columns of an evaluated, expanded row; lemma RESIDUAL" % (sorted(residual), "input" if inputs else "expected"))
    return None


def r_stk(P, L, s, d):
    if d["kind"] == "call" and d["construct"] == "Option::unwrap/expect" and s.body.name in (TESTDATA + "::expand_x", TESTDATA + "::expand_c", TESTDATA + "::get_row"):
        if re.fullmatch(r"(Vec::pop|\[T\]::last)\(self\.cache\)", d["args"][0]):
            return (L.need("STK"), "cache is non-empty here; lemma STK (stack-height typestate)")
    return None


def r_guard_lt(P, L, s, d):
    """index < len(base) established by a dominating comparison on the same terms
    (for closure bodies: at the closure's creation site)."""
    ip = _index_pair(d)
    if not ip:
        return None
    base, idx = ip
    b, bb = s.body, s.bb
    while True:
        g = guards_at(P, b, bb)
        for x in g:
            if x[0] == "Lt" and x[1] == idx and x[2] in ("Vec::len(%s)" % base, "[T]::len(%s)" % base, "len(%s)" % base):
                return (True, "dominated by %s < %s" % (idx, x[2]))
        cs = P.closure_creation(b) if b.kind == "Closure" else None
        if cs is None:
            return None
        b, bb = cs[0], cs[1]


def r_position_same(P, L, s, d):
    ip = _index_pair(d)
    if not ip:
        return None
    base, idx = ip
    m = re.fullmatch(r"(some!|Option::unwrap)\(Iterator::position\(\[T\]::iter\((.*?)\), closure\(\{closure#\d+\}\)\)\)", idx)
    if not m:
        return None
    over = m.group(2)
    if over == base:
        # canonical strings drop call-site identity (two `Vec::new()` look alike): compare the terms
        bt = it = None
        if d["kind"] == "call":
            bt = terms.strip(d["args_t"][0])
            for x in terms.walk(d["args_t"][1]):
                if x[0] == "call" and x[1] == "std::iter::Iterator::position":
                    y = terms.strip(x[2][0])
                    if y[0] == "call" and y[1].endswith("::iter") and y[2]:
                        it = terms.strip(y[2][0])
        if bt is not None and it is not None and bt == it:
            return (True, "index is a `position` found in the indexed collection itself")
    if (over, base) == ("self.signals", "self.signal_spans") and s.body.name.startswith("parsed_test_case::ParsedTestCase::"):
        return (L.need("PAIRLEN"), "position in self.signals indexes self.signal_spans, pushed pairwise; lemma PAIRLEN")
    if s.body.name == "parser::HeaderParser::parse":
        nm = [s.body.local_name(L._root_local(s.body, a, s.bb)) for a in s.term["args"][:1]]
        if nm == ["spans"] and "Vec::new()" in over:
            return (L.need("PAIRLEN"), "position in `signals` indexes `spans`, pushed pairwise; lemma PAIRLEN")
    return None


def r_position_unwrap(P, L, s, d):
    """`position(..).unwrap()` where the searched-for element was taken from the same collection."""
    if d["kind"] == "call" and d["construct"] == "Option::unwrap/expect" and re.match(r"parsed_test_case::ParsedTestCase::check_missing_signals::\{closure#\d+\}$", s.body.name):
        if re.fullmatch(r"Iterator::position\(\[T\]::iter\(self\.signals\), closure\(\{closure#0\}\)\)", d["args"][0]):
            # the closure compares with `name`, an element of missing_signals, which is a selection (filter_map, or filter + map) over self.signals
            par = P.body("parsed_test_case::ParsedTestCase::check_missing_signals")
            use = P.closure_use(s.body)
            good = False
            ENUM = r"Iterator::enumerate\(\[T\]::iter\(self\.signals\)\)"
            MISSING = r"\[T\]::iter\(Iterator::collect\(" + sel_re(ENUM) + r"\)\)"
            if use is not None:
                recv = canon(use[1][0])
                good = re.fullmatch(MISSING, recv) is not None
            # the selection's projection copies the signal's own name
            copies = False
            for c0 in (P.f.closures_of(par.name) if par is not None else []):
                if c0 is s.body:
                    continue
                rets = set(canon(P.resolve(c0, P.sl(c0).ret(rb))) for rb in P.cfg(c0).return_blocks())
                if rets and all(re.search(r"ToOwned::to_owned\(elem\((?:Iterator::filter\()?" + ENUM + r"(?:, closure\(\{closure#\d+\}\)\))?\)\.1\)", r) for r in rets if r != "Option::None{}") and any("to_owned" in r for r in rets):
                    copies = True
            good = good and copies
            inner = P.body(s.body.name + "::{closure#0}")
            if good and inner is not None:
                # the predicate is exactly `sig_name == name` (element of self.signals against the searched copy), not its negation
                rets = set(canon(P.resolve(inner, P.sl(inner).ret(rb))) for rb in P.cfg(inner).return_blocks())
                A = re.escape("elem([T]::iter(self.signals))")
                B = r"elem\(" + MISSING + r"\)"
                r0 = next(iter(rets)) if len(rets) == 1 else ""
                m0 = re.match(r"PartialEq[^(]*::eq\(", r0)
                good = bool(m0) and (re.fullmatch("%s, %s" % (A, B), r0[m0.end():-1]) is not None or re.fullmatch("%s, %s" % (B, A), r0[m0.end():-1]) is not None)
            return (good, "the searched name is a copy of an element of self.signals, so position() is Some")
    return None


def r_func(P, L, s, d):
    fn = s.body.name
    if d["kind"] == "assert" and d["construct"] == "BoundsCheck" and d["len"] in ("len(args)", "len(%s)" % s.body.local_name(2)):
        tabl = L.func_table() or []
        if fn in [t[2] for t in tabl]:
            return (L.need("FUNC"), "constant index below the arity of the table entry, and Expr::Func is only built with matching arity; lemma FUNC")
    if fn == "expr::Expr::eval":
        if d["kind"] == "call" and d["construct"] == "Option::unwrap/expect" and re.fullmatch(r"FuncTable::get\(.*, \(self as Func\)\.name\)", d["args"][0]):
            return (L.need("FUNC"), "Expr::Func.name was looked up successfully in the same constant table when the node was built; lemma FUNC")
        if s.kind == "macro" and s.construct == "panic!":
            arm = [a for a in d["arms"] if "cond" in a]
            if arm and re.fullmatch(r"Ne\(Option::expect\(FuncTable::get\(.*, \(self as Func\)\.name\), '[^']*'\)\.number_of_args, (?:Vec::len|\[T\]::len|len)\((?:Deref::deref\()?\(self as Func\)\.args\)?\)\)", canon(arm[0]["cond"])):
                return (L.need("FUNC"), "arity mismatch excluded at construction of Expr::Func; lemma FUNC")
    return None


def r_bits_shift(P, L, s, d):
    if d["kind"] == "assert" and d["construct"] in ("Overflow(Shr)", "Overflow(Shl)") and s.body.name.startswith("stmt::DataEntry::eval"):
        if d["b"] == "elem(Iterator::rev(ops::Range{start: 0, end: (self as Bits).number}))":
            return (L.need("BITS"), "shift count n < number <= 64; lemma BITS")
    return None


def r_step(P, L, s, d):
    """usize counter advanced by a constant or a u8-derived amount at most once per consumed token."""
    if d["kind"] == "assert" and d["construct"] == "Overflow(Add)":
        ty = s.term["msg"]["a"].get("ty") or ""
        op_a = s.term["msg"]["a"]
        lty = s.body.local_ty(op_a["l"]) if op_a.get("k") in ("copy", "move") and not op_a["p"] else op_a.get("ty", "")
        small = re.fullmatch(r"\d+", d["b"]) and int(d["b"]) <= 255 or re.fullmatch(r"\(\(.* as u8\) as usize\)", d["b"])
        if lty == "usize" and small and s.body.name in ("parser::HeaderParser::parse", "parser::Parser::get", "parser::stmt::<impl parser::Parser>::parse_data_row"):
            return (True, "step rule: usize counter += (constant or u8) once per consumed token; cannot wrap below 2^56 tokens (assumption)")
        if lty == "usize" and small and s.body.name.startswith("parser::"):
            # the same argument for a counter kept elsewhere in the parser: a call that consumes one token dominates the
            # increment, and every cycle through the increment passes through that call again (one step per consumed token)
            cfg = P.cfg(s.body)
            CONSUME = ("parser::Parser::get", "parser::Parser::skip", "parser::Parser::expect")
            doms = []
            for bb, t in s.body.calls():
                nm = callee_name(t)[0]
                if nm in CONSUME or (nm.endswith("Iterator::next") and "self.iter" in canon(P.call_arg_terms(s.body, bb)[0])):
                    if bb != s.bb and cfg.dominates(bb, s.bb):
                        doms.append(bb)
            for dbb in doms:
                again = any(cfg.can_reach(x, {s.bb}, avoid=frozenset({dbb})) for x in s.body.succ(s.bb))
                if not again:
                    return (True, "step rule: usize counter += small constant, dominated by a token-consuming call (%s) that every further pass repeats: at most one step per consumed token; cannot wrap below 2^56 tokens (assumption)" % callee_name(s.body.term(dbb))[0].split("::")[-1])
        if lty == "usize" and s.body.name == "parser::Parser::get" and re.fullmatch(r"ExactSizeIterator::len\(some!\(Iterator::next\(self\.iter\)\)\.span\)", d["b"]):
            return (True, "step rule: usize counter += byte length of the token just consumed; token spans are disjoint sub-ranges of the input, so the sum is <= input length <= isize::MAX")
    return None


def r_unit_counter(P, L, s, d):
    """A 64-bit counter kept in a field of `self` and advanced by exactly 1 (`self.n += 1`, `self.n.set(self.n.get() + 1)`):
    one step per execution of the statement, so wrapping needs 2^63 executions — the step rule's argument, for any function."""
    if d["kind"] == "assert" and d["construct"] == "Overflow(Add)" and d.get("b") == "1":
        op_a = s.term["msg"]["a"]
        lty = s.body.local_ty(op_a["l"]) if op_a.get("k") in ("copy", "move") and not op_a["p"] else op_a.get("ty", "")
        a = d.get("a", "")
        m = re.fullmatch(r"(?:Cell::get\()?(self(?:\.\w+)+)\)?", a)
        if lty in ("u64", "usize", "i64", "u128", "i128") and m:
            place = m.group(1)
            summ = "AddWithOverflow(%s, 1).0" % a
            stored = False
            for bb in sorted(s.body.reachable_blocks()):
                for i, st in enumerate(s.body.blocks[bb]["stmts"]):
                    if st["s"] == "assign" and st["lhs"]["p"] and canon(P.sl(s.body).rvalue(st["rv"], bb, i)) == summ:
                        stored = True
                t = s.body.term(bb)
                if t["t"] == "call" and callee_name(t)[0] == "std::cell::Cell::set":
                    aa = [canon(x) for x in P.call_arg_terms(s.body, bb)]
                    if aa == [place, summ]:
                        stored = True
            # nobody else moves the counter: its only other writers are constructors (a struct literal), so it starts at what they
            # put there and only ever takes unit steps (a counter that user data could set near the top would not qualify)
            owner = re.sub(r"^&('\w+ )?(mut )?", "", s.body.locals[1]["ty"]).split("<")[0] if s.body.arg_count >= 1 else ""
            fld = place.split(".")[1] if "." in place else ""
            others = []
            if stored and owner and fld and place.count(".") == 1:
                for (wb, wbb, wi, kind) in P.field_writers(owner, fld):
                    if wb is s.body:
                        continue
                    others.append((wb.name, kind))
                for bb in sorted(s.body.reachable_blocks()):     # Cell::set elsewhere on the same field
                    pass
                for ob in P.f.hand_bodies():
                    if ob is s.body:
                        continue
                    for bb, t in ob.calls():
                        if callee_name(t)[0] == "std::cell::Cell::set" and canon(P.call_arg_terms(ob, bb)[0]).endswith("." + fld):
                            others.append((ob.name, "Cell::set"))
            if stored and not others and place.count(".") == 1:
                return (True, "step rule: the 64-bit counter %s is advanced by exactly 1 per execution and written nowhere else; it cannot wrap below 2^63 executions (assumption)" % place)
    return None


def r_capacity(P, L, s, d):
    if d["kind"] == "call" and d["construct"] in ("Vec::with_capacity", "vec![x; n]"):
        a = d["args"][-1]
        if re.fullmatch(r"(\[T\]|Vec)::len\(.*\)", a):
            return (True, "capacity is the length of an existing collection")
    return None


def r_drain_full(P, L, s, d):
    if d["kind"] == "call" and d["construct"] == "Vec::remove/insert/drain" and callee_name(s.term)[0].endswith("::drain"):
        if d["args"][1] == "ops::RangeFull{}":
            return (True, "drain(..) over the full range")
    return None


def r_sort(P, L, s, d):
    if d["kind"] == "call" and d["construct"] == "slice::sort":
        # comparator closure must be usize::cmp on projected keys
        m = re.fullmatch(r"closure\(\{closure#(\d+)\}\)", d["args"][-1])
        if m:
            cl = P.body("%s::{closure#%s}" % (s.body.name, m.group(1)))
            if cl is not None:
                cs = [n for n, a in canon_calls(P, cl)]
                if cs == ["Ord for usize>::cmp"] or cs == ["Ord::cmp"] or all(n.endswith("cmp") and "usize" in n for n in cs) and cs:
                    return (True, "comparator is usize::cmp on a projected key (a total order)")
                return (False, "comparator calls %s" % cs)
    return None


def r_radix(P, L, s, d):
    if d["kind"] == "call" and d["construct"] == "from_str_radix":
        m = re.fullmatch(r"(phi\()?((\d+)( \| )?)+\)?", d["args"][1])
        vals = [int(x) for x in re.findall(r"\d+", d["args"][1])] if m else None
        if vals and all(2 <= v <= 36 for v in vals):
            return (True, "radix operand is one of the constants %s" % sorted(vals))
        return (False, "radix operand is `%s`" % d["args"][1])
    return None


def r_uninhabited(P, L, s, d):
    if s.kind == "macro" and s.construct == "unreachable!":
        fn = s.body.name
        noerr = P.f.adts.get("errors::NoError")
        empty = noerr is not None and len(noerr["variants"]) == 0
        if fn == "<errors::NoError as std::fmt::Display>::fmt":
            return (empty, "self type errors::NoError has no variants: the function cannot be called")
        if fn == "<static_test::StaticDataRowIterator as std::iter::Iterator>::next":
            arm = [a for a in d["arms"] if a.get("enum", "").endswith("IterationError")]
            if arm and arm[0]["variants"] == ["Driver"]:
                # the driver error type of the wrapped iterator is NoError
                sd = None
                for it in P.f.items:
                    if it["kind"].startswith("Impl") and it.get("self_ty") == "static_test::Driver" and it.get("trait") == "TestDriver":
                        sd = it
                fld = [f for f in P.f.adts["static_test::StaticDataRowIterator"]["variants"][0]["fields"] if f["name"] == "it"]
                drv_ok = bool(fld) and "static_test::Driver" in fld[0]["ty"]
                wr = P.body("<static_test::Driver as TestDriver>::write_input_and_read_output")
                ety = wr is not None and "errors::NoError" in wr.local_ty(0)
                return (empty and drv_ok and ety, "IterationError::Driver carries static_test::Driver's error type NoError, which is uninhabited")
    return None


def r_try_static(P, L, s, d):
    if d["kind"] == "call" and d["construct"] == "Result::unwrap/expect" and s.body.name == "static_test::<impl TestCase>::try_iter_static":
        if not d["args"][0].startswith("DataRowIterator::try_new(self, Box::leak(Box::new(static_test::Driver{})))"):
            return (False, "expect() receiver is `%s`" % d["args"][0])
        g = guards_at(P, s.body, s.bb)
        empty = any(x[0] == "call" and x[1] == "Vec::is_empty" and x[2] == ("self.read_outputs",) and x[3] is True for x in g)
        # try_new fails only through the driver (uninhabited error) or build_output_indices, which fails only for a non-empty `missing`
        tn = P.body("data_row_iterator::DataRowIterator::try_new")
        errs = set()
        if tn is not None:
            for bb, t in tn.calls():
                nm = callee_name(t)[0]
                if nm.endswith("Try>::branch"):
                    errs.add(canon(P.sl(tn).call_args(bb)[0]).split("(")[0])
        only = errs <= {"TestDriver::write_input_and_read_output", "DataRowIteratorTestData::build_output_indices"}
        boi = P.body(TESTDATA + "::build_output_indices")
        miss = False
        if boi is not None:
            for (b, bb, i, st) in P.constructors("std::result::Result::Err", include_derived=False):
                if b is boi:
                    gg = guards_at(P, boi, bb)
                    miss = any(x[0] == "call" and x[1] == "Vec::is_empty" and x[3] is False and selection_of(x[2][0], "[T]::iter(read_outputs)") for x in gg)
        return (empty and only and miss and r_uninhabited_noerror(P), "guarded by read_outputs.is_empty(); try_new fails only via the driver (uninhabited error) or a non-empty selection (filter / filter_map / map) of read_outputs")
    return None


def r_uninhabited_noerror(P):
    noerr = P.f.adts.get("errors::NoError")
    return noerr is not None and len(noerr["variants"]) == 0


def r_framedmap(P, L, s, d):
    if s.body.name == "framed_map::FramedMap::set" and d["kind"] == "call" and d["construct"] == "IndexMut::index_mut":
        if d["args"] == ["self.values", "ops::RangeFrom{start: Option::unwrap_or([T]::last(self.frame_stack), 0)}"]:
            return (L.need("FRAMES"), "slice start is the innermost frame mark (or 0), and marks never exceed values.len(); lemma FRAMES")
        return (False, "slice is %s" % d["args"])
    return None


def r_refcell(P, L, s, d):
    if d["kind"] == "call" and d["construct"] == "RefCell::borrow":
        # a RefCell borrow panics only if another borrow of the same cell is live: all borrowers of `rng`
        # are known functions, and nothing callable while this function runs (call-graph closure, callbacks
        # into local trait impls included) touches `rng` again
        if not d["args"] or d["args"][0] != "self.rng":
            return (False, "borrow of `%s` (only EvalContext.rng is covered)" % (d["args"][0] if d["args"] else "?"))
        readers = set(x[0].name for x in P.field_readers("eval_context::EvalContext", "rng"))
        allowed = {"eval_context::EvalContext::with_seed", "eval_context::EvalContext::reset_random_seed", "eval_context::EvalContext::random"}
        if not readers <= allowed:
            return (False, "rng is touched in %s" % sorted(readers - allowed))
        cg = P.cg
        below = set()
        for c in cg.edges.get(s.body.name, ()):
            below |= cg.closure([c])
        again = sorted(below & (readers | {s.body.name}))
        nb = sum(1 for bb, t in s.body.calls() if callee_name(t)[0] in ("std::cell::RefCell::borrow_mut", "std::cell::RefCell::borrow"))
        return (not again and nb == 1, "rng is borrowed once in this function and nothing it calls can reach another borrow of rng" if not again and nb == 1 else "while rng is borrowed, %s may run (%d borrow calls in this function)" % (again, nb))
    return None


def r_gen_range(P, L, s, d):
    if d["kind"] == "call" and d["construct"] == "Rng::gen_range" and s.body.name == "eval_context::EvalContext::random":
        if d["args"][1] != "range":
            return (False, "range argument is `%s`" % d["args"][1])
        sites = P.callers(lambda n: n == "eval_context::EvalContext::random")
        good = bool(sites)
        why = []
        for b, bb, nm in sites:
            a = [canon(x) for x in P.call_arg_terms(b, bb)]
            m = re.fullmatch(r"ops::Range\{start: (-?\d+), end: (.*)\}", a[1])
            g = guards_at(P, b, bb)
            if not m:
                good = False
                why.append("%s passes %s" % (b.name, a[1]))
                continue
            start, end = int(m.group(1)), m.group(2)
            # `end > k` with k >= start, or (integers) `end >= k` with k > start: `max > 1`, `!(max <= 1)`, `!(max < 2)` alike
            if not any(x[1] == end and re.fullmatch(r"-?\d+", str(x[2])) and ((x[0] == "Gt" and int(x[2]) >= start) or (x[0] == "Ge" and int(x[2]) > start)) for x in g):
                good = False
                why.append("%s: no dominating `%s > %d` test" % (b.name, end, start))
        return (good, "every caller passes start..end under a dominating end > start test" if good else "; ".join(why))
    return None


def r_getrandom(P, L, s, d):
    if d["kind"] == "call" and d["construct"] == "Result::unwrap/expect" and s.body.name == "eval_context::EvalContext::new" and d["args"][0].startswith("getrandom::getrandom("):
        return (True, "ENVIRONMENT ASSUMPTION (allow-listed): the OS entropy source does not fail")
    return None


def r_binoptree_dummy(P, L, s, d):
    if s.kind == "macro" and s.construct == "unreachable!" and "From<parser::binoptree::BinOpTree> for expr::Expr>::from" in s.body.name:
        arm = [a for a in d["arms"] if a.get("enum", "").endswith("BinOpTree")]
        if not arm or arm[0]["variants"] != ["Dummy"]:
            return (False, "unreachable!() arm covers %s" % (arm[0]["variants"] if arm else "?"))
        cons = P.constructors("parser::binoptree::BinOpTree::Dummy")
        fns = sorted(set(b.name for b, _, _, _ in cons))
        if fns != ["parser::binoptree::BinOpTree::add"]:
            return (False, "BinOpTree::Dummy is constructed in %s" % fns)
        add = P.body("parser::binoptree::BinOpTree::add")
        # after mem::replace(self, Dummy) every path to return re-assigns *self, and no crate-local call in between
        cfg = P.cfg(add)
        good = True
        why = ""
        for bb, t in add.calls():
            if callee_name(t)[0] == "std::mem::replace":
                a = [canon(x) for x in P.sl(add).call_args(bb)]
                if a[0] != "self" or "Dummy" not in a[1]:
                    continue
                # blocks assigning (*self) = ...
                assigns = set()
                for x in add.reachable_blocks():
                    for st in add.blocks[x]["stmts"]:
                        if st["s"] == "assign" and st["lhs"]["l"] == 1 and st["lhs"]["p"] == ["*"]:
                            assigns.add(x)
                rets = set(cfg.return_blocks())
                if cfg.can_reach(t["target"], rets, avoid=frozenset(assigns)):
                    good, why = False, "a path from mem::replace(self, Dummy) reaches return without re-assigning *self"
                between = cfg.reach_from(t["target"], avoid=frozenset(assigns))
                for x in between:
                    tt = add.term(x)
                    if tt["t"] == "call" and callee_name(tt)[0] in P.f.bodies:
                        good, why = False, "crate-local call %s while *self is Dummy" % callee_name(tt)[0]
        return (good, why or "Dummy is built only inside add(), which re-assigns *self on every path before returning, with only Box::new in between")
    return None


def r_text_span(P, L, s, d):
    if s.body.name == "parser::Parser::text" and d["kind"] == "call" and d["construct"] == "str::index":
        if d["args"] != ["self.input", "Clone::clone(token.span)"]:
            return (False, "slices %s" % d["args"])
        return (L.need("TOKSPAN"), "token spans are lexer spans of the same source string; lemma TOKSPAN")
    return None


def r_lex_prefix(P, L, s, d):
    if s.body.name.endswith("parse_number") and d["kind"] == "call" and d["construct"] == "str::index":
        m = re.fullmatch(r"ops::RangeFrom\{start: (\d+)\}", d["args"][1])
        if not m or d["args"][0] != "Parser::text(self, try(Parser::get(self)))":
            return (False, "slices %s" % d["args"])
        n = int(m.group(1))
        arms = [a for a in pan.arm_context(s.body, s.bb, P.cfg(s.body)) if a.get("enum", "").endswith("TokenKind")]
        kinds = arms[0]["variants"] if arms else []
        subj = canon(arms[0]["on"]) if arms else ""
        if subj != "try(Parser::get(self)).kind":
            return (False, "arm is on `%s`, not the kind of the consumed token" % subj)
        from ..core import lexspec
        spec = lexspec.load(P.f, "lexer::token::TokenKind")
        bad = [k for k in kinds if not spec.min_ascii_prefix(k, n)]
        return (not bad and bool(kinds), "every match of %s starts with %d ASCII characters (LEX)" % (kinds, n) if not bad else "token kinds %s may be shorter than %d bytes or start with non-ASCII" % (bad, n))
    return None


def r_header_lex(P, L, s, d):
    if s.body.name == "parser::HeaderParser::parse" and s.kind == "macro" and s.construct == "unreachable!":
        from ..core import lexspec
        spec = lexspec.load(P.f, "lexer::token::HeaderTokenKind")
        arms = d["arms"]
        kinds = [a for a in arms if a.get("enum", "").endswith("HeaderTokenKind")]
        res = [a for a in arms if a.get("enum", "").endswith("Result")]
        if kinds:
            vs = kinds[0]["variants"]
            bad = [v for v in vs if not spec.is_skipped(v)]
            return (not bad, "%s carry logos::skip and are never yielded" % vs if not bad else "token kinds %s are yielded by the lexer" % bad)
        if res and res[0]["variants"] == ["Err"]:
            u = spec.uncovered()
            if u is not None and not u.ivs:
                return (True, "for every code point some header pattern matches that single character, so the header lexer cannot produce an error")
            return (False, "the header lexer yields an error for %s: no header pattern matches those characters" % ("an unsupported pattern" if u is None else "code points %r" % u))
    return None


def _text_pos_sites():
    out = {}
    # with overflow checks (`SubWithOverflow(a, b).0`) and without (`Sub(a, b)`): the same computation in both build configurations
    for sub, add in ((lambda a, b: "SubWithOverflow(%s, %s).0" % (a, b), lambda a, b: "AddWithOverflow(%s, %s).0" % (a, b)),
                     (lambda a, b: "Sub(%s, %s)" % (a, b), lambda a, b: "Add(%s, %s)" % (a, b))):
        take = "Iterator::take(str::lines(input), %s)" % sub("(pos.row as usize)", "1")
        summ = "Iterator::sum(Iterator::map(%s, closure({closure#0})))" % take
        out.update({
            # (function suffix, construct, a / args[0], b): why it cannot trip under the library assumption
            ("", "Overflow(Sub)", "(pos.row as usize)", "1"): "row >= 1",
            ("::{closure#0}", "Overflow(Add)", "str::len(elem(%s))" % take, "1"): "a line of the text plus its line break is no longer than the text",
            ("", "Iterator::sum", "Iterator::map(%s, closure({closure#0}))" % take, None): "the first row-1 lines with their line breaks are a prefix of the text",
            ("", "Overflow(Add)", summ, "(pos.col as usize)"): "prefix length + column <= 2 * len(text)",
            ("", "Overflow(Sub)", add(summ, "(pos.col as usize)"), "1"): "column >= 1",
        })
    return out


TEXT_POS_SITES = _text_pos_sites()


def r_text_pos(P, L, s, d):
    """XML error position -> byte offset.  The arithmetic must be exactly the confirmed one (widening casts of the library's
    1-based u32 row / column, lines of the very text that was parsed); then it cannot trip under the library assumption."""
    if s.body.name.startswith("dig::text_pos_to_range"):
        suffix = s.body.name[len("dig::text_pos_to_range"):]
        a = d.get("a") if d["kind"] == "assert" else (d.get("args") or [None])[0]
        why = TEXT_POS_SITES.get((suffix, d["construct"], a, d.get("b") if d["kind"] == "assert" else None))
        if why is None:
            return (False, "the offset arithmetic `%s` / `%s` is not the confirmed computation over the library's 1-based row and column" % (a, d.get("b")))
        calls = [(b.name, [canon(x) for x in P.call_arg_terms(b, bb)]) for b, bb, nm in P.callers(lambda n: n == "dig::text_pos_to_range")]
        if calls != [("dig::File::parse::{closure#0}", ["input", "Error::pos(elem(Document::parse(input)))"])]:
            return (False, "text_pos_to_range is called as %s, not with the parsed text and the position of its own parse error" % calls)
        return (True, "%s — LIBRARY ASSUMPTION: roxmltree text positions are 1-based and lie within the parsed text" % why)
    return None


def r_loop_counter(P, L, s, d):
    if s.body.name == "stmt::StmtIterator::next_with_context" and d["kind"] == "call" and d["construct"] == "Option::unwrap/expect":
        a = d["args"][0]
        if re.fullmatch(r"EvalContext::get\(ctx, \(self\.inner_state as \w+\)\.0\.variable\)", a) or re.fullmatch(r"OutputValue::value\(Option::unwrap\(EvalContext::get\(ctx, \(self\.inner_state as \w+\)\.0\.variable\)\)\)", a):
            return (L.need("COUNTER"), "the loop counter is bound in the loop's own frame while the loop is active, and variables shadow outputs; lemma COUNTER")
    return None


def r_kind_conversion(P, L, s, d):
    if s.kind == "macro" and s.construct == "unreachable!" and "From<lexer::token::TokenKind> for expr::" in s.body.name:
        return (L.need("KINDCONV:" + s.body.name), "every call site passes a token kind in the mapped set; lemma KINDCONV (token-kind typestate)")
    return None


def r_token_api(P, L, s, d):
    if s.body.name in ("parser::Parser::peek", "parser::Parser::peek_span", "parser::Parser::skip") and d["kind"] == "call" and d["construct"] in ("Option::unwrap/expect", "Result::unwrap/expect"):
        return (L.need("TKA"), "no token access after the Eof token was consumed; lemma TKA (token-kind typestate)")
    return None


def r_driver(P, L, s, d):
    if s.kind == "unknown-ext" and s.construct.startswith("TestDriver::"):
        return (True, "call into the user's driver through the generic parameter: outside the quantifier (contract-honouring driver)")
    return None


def r_min_index(P, L, s, d):
    """a[x.min(K)] on a fixed-size array of length N > K."""
    if d["kind"] == "assert" and d["construct"] == "BoundsCheck" and re.fullmatch(r"\d+", d.get("len", "")):
        m = re.fullmatch(r"(?:Ord::min|cmp::min|usize::min)\((.*), (\d+)\)", d.get("index", ""))
        if m and int(m.group(2)) < int(d["len"]):
            return (True, "index is min(_, %s) and the array has %s elements" % (m.group(2), d["len"]))
    return None


def r_nonzero_divisor(P, L, s, d):
    """x.wrapping_div(y) / wrapping_rem / ..: panics only for y == 0; discharged by a dominating y != 0 on the same term."""
    if d["kind"] == "call" and d["construct"] == "integer division" and len(d.get("args", [])) == 2:
        y = d["args"][1]
        g = guards_at(P, s.body, s.bb)
        for x in g:
            if x[0] == "Ne" and ((x[1] == y and x[2] == "0") or (x[2] == y and x[1] == "0")):
                return (True, "dominated by %s != 0" % y)
        return (False, "the divisor `%s` is not tested against zero on every path to the division" % y)
    return None


RULES = [r_nonzero_divisor, r_min_index, r_driver, r_sigidx, r_rowwidth, r_outidx, r_fold, r_default_unwrap, r_generator_unreachable, r_stk, r_guard_lt, r_position_same,
         r_position_unwrap, r_func, r_bits_shift, r_step, r_unit_counter, r_capacity, r_drain_full, r_sort, r_radix, r_uninhabited,
         r_try_static, r_framedmap, r_refcell, r_gen_range, r_getrandom, r_binoptree_dummy, r_text_span, r_lex_prefix,
         r_header_lex, r_text_pos, r_loop_counter, r_kind_conversion, r_token_api]


def discharge_all(P, chk, L, sites, prop_filter=None):
    """Try every rule on every site; record obligations; return list of (site, ok, reason)."""
    out = []
    for s in sites:
        d = site_data(P, s)
        res = None
        for r in RULES:
            try:
                res = r(P, L, s, d)
            except Exception as e:  # a rule that crashes does not discharge
                res = (False, "rule %s failed on this site: %r" % (r.__name__, e))
            if res is not None:
                res = (bool(res[0]), res[1], r.__name__)
                break
        if res is None:
            res = (False, "no discharge rule applies to this panic-capable construct", "-")
        out.append((s, res[0], res[1], res[2], d))
    return out
