"""C07 — values from the program are reduced to the width of the signal they drive."""
import re
from ..core import pan, terms, tab, ordrules, fold
from ..core.facts import callee_name
from ..core.prog import canon, Prog
from . import panrules, c11
from .iter_rules import *


class TermPanic(Exception):
    pass


def eval_term(P, t, bits_canon, bits, mode):
    """Evaluate an integer term whose only free leaf is `<signal>.bits` (canon == bits_canon)."""
    t = terms.strip(t)
    if canon(t) == bits_canon:
        return bits, "usize"
    tag = t[0]
    if tag == "const" and t[1] == "int":
        return t[2], t[3]
    if tag == "cast":
        v, ty = eval_term(P, t[2], bits_canon, bits, mode)
        if isinstance(v, bool):
            v = int(v)
        return fold.wrap(v, t[3]), t[3]
    if tag == "field" and t[2] == "0":
        inner = terms.strip(t[1])
        if inner[0] == "bin" and inner[1].endswith("WithOverflow"):
            a, ta = eval_term(P, inner[2], bits_canon, bits, mode)
            b, tb = eval_term(P, inner[3], bits_canon, bits, mode)
            full = {"A": a + b, "S": a - b, "M": a * b}[inner[1][0]]
            if not fold.in_range(full, ta) and mode == "checked":
                raise TermPanic("Overflow(%s)" % inner[1][:3])
            return fold.wrap(full, ta), ta
    if tag == "bin":
        a, ta = eval_term(P, t[2], bits_canon, bits, mode)
        b, tb = eval_term(P, t[3], bits_canon, bits, mode)
        op = t[1]
        if op in ("Shl", "Shr"):
            signed, w = fold.int_ty(ta)
            if b >= w and mode == "checked":
                raise TermPanic("Overflow(%s)" % op)
            sh = b & (w - 1)
            return (fold.wrap(a << sh, ta) if op == "Shl" else fold.wrap(a >> sh, ta)), ta
        if op in ("Add", "Sub", "Mul"):
            return fold.wrap({"A": a + b, "S": a - b, "M": a * b}[op[0]], ta), ta
        if op in ("BitAnd", "BitOr", "BitXor"):
            return fold.wrap({"BitAnd": a & b, "BitOr": a | b, "BitXor": a ^ b}[op], ta), ta
    if tag == "call":
        b = P.body(t[1])
        if b is not None and len(t[2]) == 1:
            v, ty = eval_term(P, t[2][0], bits_canon, bits, mode)
            f = fold.Folder(P, mode)
            try:
                return f.run(b, [v]), b.local_ty(0)
            except fold.Panic as p:
                raise TermPanic(p.kind)
        m = re.search(r"<impl (i|u)(8|16|32|64|128|size)>::(\w+)$", t[1])
        if m:
            args = [eval_term(P, a, bits_canon, bits, mode)[0] for a in t[2]]
            f = fold.Folder(P, mode)
            return f.intrinsic(t[1], None, args, None), m.group(1) + m.group(2)
    raise fold.Unsupported("term %s" % canon(t)[:120])


def mask_rules(chk, P, which_list=("input", "expected"), only_widths=None):
    """WHO / ORG / FOLD rules of the masking (shared with C14, which needs the expected path at width 64)."""
    cases = 0
    sites = 0
    covered = {}
    for which, fn, adt in (("input", TD + "generate_input_entries", "value::InputValue::Value"), ("expected", TD + "generate_expected_entries", "value::ExpectedValue::Value")):
        if which not in which_list:
            continue
        cl = P.body(fn + "::{closure#0}")
        if not chk.anchor(fn + " closure", cl):
            continue
        cons = [c for c in P.constructors(adt) if c[0] is cl]
        chk.require(len(cons) >= 1, "WHO", "WHO:%s:Value-constructors" % which, "%d site(s)" % len(cons), "no site builds %s in %s" % (adt, fn))
        # the built entry's signal, on the Number path
        E = "elem([T]::iter(self.%s_indices))" % which
        for pi in tab.paths(P, cl, to_return_only=True):
            ev = [d[2] for d in pi.decisions() if d[0] == "variant" and d[1].startswith("stmt_entries[")]
            if not ev or ev[0] != ("Number",):
                continue
            sites += 1
            r = terms.strip(pi.ret())
            f = dict(r[3])
            sig = canon(f["signal"])
            v = terms.strip(f["value"])
            key = "ORG:%s:mask" % which
            site = "%s:%d" % (cl.file, cl.line)
            if not (v[0] == "agg" and v[2].endswith("::Value")):
                chk.fail("ORG", key, "Number entry does not become a Value: %s" % canon(v), site)
                continue
            x = terms.strip(v[3][0][1])
            ops = None
            if x[0] == "call" and x[1].endswith("::bitand") and len(x[2]) == 2:
                ops = [terms.strip(x[2][0]), terms.strip(x[2][1])]
            elif x[0] == "bin" and x[1] == "BitAnd":
                ops = [terms.strip(x[2]), terms.strip(x[3])]
            if ops is None:
                chk.fail("ORG", key, "the %s value built from a Number entry is `%s`, not `payload & mask`" % (which, canon(x)[:200]), site)
                continue
            payload = "(stmt_entries[(%s as Entry).entry_index] as Number).0" % E
            cs = [canon(o) for o in ops]
            if payload not in cs:
                chk.fail("ORG", key, "neither operand of the mask is the entry's own payload: %s" % cs, site)
                continue
            m = ops[1 - cs.index(payload)]
            bits_canon = sig + ".bits"
            leaves = [canon(y) for y in terms.walk(m) if y[0] == "field" and y[2] == "bits"]
            chk.require(all(l == bits_canon for l in leaves) and (bool(leaves) or bool([1 for f_ in pi.cmp_facts() if f_[1] == bits_canon])), "ORG", "ORG:%s:mask-uses-the-entry's-own-signal-width" % which, "mask is a function of %s" % bits_canon, "the mask reads the width of %s but the entry is bound to %s" % (sorted(set(leaves)), sig), site)
            others = [canon(y) for y in terms.walk(m) if y[0] in ("arg", "elem", "index") and bits_canon not in canon(y) and canon(y) not in bits_canon]
            bad = []
            # widths for which this path is taken (inline guards such as `if bits < 64`)
            conds = [(f_[0], int(f_[2])) for f_ in pi.cmp_facts() if f_[0] in ("Lt", "Le", "Gt", "Ge", "Eq", "Ne") and f_[1] == bits_canon and re.fullmatch(r"-?\d+", f_[2])]
            CMP = {"Lt": lambda a, b: a < b, "Le": lambda a, b: a <= b, "Gt": lambda a, b: a > b, "Ge": lambda a, b: a >= b, "Eq": lambda a, b: a == b, "Ne": lambda a, b: a != b}
            widths = [w for w in range(1, 65) if all(CMP[o](w, c) for o, c in conds)]
            covered.setdefault(which, set()).update(widths)
            if only_widths is not None:
                widths = [w for w in widths if w in only_widths]
            for mode in ("checked", "unchecked"):
                for bits in widths:
                    cases += 1
                    try:
                        val, ty = eval_term(P, m, bits_canon, bits, mode)
                        want = fold.wrap((1 << bits) - 1, "i64")
                        if fold.wrap(val, "i64") != want:
                            bad.append((mode, bits, "mask = %#x, expected %#x" % (val & (2**64 - 1), want & (2**64 - 1))))
                    except TermPanic as e:
                        bad.append((mode, bits, "panics: %s" % e))
                    except fold.Unsupported as e:
                        bad.append((mode, bits, "unrecognised mask computation: %s" % e))
                        break
            chk.require(not bad, "FOLD", "FOLD:%s:mask-exact-for-1..=64" % which, "m == 2^bits - 1 for bits 1..=64 in both overflow modes (128 cases)", "mask `%s` is wrong for %s" % (canon(m)[:160], bad[:4]), site)
        # Z / X pass through
        rows = {}
        for pi in tab.paths(P, cl, to_return_only=True):
            ev = [d[2] for d in pi.decisions() if d[0] == "variant" and d[1].startswith("stmt_entries[")]
            if ev and ev[0] in (("Z",), ("X",)):
                r = terms.strip(pi.ret())
                rows[ev[0][0]] = canon(dict(r[3])["value"])
        want = {"Z": "InputValue::Z{}"} if which == "input" else {"Z": "ExpectedValue::Z{}", "X": "ExpectedValue::X{}"}
        chk.require(rows == want, "TAB", "TAB:%s:Z-X-pass-through" % which, str(rows), "%s path maps Z/X as %s" % (which, rows))
    for which in which_list:
        miss = sorted(set(range(1, 65)) - covered.get(which, set()))
        chk.require(not miss, "FOLD", "FOLD:%s:every-width-covered" % which, "the Number paths cover all widths 1..=64", "no Number path of the %s generator handles widths %s" % (which, miss[:8]))
    chk.floor("FOLD", "mask sites", sites, len(which_list))
    chk.extra["folded_cases"] = cases
    chk.floor("FOLD", "folded (site x width x mode) cases", cases, 2 * len(which_list) * (64 if only_widths is None else len(only_widths)))


def expected_x_passes_through(chk, P):
    """"`X` passes through unchanged" on the expected path has a second necessary condition beside the generators' table:
    the row expansion must not rewrite an expected-only `X` into 0/1 before the generators see it.  expand_x selects an
    entry iff it is X *and* its column is an input column, and entry_is_input is exactly input_indices.any(indexes(i))
    (C05's conditions, carried here: a column test that aliases columns — a bit set indexed modulo 64 — breaks C07's clause too)."""
    from ..core import tab as _tab
    TD = "data_row_iterator::DataRowIteratorTestData::"
    fb = P.body(TD + "expand_x")
    n = 0
    for c in (P.f.closures_of(TD + "expand_x") if fb is not None else []):
        good, got = panrules.selector_ok(P, c, "X")
        n += 1
        chk.require(good, "GUARD", "GUARD:expand_x:only-input-X-is-expanded", "Some(i) iff entry == X && entry_is_input(i): an expected-only X reaches the generator as X", "expand_x selects entries by %s" % (got,))
    chk.floor("GUARD", "expand_x selector", n, 1)
    eii = P.body(TD + "entry_is_input")
    if chk.anchor("entry_is_input", eii):
        r = set(canon(P.sl(eii).ret(rb)) for rb in P.cfg(eii).return_blocks())
        cl = P.f.closures_of(eii.name)
        pt = _tab.predicate_table(P, cl[0]) if cl else set()
        good = r == {"Iterator::any([T]::iter(self.input_indices), closure({closure#0}))"} and pt == {(frozenset(), "EntryIndex::indexes(elem([T]::iter(self.input_indices)), entry_index)")}
        chk.require(good, "TAB", "TAB:entry_is_input:exact-column-test", "input_indices.any(|e| e.indexes(i)) — no aliasing of columns", "entry_is_input is %s with %s" % (sorted(r), sorted(pt, key=str)))


def run(chk, ctx):
    P = Prog(ctx["facts"])
    from .iter_rules import plumbing_rule
    plumbing_rule(chk, P, {"TestCase": ("signals", "input_indices", "expected_indices"), "DataRowIteratorTestData": ("signals", "input_indices", "expected_indices")})   # what the parser / the binding produced is what runs
    popped_row_untouched_rule(chk, P)
    chk.explanation = ("C07 is decided exactly, because its width dimension is finite (1..=64) and the value enters through one BitAnd: WHO (every site in the row generators that builds InputValue::Value / ExpectedValue::Value from an entry), "
                       "ORG (the built value is payload & m in either operand order, and the width feeding m is the `bits` of the very signal stored in the entry), FOLD (the backward slice of m — a helper function or an inline term — is folded for every bits in 1..=64 "
                       "under both overflow-check modes: no Assert fails and m == 2^bits - 1 as a 64-bit pattern, i.e. -1 for 64; since n & (2^b - 1) is reduction modulo 2^b in two's complement this decides the numeric clause for every 64-bit n), "
                       "TAB (Z and X pass through), const (virtual signals are built with bits: 64).")
    chk.trusted = ["rustc MIR; two's-complement identity n & (2^b - 1) == n mod 2^b"]
    mask_rules(chk, P)
    expected_x_passes_through(chk, P)
    # virtual signals are 64 bits wide
    ws = P.body(c11.WS)
    if ws is not None:
        for cl in P.f.closures_of(ws.name):
            for (cb, bb, i, st) in P.constructors("Signal"):
                if cb is cl:
                    f = {k: canon(v) for k, v in P.sl(cb).rvalue(st["rv"], bb, i)[3]}
                    chk.require(f.get("bits") == "64" and f.get("typ", "").startswith("SignalType::Virtual"), "ORG", "ORG:virtual-signals-are-64-bit", "Signal{bits: 64, typ: Virtual}", "virtual signal literal has bits=%s typ=%s" % (f.get("bits"), f.get("typ", "")[:40]))
    chk.sample({"widths": "1..=64", "modes": ["checked", "unchecked"], "cases": chk.extra.get("folded_cases")})
