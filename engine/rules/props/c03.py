"""C03 — outputs are attributed to the right signal; verdicts follow the X/Z rules."""
import re
from ..core import pan, terms, tab, ordrules
from ..core.facts import callee_name
from ..core.prog import canon, alloc_site, Prog
from . import panrules
from .iter_rules import *

VARS = ("Value", "Z", "X")
REFERENCE = {("X", "Value"): "1", ("X", "Z"): "1", ("X", "X"): "1",
             ("Z", "Z"): "1", ("Z", "Value"): "0", ("Z", "X"): "0",
             ("Value", "Value"): "n==m", ("Value", "Z"): "0", ("Value", "X"): "0"}


def verdict_cells(P, b):
    """Expand the predicate table of ExpectedValue::check into the 9 cells."""
    cells = {}
    for fs, sh in tab.predicate_table(P, b):
        sv = ov = None
        cmp_ = None
        for f, t in fs:
            if f == "variant(self)":
                sv = t
            elif f.startswith("variant(") and "other" in f:
                ov = t
            else:
                m = re.fullmatch(r"(Eq|Ne)\((.*), (.*)\)", f)
                if m:
                    ops = sorted([m.group(2), m.group(3)])
                    if ops == ["(Into::into(other) as Value).0", "(self as Value).0"] or ops == ["(other as Value).0", "(self as Value).0"]:
                        cmp_ = m.group(1)
                    else:
                        cmp_ = "?" + f
        for s_ in (sv or VARS):
            for o_ in (ov or VARS):
                if cmp_ is None:
                    cells.setdefault((s_, o_), set()).add(sh)
                else:
                    cells.setdefault((s_, o_), set()).add("%s=>%s" % (cmp_, sh))
    out = {}
    for k, v in cells.items():
        if v == {"Eq=>1", "Ne=>0"}:
            out[k] = "n==m"
        elif len(v) == 1:
            out[k] = list(v)[0]
        else:
            out[k] = "|".join(sorted(v))
    return out


def run(chk, ctx):
    P = Prog(ctx["facts"])
    from .iter_rules import plumbing_rule
    plumbing_rule(chk, P, {"TestCase": ("signals", "expected_indices"), "DataRowIteratorTestData": ("signals", "expected_indices")})   # what the parser / the binding produced is what runs
    from . import eqrules
    eqrules.require(chk, P, ["Signal"], "`output.signal == signal` identifies the signal (name, width and direction all equal)")
    eqrules.require(chk, P, ["value::ExpectedValue"], "`expected != ExpectedValue::X` means the entry is checked")
    chk.explanation = ("C03 decided as tables and alignment rules on all paths: TAB (the 3x3 verdict table of ExpectedValue::check with leaf n==m for Value x Value, compared with the reference written from the property; "
                       "OutputResultEntry::check, OutputValue::check, is_checked, failing_outputs as terms), GUARD+ORG (the value reported for an entry is outputs[i].value of this call's answer on the edge where the entry's own signal equals outputs[i].signal, "
                       "with i the position learnt for that signal; never-supplied => X), alignment (expected entries, output indices and extracted values are produced by forward map/zip/collect pipelines over the same expected_indices, one push per element).")
    chk.trusted = ["rustc MIR and callee resolution", "std: slice::Iter is forward, position returns the first match, zip pairs in order"]
    b = P.body("value::ExpectedValue::check")
    if chk.anchor("ExpectedValue::check", b):
        cells = verdict_cells(P, b)
        chk.require(cells == REFERENCE, "TAB", "TAB:ExpectedValue::check:verdict-table", "9 cells match the reference: %s" % {"%s/%s" % k: v for k, v in sorted(cells.items())}, "verdict table differs from the reference in %s" % {"%s/%s" % k: (cells.get(k), REFERENCE.get(k)) for k in set(cells) | set(REFERENCE) if cells.get(k) != REFERENCE.get(k)}, "%s:%d" % (b.file, b.line))
        chk.floor("TAB", "verdict cells", len(cells), 9)
        chk.sample({"verdict_table": {"%s x %s" % k: v for k, v in sorted(cells.items())}})
    for fn, want in (("OutputResultEntry::check", {"ExpectedValue::check(self.expected, self.output)"}),
                     ("value::OutputValue::check", {"ExpectedValue::check(other, self)"}),
                     ("OutputResultEntry::is_checked", {"PartialEq::ne(self.expected, ExpectedValue::X{})"}),
                     ("DataRow::failing_outputs", {"Iterator::filter([T]::iter(self.outputs), closure({closure#0}))"})):
        fb = P.body(fn)
        if chk.anchor(fn, fb):
            r = set(canon(P.resolve(fb, P.sl(fb).ret(rb))) for rb in P.cfg(fb).return_blocks())
            chk.require(r == want, "TAB", "TAB:%s" % fn, str(r), "%s is %s, expected %s" % (fn, r, want), "%s:%d" % (fb.file, fb.line))
    fo = P.body("DataRow::failing_outputs::{closure#0}")
    if chk.anchor("failing_outputs filter", fo):
        pt = tab.predicate_table(P, fo)
        chk.require(pt == {(frozenset(), "Not(OutputResultEntry::check(elem([T]::iter(self.outputs))))")}, "TAB", "TAB:failing_outputs:filter-is-not-check", "|res| !res.check()", "failing_outputs filters by %s" % sorted(pt, key=str))
    # layout learnt once
    boi = P.body(TD + "build_output_indices")
    if chk.anchor("build_output_indices", boi):
        kinds = {}
        for (cb, bb, i, st) in P.constructors("data_row_iterator::OutputEntryIndex"):
            if cb is not boi:
                continue
            v = st["rv"]["variant"]
            arms = pan.arm_context(boi, bb, P.cfg(boi))
            conds = []
            for a in arms:
                if a.get("enum", "").endswith("SignalType"):
                    conds.append(("typ", tuple(a["variants"])))
                elif a.get("enum", "").endswith("Option") and "position" in canon(a["on"]):
                    conds.append(("position", tuple(a["variants"])))
            kinds[v] = tuple(sorted(conds))
        want = {"Virtual": (("typ", ("Virtual",)),), "Output": (("position", ("Some",)), ("typ", ("Input", "Output", "Bidirectional"))), "None": (("position", ("None",)), ("typ", ("Input", "Output", "Bidirectional")))}
        chk.require(kinds == want, "TAB", "TAB:build_output_indices:three-way", "Virtual => Virtual; position Some(n) => Output(n); else None", "build_output_indices decides %s" % kinds)
        # exact decision table of one loop iteration: every decision taken between fetching the expected
        # index and pushing the entry, and the entry pushed
        # the layout vector is the one that is stored into self.output_indices (identified by its allocation site, not by how it is pre-sized)
        out_sites = set()
        for bb_ in sorted(boi.reachable_blocks()):
            for i_, st_ in enumerate(boi.blocks[bb_]["stmts"]):
                if st_["s"] == "assign" and any(isinstance(e, dict) and e.get("f") == "output_indices" for e in st_["lhs"]["p"]):
                    out_sites.add(alloc_site(P.resolve(boi, P.sl(boi).rvalue(st_["rv"], bb_, i_))))
        is_out = lambda bb_: len(out_sites) == 1 and None not in out_sites and alloc_site(P.call_arg_terms(boi, bb_)[0]) in out_sites
        pushb = [bb for bb, t in boi.calls() if callee_name(t)[0] == "std::vec::Vec::push" and is_out(bb)]
        nextb = [bb for bb, t in boi.calls() if callee_name(t)[0] == "<std::slice::Iter<T> as std::iter::Iterator>::next"]
        if chk.anchor("output_indices loop", len(pushb) == 1 and len(nextb) == 1):
            rows = set()
            for pi in tab.paths(P, boi, start=nextb[0], stop=lambda x: x == pushb[0]):
                if pi.path[-1] != pushb[0]:
                    continue
                facts_ = []
                for d in pi.decisions():
                    if d[0] == "variant":
                        subj = "typ" if d[1].endswith(".typ") else "position" if d[1].startswith("Iterator::position(") else "next" if d[1].startswith("Iterator::next(") else d[1]
                        if subj != "next":
                            facts_.append((subj, d[2]))
                    elif d[0] == "bool":
                        facts_.append(("bool:" + d[1][:80], d[2]))
                    else:
                        facts_.append((d[0] + ":" + d[1][:80], d[2]))
                entry = terms.strip(pi.term(boi.term(pushb[0])["args"][1], pushb[0]))
                ev = entry[2].split("::")[-1] if entry[0] == "agg" else canon(entry)[:60]
                rows.add((tuple(sorted(set(facts_), key=str)), ev))
            NV = ("Input", "Output", "Bidirectional")
            want_rows = {((("typ", ("Virtual",)),), "Virtual"), ((("position", ("Some",)), ("typ", NV)), "Output"), ((("position", ("None",)), ("typ", NV)), "None")}
            chk.require(rows == want_rows, "TAB", "TAB:build_output_indices:exact-three-way", "exactly: Virtual => Virtual; else position Some(n) => Output(n); else None — no other condition", "one iteration of the layout loop decides %s" % sorted(rows, key=str))
        pos = [[canon(x) for x in P.call_arg_terms(boi, bb)] for bb, t in boi.calls() if callee_name(t)[0] == "<std::slice::Iter<T> as std::iter::Iterator>::position"]
        chk.require(pos == [["[T]::iter(outputs)", "closure({closure#0})"]], "ORG", "ORG:build_output_indices:position-in-first-answer", "outputs.iter().position(..)", "position searched in %s" % pos)
        cl = P.body(boi.name + "::{closure#0}")
        if chk.anchor("position closure", cl):
            pt = tab.predicate_table(P, cl)
            want = {(frozenset(), "PartialEq<&B> for &A>::eq(elem([T]::iter(outputs)).signal, self.signals[EntryIndex::signal_index(some!(Iterator::next([T]::iter(self.expected_indices))))])")}
            chk.require(pt == want, "ORG", "ORG:build_output_indices:compares-with-current-signal", "|o| o.signal == signal of the current expected index", "position closure is %s" % sorted(pt, key=str))
        # one push per element, in order
        pushes = [(bb, [canon(x) for x in P.call_arg_terms(boi, bb)]) for bb, t in boi.calls() if callee_name(t)[0] == "std::vec::Vec::push" and is_out(bb)]
        cyc = P.cfg(boi).cyclic_blocks()
        chk.require(len(pushes) == 1 and pushes[0][0] in cyc, "CNT", "CNT:build_output_indices:one-push-per-expected-index", "output_indices.push(entry) once per loop iteration", "%d push site(s) into output_indices (in loop: %s)" % (len(pushes), [p[0] in cyc for p in pushes]))
        # on every path through one loop iteration the push happens exactly once
        # what the loop draws its elements from (`for x in v.iter()` / `for x in v` over a slice / `while let Some(x) = it.next()`)
        its = [[canon(P.call_arg_terms(boi, bb)[0])] for bb, t in boi.calls() if callee_name(t)[0] == "<std::slice::Iter<T> as std::iter::Iterator>::next"]
        chk.require(its == [["[T]::iter(self.expected_indices)"]], "ORG", "ORG:build_output_indices:iterates-expected-indices-forward", "for expected_index in self.expected_indices.iter()", "build_output_indices iterates %s" % its)
        stored = set()
        for bb in sorted(boi.reachable_blocks()):
            for i, st in enumerate(boi.blocks[bb]["stmts"]):
                if st["s"] == "assign" and any(isinstance(e, dict) and e.get("f") == "output_indices" for e in st["lhs"]["p"]):
                    stored.add(canon(P.sl(boi).rvalue(st["rv"], bb, i)))
        chk.require(stored == {"Vec::new()"} and len(out_sites) == 1 and None not in out_sites, "ORG", "ORG:build_output_indices:stores-the-built-vector", "self.output_indices = output_indices", "self.output_indices = %s" % stored)
    # alignment of the three pipelines
    ge = P.body(TD + "generate_expected_entries")
    if chk.anchor("generate_expected_entries", ge):
        r = set(canon(P.sl(ge).ret(rb)) for rb in P.cfg(ge).return_blocks())
        chk.require(r == {"Iterator::collect(Iterator::map([T]::iter(self.expected_indices), closure({closure#0})))"}, "ORG", "ORG:alignment:expected-pipeline", "expected_indices.iter().map(..).collect()", "generate_expected_entries returns %s" % r)
    ex = P.body(TD + "extract_output_values")
    if chk.anchor("extract_output_values", ex):
        col = [[canon(x) for x in P.call_arg_terms(ex, bb)] for bb, t in ex.calls() if callee_name(t)[0] == "std::iter::Iterator::collect"]
        chk.require(col == [["Iterator::map(Iterator::zip([T]::iter(self.expected_indices), self.output_indices), closure({closure#0}))"]], "ORG", "ORG:alignment:extraction-pipeline", "expected_indices.iter().zip(&output_indices).map(..).collect()", "extraction pipeline is %s" % col)
    idr = P.body("data_row_iterator::EvaluatedRow::into_data_row")
    if chk.anchor("into_data_row", idr):
        col = [[canon(x) for x in P.call_arg_terms(idr, bb)] for bb, t in idr.calls() if callee_name(t)[0] == "std::iter::Iterator::collect"]
        chk.require(col == [["Iterator::map(Iterator::zip(IntoIterator::into_iter(self.expected), outputs), closure({closure#0}))"]], "ORG", "ORG:alignment:into_data_row-zip", "expected.into_iter().zip(outputs).map(..).collect()", "into_data_row pipeline is %s" % col)
        cl = P.body(idr.name + "::{closure#0}")
        if chk.anchor("into_data_row closure", cl):
            r = set(canon(P.resolve(cl, P.sl(cl).ret(rb))) for rb in P.cfg(cl).return_blocks())
            E = "elem(Iterator::zip(IntoIterator::into_iter(self.expected), outputs))"
            chk.require(r == {"OutputResultEntry{signal: %s.0.signal, output: %s.1, expected: %s.0.value}" % (E, E, E)}, "ORG", "ORG:alignment:result-entry-roles", "signal/expected from the expected entry, output from the extracted value", "result entries are built as %s" % r)
    # value comes from the same signal, same call (shared with C13)
    from . import c13
    class _Quiet:
        pass
    # reuse C13's extraction closure rules
    main = [c for c in P.f.closures_of(ex.name) if any(callee_name(t)[0].endswith("Index<I>>::index") for bb, t in c.calls())] if ex is not None else []
    if chk.anchor("extraction closure", main):
        c = main[0]
        rows = set()
        for pi in tab.paths(P, c, to_return_only=True):
            arm = [d[2] for d in pi.decisions() if d[0] == "variant" and "output_indices" in d[1]]
            eq = sorted(set(f[0] for f in pi.cmp_facts() if f[0] in ("Eq", "Ne") and "signal" in f[1] + f[2]))
            r = terms.strip(pi.ret())
            sh = ordrules.shape_of(r)
            pay = canon(r[3][0][1]) if r[0] == "agg" and r[3] and sh == "Ok" else ""
            rows.add((arm[0] if arm else None, tuple(eq), sh, pay))
        E = "elem(Iterator::zip([T]::iter(self.expected_indices), self.output_indices))"
        want_out = {(("Output",), ("Eq",), "Ok", "Index::index(outputs, (%s.1 as Output).0).value" % E), (("Output",), ("Ne",), "Err", "")}
        chk.require(set(r for r in rows if r[0] == ("Output",)) == want_out, "GUARD", "GUARD:extract:value-of-same-signal", "Ok(outputs[i].value) iff signals[expected.signal_index] == outputs[i].signal", "Output arm rows: %s" % sorted((r for r in rows if r[0] == ("Output",)), key=str))
        chk.require((("None",), (), "Ok", "OutputValue::X{}") in rows, "TAB", "TAB:extract:never-supplied-is-X", "OutputEntryIndex::None => X", "rows: %s" % sorted(rows, key=str))
        eqs = set()
        for pi in tab.paths(P, c, to_return_only=True):
            for f in pi.cmp_facts():
                if f[0] == "Eq" and "outputs" in f[2] and "outputs" not in f[1]:
                    eqs.add((f[1], f[2]))
        chk.require(eqs == {("self.signals[EntryIndex::signal_index(%s.0)]" % E, "Index::index(outputs, (%s.1 as Output).0).signal" % E)}, "ORG", "ORG:extract:identity-test-uses-same-index", "the identity test and the value read use the same stored position and this entry's own signal", "identity test compares %s" % sorted(eqs))
    handle_io_order_rule(chk, P)
