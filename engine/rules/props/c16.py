"""C16 — loading a .dig file is total and recovers the circuit interface and its tests."""
import re
from ..core import pan, terms, tab, ordrules
from ..core.facts import callee_name
from ..core.prog import canon, Prog
from . import panrules, pancheck

FP = "dig::File::parse"
ROOTS = [FP, "<dig::File as std::str::FromStr>::from_str", "<impl dig::File>::load_test", "<impl dig::File>::load_test_by_name", "dig::File::open"]


class Abbr:
    def __init__(self):
        self.subs = []

    def add(self, long, short):
        # later keys are written in terms of earlier abbreviations: apply in insertion order
        if long and long not in [l for l, s in self.subs]:
            self.subs.append((long, short))

    def __call__(self, s):
        for l, sh in self.subs:
            s = s.replace(l, sh)
        return s


def _abbr(txt, subs):
    for long, shortn in subs:
        txt = txt.replace(long, shortn)
    return txt


def _abbr_table(pt, subs):
    return set((frozenset((_abbr(f[0], subs), f[1]) for f in fs), _abbr(r, subs)) for fs, r in pt)


def helper_tables(chk, P):
    """Exact decision tables of the two XML helpers (which element counts as a `names` element, which
    node is the value of attribute `label`): the tag tests with their sense, and nothing else."""
    ve = P.body("dig::visual_elements::{closure#0}")
    c0 = P.body("dig::visual_elements::{closure#0}::{closure#0}")
    c1 = P.body("dig::visual_elements::{closure#0}::{closure#1}")
    if chk.anchor("visual_elements closures", ve and c0 and c1):
        subs = [("elem(Document::descendants(doc))", "EL"), ("Iterator::find(Node::descendants(EL), closure({closure#0}))", "NAME_NODE")]
        t = _abbr_table(tab.predicate_table(P, ve), subs)
        TAG = "ExpandedName::name(Node::tag_name(EL))"
        want = {(frozenset([("Ne('visualElement', %s)" % TAG, True)]), "0"),
                (frozenset([("Eq('visualElement', %s)" % TAG, True), ("variant(NAME_NODE)", ("None",))]), "0"),
                (frozenset([("Eq('visualElement', %s)" % TAG, True), ("variant(NAME_NODE)", ("Some",))]), "Option::unwrap_or(Option::map(Node::text(some!(NAME_NODE)), closure({closure#1})), 0)")}
        chk.require(t == want, "TAB", "TAB:visual_elements:exact-filter", "a node counts iff it is a visualElement with an elementName whose text is in `names` (no text / no name: not counted)", "visual_elements filters by %s" % sorted(t, key=str))
        t0 = _abbr_table(tab.predicate_table(P, c0), subs)
        chk.require(tab.same_function(t0, {(frozenset(), "PartialEq<&B> for &A>::eq(ExpandedName::name(Node::tag_name(elem(Node::descendants(EL)))), 'elementName')")}, bool_result=True), "TAB", "TAB:visual_elements:name-node-test", "tag == elementName", "the element-name node is found by %s" % sorted(t0, key=str))
    at = P.body("dig::attrib")
    a0 = P.body("dig::attrib::{closure#0}")
    a1 = P.body("dig::attrib::{closure#1}")
    if chk.anchor("attrib closures", at and a0 and a1):
        t0 = tab.predicate_table(P, a0)
        t1 = _abbr_table(tab.predicate_table(P, a1), [("try(Iterator::find(Node::descendants(node), closure({closure#0})))", "ATTRS")])
        good = tab.same_function(t0, {(frozenset(), "PartialEq<&B> for &A>::eq(ExpandedName::name(Node::tag_name(elem(Node::descendants(node)))), 'elementAttributes')")}, bool_result=True) \
            and tab.same_function(t1, {(frozenset(), "PartialEq<&B> for &A>::eq(ExpandedName::name(Node::tag_name(elem(Node::descendants(ATTRS)))), 'entry')")}, bool_result=True)
        chk.require(good, "TAB", "TAB:attrib:tag-tests", "first elementAttributes descendant; its entry descendants", "attrib selects by %s / %s" % (sorted(t0, key=str), sorted(t1, key=str)))
        hb = [bb for bb, t in at.calls() if callee_name(t)[0].endswith("Iterator>::next")]
        if chk.anchor("attrib entry loop", len(hb) == 1):
            subs = [("try(Iterator::find(Node::descendants(node), closure({closure#0})))", "ATTRS"),
                    ("some!(Iterator::next(Iterator::filter(Node::descendants(ATTRS), closure({closure#1}))))", "ENTRY"),
                    ("Iterator::next(Iterator::filter(Node::descendants(ATTRS), closure({closure#1})))", "NEXT"),
                    ("Node::first_element_child(ENTRY)", "FIRST")]
            rows = set()
            for fs, eff, how in tab.iteration_table(P, at, hb[0], effects=lambda nm: False):
                if how == "unreachable":
                    continue
                rows.add((frozenset((_abbr(f[0], subs), f[1]) for f in fs), how))
            TG = "ExpandedName::name(Node::tag_name(some!(FIRST)))"
            TX = "Node::text(some!(FIRST))"
            a_, b_ = sorted([TX, "Option::Some{0: label}"])
            want = {(frozenset([("variant(NEXT)", ("None",))]), "return:None"),
                    (frozenset([("variant(NEXT)", ("Some",)), ("variant(FIRST)", ("None",))]), "back"),
                    (frozenset([("variant(NEXT)", ("Some",)), ("variant(FIRST)", ("Some",)), ("Ne('string', %s)" % TG, True)]), "back"),
                    (frozenset([("variant(NEXT)", ("Some",)), ("variant(FIRST)", ("Some",)), ("Eq('string', %s)" % TG, True), ("Ne(%s, %s)" % (a_, b_), True)]), "back"),
                    (frozenset([("variant(NEXT)", ("Some",)), ("variant(FIRST)", ("Some",)), ("Eq('string', %s)" % TG, True), ("Eq(%s, %s)" % (a_, b_), True)]), "return")}
            chk.require(rows == want, "TAB", "TAB:attrib:exact-entry-loop", "the first entry whose first child is <string>label</string> decides; entries without children or with another key are passed over", "attrib's entry loop behaves as %s" % sorted(rows, key=str))
            rets = set()
            for pi in tab.paths(P, at, to_return_only=True):
                rets.add(_abbr(canon(pi.ret()), subs))
            chk.require(rets == {"Option::None{}", "Node::last_element_child(ENTRY)", "FromResidual::from_residual(break!(Try::branch(Iterator::find(Node::descendants(node), closure({closure#0})))))"}, "ORG", "ORG:attrib:returns-last-child-of-that-entry", "Some(entry.last_element_child()) / None", "attrib returns %s" % sorted(rets))


def run(chk, ctx):
    P = Prog(ctx["facts"])
    helper_tables(chk, P)
    from . import eqrules
    eqrules.require_clone(chk, P, ["Signal"], "load_test binds the test to the file's own signals")
    L = panrules.Lemmas(P, chk)
    chk.explanation = ("C16 decided clauses: PAN (every panic-capable construct in the closure of dig::File::parse / from_str / load_test / load_test_by_name / open is discharged; text_pos_to_range rests on the stated roxmltree position contract), "
                       "constant-table rule (the element names passed to the element filter at its three call sites composed with the Signal literal built downstream: Out -> Output, In|Clock -> Input{default}, Testcase -> test; attribute keys Label, Bits (default 1), InDefault with z == \"true\" -> Z, v -> Value(parse), default Value(0); Testdata/testData/dataString; unlabelled pins skipped, unlabelled tests \"(unnamed)\"), "
                       "order/verbatim (signals = inputs chain outputs, tests in document order through filter/filter_map/map/chain/collect only; source = text().to_string()), GUARD (a header name is recorded as bidirectional only where no pin carries the full name and the stripped name is an Input pin; the conversion keeps the default), "
                       "TAB/ORD (load_test(i) = from_str(test_cases[i].source)? .with_signals(self.signals.clone())?, out of range => IndexOutOfBounds; load_test_by_name = first position(name == label) else TestNotFound). "
                       "Not applicable to this family: that the XML walk selects the intended nodes in every Digital document and behaviour under arbitrary corruption beyond panic-freedom.")
    chk.trusted = ["roxmltree: Document::parse returns Err instead of panicking; descendants() is document order; text positions are 1-based and within the text"]
    chk.assumptions = ["LIBRARY: roxmltree error positions (row, col) are 1-based and the preceding lines fit in the text (text_pos_to_range arithmetic)"]
    pancheck.run_pan(chk, P, L, ROOTS, "dig", floor_sites=5, floor_fns=25)
    fp = P.body(FP)
    if not chk.anchor("dig::File::parse", fp):
        return
    A = Abbr()
    sl = P.sl(fp)
    # element filter call sites
    ves = []
    for bb, t in fp.calls():
        if callee_name(t)[0] == "dig::visual_elements":
            a = [canon(x) for x in P.call_arg_terms(fp, bb)]
            A.add(a[0], "DOC")
            ves.append((bb, a[1]))
    names = sorted(v for bb, v in ves)
    chk.require(names == ["array('In', 'Clock')", "array('Out')", "array('Testcase')"], "CONST", "CONST:element-names", "element filter called with [Out], [In, Clock], [Testcase]", "element filter called with %s" % names)
    # closures of File::parse are identified by the role they play (the call they are passed to), not by number
    K = {"in_fm": "?", "in_map": "?", "out_fm": "?", "out_map": "?", "tc": "?", "names": "?", "fa": "?", "fb": "?", "fc": "?", "find": "?"}
    for bb, t in fp.calls():
        nm = callee_name(t)[0]
        a = [A(canon(x)) for x in P.call_arg_terms(fp, bb)]
        cn = [re.fullmatch(r"closure\(\{closure#(\d+)\}\)", x) for x in a]
        num = next((m.group(1) for m in cn if m), None)
        if num is None:
            continue
        if nm == "std::iter::Iterator::filter_map" and "array('In', 'Clock')" in a[0]:
            K["in_fm"] = num
        elif nm == "std::iter::Iterator::filter_map" and "array('Out')" in a[0]:
            K["out_fm"] = num
        elif nm == "std::iter::Iterator::filter_map" and "array('Testcase')" in a[0]:
            K["tc"] = num
        elif nm == "std::iter::Iterator::map" and a[0].startswith("Iterator::filter_map(dig::visual_elements(DOC, array('In', 'Clock'))"):
            K["in_map"] = num
        elif nm == "std::iter::Iterator::map" and a[0].startswith("Iterator::filter_map(dig::visual_elements(DOC, array('Out'))"):
            K["out_map"] = num
        elif nm == "std::iter::Iterator::map" and a[0].startswith("[T]::iter(FromIterator::from_iter("):
            K["names"] = num
        elif nm == "std::option::Option::filter" and a[0].startswith("str::strip_suffix("):
            K["fa"] = num
        elif nm == "std::option::Option::filter" and a[0].startswith("Option::filter(str::strip_suffix("):
            K["fb"] = num
        elif nm == "std::option::Option::map" and a[0].startswith("Option::filter(Option::filter(str::strip_suffix("):
            K["fc"] = num
        elif nm.endswith("IterMut<T> as std::iter::Iterator>::find"):
            K["find"] = num
    ve = P.body("dig::visual_elements")
    if chk.anchor("visual_elements", ve):
        r = set(canon(P.sl(ve).ret(rb)) for rb in P.cfg(ve).return_blocks())
        chk.require(r == {"Iterator::filter(Document::descendants(doc), closure({closure#0}))"}, "ORG", "ORG:visual_elements:document-order-filter", "doc.descendants().filter(..)", "visual_elements returns %s" % r)
        cl = P.body("dig::visual_elements::{closure#0}")
        if cl is not None:
            pt = tab.predicate_table(P, cl)
            consts = set(re.findall(r"'(\w+)'", " ".join(f for fs, sh in pt for f, t in fs) + " ".join(sh for fs, sh in pt)))
            for c2 in P.f.closures_of(cl.name):
                for fs, sh in tab.predicate_table(P, c2):
                    consts.update(re.findall(r"'(\w+)'", " ".join(f for f, t in fs) + sh))
            consts = sorted(consts)
            chk.require(consts == ["elementName", "visualElement"], "CONST", "CONST:visual_elements:tags", "visualElement / elementName", "visual_elements tests tags %s" % consts)
            inner = P.body("dig::visual_elements::{closure#0}::{closure#1}")
            if inner is not None:
                pti = tab.predicate_table(P, inner)
                chk.require(pti == {(frozenset(), "[T]::contains(names, elem(Node::text(some!(Iterator::find(Node::descendants(elem(Document::descendants(doc))), closure({closure#0}))))))")}, "TAB", "TAB:visual_elements:name-in-list", "names.contains(&name)", "element name test is %s" % sorted(pti, key=str))
    # downstream literals
    lits = {}
    for cl in P.f.closures_of(FP):
        for (cb, bb, i, st) in P.constructors("Signal"):
            if cb is cl:
                t = P.resolve(cl, P.sl(cl).rvalue(st["rv"], bb, i))
                f = {k: A(canon(v)) for k, v in t[3]}
                src = "Out" if "array('Out')" in f["name"] else "In|Clock" if "array('In', 'Clock')" in f["name"] else "?"
                lits[src] = f
    E_out = "elem(Iterator::filter_map(dig::visual_elements(DOC, array('Out')), closure({closure#%s})))" % K["out_fm"]
    E_in = "elem(Iterator::filter_map(dig::visual_elements(DOC, array('In', 'Clock')), closure({closure#%s})))" % K["in_fm"]
    want = {"Out": {"name": "ToString::to_string(%s.0)" % E_out, "bits": "%s.1" % E_out, "typ": "SignalType::Output{}"},
            "In|Clock": {"name": "ToString::to_string(%s.0)" % E_in, "bits": "%s.1" % E_in, "typ": "SignalType::Input{default: %s.2}" % E_in}}
    chk.require(lits == want, "CONST", "CONST:element->signal", "Out -> Signal{typ: Output}; In|Clock -> Signal{typ: Input{default}}; name/bits from the element", "element -> signal literals: %s" % lits)
    # the filter_map closures: extract_signal_data (+ extract_input_data)
    for cname, shape in (("{closure#%s}" % K["out_fm"], r"dig::extract_signal_data\(elem\(dig::visual_elements\(DOC, array\('Out'\)\)\)\)"),):
        cl = P.body(FP + "::" + cname)
        if chk.anchor("output filter_map closure", cl):
            r = set(A(canon(P.resolve(cl, P.sl(cl).ret(rb)))) for rb in P.cfg(cl).return_blocks())
            chk.require(len(r) == 1 and re.fullmatch(shape, list(r)[0]) is not None, "ORG", "ORG:outputs:extract_signal_data", "filter_map(extract_signal_data): unlabelled pins are skipped", "output pins extracted by %s" % r)
    c3 = P.body(FP + "::{closure#%s}" % K["in_fm"])
    if chk.anchor("input filter_map closure", c3):
        rows = set()
        for pi in tab.paths(P, c3, to_return_only=True):
            d = [x[2] for x in pi.decisions() if x[0] == "variant" and "extract_signal_data" in x[1]]
            rows.add((d[0] if d else None, A(canon(pi.ret()))))
        N = "elem(dig::visual_elements(DOC, array('In', 'Clock')))"
        want3 = {(("Some",), "Option::Some{0: tuple(some!(dig::extract_signal_data(%s)).0, some!(dig::extract_signal_data(%s)).1, dig::extract_input_data(%s))}" % (N, N, N)), (("None",), "Option::None{}")}
        chk.require(rows == want3, "ORG", "ORG:inputs:extract", "(label, bits, extract_input_data(node)); unlabelled pins skipped", "input pins extracted by %s" % sorted(rows, key=str))
    esd = P.body("dig::extract_signal_data")
    if chk.anchor("extract_signal_data", esd):
        oks = set(canon(pi.ret()) for pi in tab.paths(P, esd, to_return_only=True) if ordrules.ret_shape(pi).startswith("Some"))
        chk.require(oks == {"Option::Some{0: tuple(try(Node::text(try(dig::attrib(node, 'Label')))), Option::unwrap_or(Option::and_then(dig::attrib(node, 'Bits'), closure({closure#0})), 1))}"}, "CONST", "CONST:signal-data:Label-and-Bits-default-1", "label = attrib(Label).text()?; bits = attrib(Bits).parse or 1", "extract_signal_data returns %s" % oks)
        cl = P.body("dig::extract_signal_data::{closure#0}")
        if cl is not None:
            rr = set(canon(P.resolve(cl, pi.ret())) for pi in tab.paths(P, cl, to_return_only=True) if not canon(pi.ret()).startswith("FromResidual"))
            chk.require(rr == {"Result::ok(str::parse(try(Node::text(elem(dig::attrib(node, 'Bits'))))))"}, "ORG", "ORG:signal-data:bits-parse", "node.text()?.parse().ok()", "bits parsed by %s" % rr)
    eid = P.body("dig::extract_input_data")
    if chk.anchor("extract_input_data", eid):
        r = set(canon(P.sl(eid).ret(rb)) for rb in P.cfg(eid).return_blocks())
        # the same decision written with branches instead of Option combinators (an `if let` ladder): the exact five-row table
        DN = "some!(dig::attrib(node, 'InDefault'))"
        AT, ZT = "variant(dig::attrib(node, 'InDefault'))", "Node::attribute(%s, 'z'), Option::Some{0: 'true'}" % DN
        VV, PV = "variant(Node::attribute(%s, 'v'))" % DN, "str::parse(some!(Node::attribute(%s, 'v')))" % DN
        ladder = {(frozenset([(AT, ("None",))]), "InputValue::Value{0: 0}"),
                  (frozenset([(AT, ("Some",)), ("Eq(%s)" % ZT, True)]), "InputValue::Z{}"),
                  (frozenset([(AT, ("Some",)), ("Ne(%s)" % ZT, True), (VV, ("None",))]), "InputValue::Value{0: 0}"),
                  (frozenset([(AT, ("Some",)), ("Ne(%s)" % ZT, True), (VV, ("Some",)), ("variant(%s)" % PV, ("Err",))]), "InputValue::Value{0: 0}"),
                  (frozenset([(AT, ("Some",)), ("Ne(%s)" % ZT, True), (VV, ("Some",)), ("variant(%s)" % PV, ("Ok",))]), "InputValue::Value{0: ok!(%s)}" % PV)}
        if P.body("dig::extract_input_data::{closure#0}") is None:
            got = set((tab.path_facts(pi), canon(pi.ret())) for pi in tab.paths(P, eid, to_return_only=True))
            if got == ladder:
                r = {"Option::unwrap_or(Option::and_then(dig::attrib(node, 'InDefault'), closure({closure#0})), InputValue::Value{0: 0})"}
        chk.require(r == {"Option::unwrap_or(Option::and_then(dig::attrib(node, 'InDefault'), closure({closure#0})), InputValue::Value{0: 0})"}, "CONST", "CONST:input-default:key-and-fallback", "attrib(InDefault)... or Value(0)", "extract_input_data returns %s" % r)
        cl = P.body("dig::extract_input_data::{closure#0}")
        if cl is not None:
            pt = tab.predicate_table(P, cl)
            D = "elem(dig::attrib(node, 'InDefault'))"
            zt = "Eq(Node::attribute(%s, 'z'), Option::Some{0: 'true'})" % D
            zf = "Ne(Node::attribute(%s, 'z'), Option::Some{0: 'true'})" % D
            want = {(frozenset([(zt, True)]), "Some(Z)"), (frozenset([(zf, True)]), "Option::and_then(Node::attribute(%s, 'v'), closure({closure#0}))" % D)}
            chk.require(pt == want, "CONST", "CONST:input-default:z-true-else-v", "z == \"true\" => Z; else v parsed", "InDefault handling is %s" % sorted(pt, key=str))
            cl2 = P.body("dig::extract_input_data::{closure#0}::{closure#0}")
            if cl2 is not None:
                r2 = set(canon(P.resolve(cl2, P.sl(cl2).ret(rb))) for rb in P.cfg(cl2).return_blocks())
                chk.require(r2 == {"Option::map(Result::ok(str::parse(elem(Node::attribute(%s, 'v')))), fn:value::InputValue::Value)" % D}, "ORG", "ORG:input-default:value-parse", "v.parse().ok().map(Value)", "v handled by %s" % r2)
    # signals = inputs chain outputs, in document order
    fi = [A(canon(x)) for bb, t in fp.calls() if callee_name(t)[0].endswith("FromIterator<T>>::from_iter") for x in P.call_arg_terms(fp, bb)]
    IN = "Iterator::map(Iterator::filter_map(dig::visual_elements(DOC, array('In', 'Clock')), closure({closure#%s})), closure({closure#%s}))" % (K["in_fm"], K["in_map"])
    OUT = "Iterator::map(Iterator::filter_map(dig::visual_elements(DOC, array('Out')), closure({closure#%s})), closure({closure#%s}))" % (K["out_fm"], K["out_map"])
    chk.require(fi == ["Iterator::chain(%s, %s)" % (IN, OUT)], "ORG", "ORG:signals:inputs-then-outputs-in-document-order", "Vec::from_iter(inputs.chain(outputs)) — adaptors filter/filter_map/map/chain only", "signals built from %s" % fi)
    A.add("FromIterator::from_iter(Iterator::chain(%s, %s))" % (IN, OUT), "SIGNALS")
    # test cases
    tcs = [A(canon(x)) for bb, t in fp.calls() if callee_name(t)[0] == "std::iter::Iterator::collect" for x in P.call_arg_terms(fp, bb)]
    TC = "Iterator::filter_map(dig::visual_elements(DOC, array('Testcase')), closure({closure#%s}))" % K["tc"]
    chk.require(TC in tcs, "ORG", "ORG:tests:document-order", "visual_elements([Testcase]).filter_map(..).collect()", "test cases collected from %s" % tcs)
    A.add("Iterator::collect(%s)" % TC, "TESTS")
    c5 = P.body(FP + "::{closure#%s}" % K["tc"])
    if chk.anchor("test-case closure", c5):
        oks = set()
        consts = set()
        for pi in tab.paths(P, c5, to_return_only=True):
            for f in pi.cmp_facts():
                consts.update(re.findall(r"'(\w+)'", " ".join(str(x) for x in f)))
            if ordrules.ret_shape(pi).startswith("Some"):
                lab = [x[2] for x in pi.decisions() if x[0] == "variant" and x[1].endswith("'Label')")]
                r = terms.strip(pi.ret())
                t = terms.strip(r[3][0][1])
                f = {k: A(canon(v)) for k, v in t[3]}
                oks.add((lab[0] if lab else None, f.get("name"), f.get("source")))
        N = "elem(dig::visual_elements(DOC, array('Testcase')))"
        SRC = "ToString::to_string(try(Node::text(try(Node::first_element_child(try(dig::attrib(%s, 'Testdata')))))))" % N
        want = {(("Some",), "ToString::to_string(try(Node::text(some!(dig::attrib(%s, 'Label')))))" % N, SRC), (("None",), "ToString::to_string('(unnamed)')", SRC)}
        chk.require(oks == want, "CONST", "CONST:testcase:label-and-source-verbatim", "name = Label text or \"(unnamed)\"; source = Testdata/testData/dataString text().to_string() (no trim)", "test descriptions built as %s" % sorted(oks, key=str))
        chk.require({"testData", "dataString"} <= consts, "CONST", "CONST:testcase:tags", "testData / dataString", "test data tags tested: %s" % sorted(consts))
    at = P.body("dig::attrib")
    if chk.anchor("attrib", at):
        consts = set()
        for pi in tab.paths(P, at):
            for f in pi.cmp_facts():
                consts.update(re.findall(r"'(\w+)'", " ".join(str(x) for x in f)))
        for cl in P.f.closures_of("dig::attrib"):
            for fs, sh in tab.predicate_table(P, cl):
                consts.update(re.findall(r"'(\w+)'", " ".join(f for f, t in fs) + sh))
        chk.require(consts == {"elementAttributes", "entry", "string"}, "CONST", "CONST:attrib:tags", "elementAttributes / entry / string", "attrib tests tags %s" % sorted(consts))
    # bidirectional rule
    c9, c10 = P.body(FP + "::{closure#%s}" % K["fa"]), P.body(FP + "::{closure#%s}" % K["fb"])
    HDR = None
    ins = []
    for bb, t in fp.calls():
        if callee_name(t)[0] == "std::collections::HashSet::insert":
            ins.append((bb, [A(canon(x)) for x in P.call_arg_terms(fp, bb)]))
    strip = [A(canon(x)) for bb, t in fp.calls() if callee_name(t)[0] == "core::str::<impl str>::strip_suffix" for x in P.call_arg_terms(fp, bb)]
    if chk.anchor("strip_suffix(\"_out\")", len(strip) == 2 and strip[1] == "'_out'"):
        NAME = strip[0]
        A.add(NAME, "NAME")
        ins = [(bb, [A(x) for x in a]) for bb, a in ins]
        bid = [a for bb, a in ins if "strip_suffix" in a[1]]
        plain = [a for bb, a in ins if a[1] == "NAME"]
        want_b = "some!(Option::map(Option::filter(Option::filter(str::strip_suffix(NAME, '_out'), closure({closure#%s})), closure({closure#%s})), closure({closure#%s})))" % (K["fa"], K["fb"], K["fc"])
        chk.require(len(bid) == 1 and bid[0][1] == want_b and len(plain) == 1, "GUARD", "GUARD:bidirectional:recorded-only-through-both-filters", "bidirectional.insert(strip_suffix(_out).filter(a).filter(b)); otherwise the full name is an ordinary column", "header names recorded as %s / %s" % (bid, plain))
        if c9 is not None:
            pt = set((fs, A(sh)) for fs, sh in tab.predicate_table(P, c9))
            chk.require(pt == {(frozenset(), "Not(HashSet::contains(Iterator::collect(Iterator::map([T]::iter(SIGNALS), closure({closure#%s}))), NAME))" % K["names"])}, "GUARD", "GUARD:bidirectional:(a)-full-name-is-not-a-pin", "!signal_names.contains(&name)", "first filter is %s" % sorted(pt, key=str))
        if c10 is not None:
            pt = set((fs, A(sh)) for fs, sh in tab.predicate_table(P, c10))
            chk.require(pt == {(frozenset(), "Iterator::any([T]::iter(SIGNALS), closure({closure#0}))")}, "GUARD", "GUARD:bidirectional:(b)-any-signal", "signals.iter().any(..)", "second filter is %s" % sorted(pt, key=str))
            inner = P.body(FP + "::{closure#%s}::{closure#0}" % K["fb"])
            if inner is not None:
                rows = set()
                for pi in tab.paths(P, inner, to_return_only=True):
                    eq = sorted(set(f[0] for f in pi.cmp_facts() if f[0] in ("Eq", "Ne") and ".name" in f[1] + f[2]))
                    ty = [x[2] for x in pi.decisions() if x[0] == "variant"]
                    rows.add((tuple(eq), ty[0] if ty else None, canon(pi.ret())))
                want = {(("Ne",), None, "0"), (("Eq",), ("Input",), "1"), (("Eq",), ("Output", "Bidirectional", "Virtual"), "0")}
                chk.require(rows == want, "GUARD", "GUARD:bidirectional:(b)-stripped-name-is-an-Input-pin", "sig.name == stripped && matches!(sig.typ, Input{..})", "second filter's test is %s" % sorted(rows, key=str))
        sn = P.body(FP + "::{closure#%s}" % K["names"])
        if sn is not None:
            r = set(A(canon(P.resolve(sn, P.sl(sn).ret(rb)))) for rb in P.cfg(sn).return_blocks())
            chk.require(r == {"Clone::clone(elem([T]::iter(SIGNALS)).name)"}, "ORG", "ORG:signal_names:all-pin-labels", "signal_names = signals.iter().map(|s| s.name.clone())", "signal_names built from %s" % r)
    # conversion keeps the default
    conv = set()
    for bb in sorted(fp.reachable_blocks()):
        for i, st in enumerate(fp.blocks[bb]["stmts"]):
            if st["s"] == "assign" and st["lhs"]["p"] and [e.get("f") if isinstance(e, dict) else e for e in st["lhs"]["p"]][-1] == "typ":
                conv.add(A(canon(P.resolve(fp, sl.rvalue(st["rv"], bb, i)))))
    good = len(conv) == 1 and re.fullmatch(r"SignalType::Bidirectional\{default: \(some!\(Iterator::find\(\[T\]::iter_mut\(SIGNALS\), closure\(\{closure#\d+\}\)\)\)\.typ as Input\)\.default\}", list(conv)[0]) is not None
    chk.require(good, "ORG", "ORG:bidirectional:conversion-keeps-default", "Input{default} -> Bidirectional{default}", "type conversion writes %s" % conv)
    c12 = P.body(FP + "::{closure#%s}" % K["find"])
    if c12 is not None:
        rows = set()
        for pi in tab.paths(P, c12, to_return_only=True):
            eq = sorted(set(f[0] for f in pi.cmp_facts() if f[0] in ("Eq", "Ne") and ".name" in f[1] + f[2]))
            ty = [x[2] for x in pi.decisions() if x[0] == "variant"]
            rows.add((tuple(eq), ty[0] if ty else None, canon(pi.ret())))
        chk.require(rows == {(("Ne",), None, "0"), (("Eq",), ("Input",), "1"), (("Eq",), ("Output", "Bidirectional", "Virtual"), "0")}, "GUARD", "GUARD:bidirectional:converted-signal-is-the-Input-of-that-name", "find(|sig| sig.name == name && Input)", "converted signal selected by %s" % sorted(rows, key=str))
    # missing signals check
    rows = set()
    for (cb, bb, i, st) in P.constructors("errors::DigFileErrorKind::MissingSignals"):
        if cb is fp:
            g = panrules.guards_at(P, fp, bb)
            rows.add(tuple(sorted((x[1], x[3]) for x in g if x[0] == "call" and x[1] == "HashSet::is_subset")))
    chk.require(rows == {(("HashSet::is_subset", False),)}, "GUARD", "GUARD:missing-signals", "Err(MissingSignals) iff !test_signal_names.is_subset(&signal_names)", "MissingSignals raised under %s" % rows)
    # File literal
    for (cb, bb, i, st) in P.constructors("dig::File"):
        if cb is fp:
            f = {k: A(canon(v)) for k, v in P.resolve(fp, sl.rvalue(st["rv"], bb, i))[3]}
            chk.require(f == {"signals": "SIGNALS", "test_cases": "TESTS"}, "ORG", "ORG:File-literal", "File{signals, test_cases}", "File built as %s" % f)
    # load_test / load_test_by_name
    lt = P.body("<impl dig::File>::load_test")
    if chk.anchor("load_test", lt):
        rows = set()
        for pi in tab.paths(P, lt, to_return_only=True):
            rng = sorted(set(f[0] for f in pi.cmp_facts() if f[1] == "n" and f[2] == "Vec::len(self.test_cases)"))
            rows.add((tuple(rng), canon(pi.ret())))
        SRC = "Result::map_err(FromStr::from_str(Index::index(self.test_cases, n).source), closure({closure#0}))"
        BND = "Result::map_err(ParsedTestCase::with_signals(try(%s), Clone::clone(self.signals)), closure({closure#1}))" % SRC
        want = {(("Ge",), "Result::Err{0: LoadTestError::IndexOutOfBounds{number: n, len: Vec::len(self.test_cases)}}"),
                (("Lt",), "Result::Ok{0: try(%s)}" % BND),
                (("Lt",), "FromResidual::from_residual(break!(Try::branch(%s)))" % BND),
                (("Lt",), "FromResidual::from_residual(break!(Try::branch(%s)))" % SRC)}
        chk.require(rows == want, "TAB", "TAB:load_test", "n >= len => IndexOutOfBounds; else from_str(source)?.with_signals(signals.clone())?", "load_test rows: %s" % sorted(rows, key=str))
    ln = P.body("<impl dig::File>::load_test_by_name")
    if chk.anchor("load_test_by_name", ln):
        rows = set()
        for pi in tab.paths(P, ln, to_return_only=True):
            d = [x[2] for x in pi.decisions() if x[0] == "variant"]
            rows.add((d[0] if d else None, canon(pi.ret())))
        POS = "Iterator::position([T]::iter(self.test_cases), closure({closure#0}))"
        want = {(("Some",), "File::load_test(self, some!(%s))" % POS), (("None",), "Result::Err{0: LoadTestError::TestNotFound{0: ToString::to_string(name)}}")}
        chk.require(rows == want, "TAB", "TAB:load_test_by_name", "first position(name == label) => load_test(n); else TestNotFound", "load_test_by_name rows: %s" % sorted(rows, key=str))
        cl = P.body(ln.name + "::{closure#0}")
        if cl is not None:
            pt = tab.predicate_table(P, cl)
            chk.require(pt == {(frozenset(), "PartialEq::eq(elem([T]::iter(self.test_cases)).name, name)")}, "TAB", "TAB:load_test_by_name:compares-label", "|t| t.name == name", "name test is %s" % sorted(pt, key=str))
    chk.not_decided = ["that the XML walk (descendants / first_element_child / last_element_child / text) selects the intended nodes in every Digital-produced document", "behaviour under arbitrary corruption of the document beyond panic-freedom (roxmltree's run-time interpretation)"]
