"""C14 — virtual signals: same row's outputs, blind to variables."""
import re
from ..core import pan, terms, tab, ordrules
from ..core.facts import callee_name
from ..core.prog import canon, Prog
from . import panrules, c11
from .iter_rules import *


def run(chk, ctx):
    P = Prog(ctx["facts"])
    from .iter_rules import plumbing_rule
    plumbing_rule(chk, P, {"ParsedTestCase": ("virtual_signals",), "TestCase": ("signals", "expected_indices"), "DataRowIteratorTestData": ("signals", "expected_indices")})   # what the parser / the binding produced is what runs
    # "an additional 64-bit output ... its expected value is the entry in the column of that name": the expected
    # path reduces the entry to the signal's width, so at the virtual signals' width 64 the mask must be all ones
    from . import c07
    c07.mask_rules(chk, P, which_list=("expected",), only_widths=(64,))
    from . import lexrules
    lexrules.spelling_rule(chk, P, ("Declare", "Equal", "Semi"))
    # "evaluated over the outputs the driver returned for that same row": the table the expression reads is rebuilt from
    # exactly this row's answer (replaced, not merged or filtered; nothing else writes it) — shared with C04
    from . import c04 as _c04
    _c04.run(chk.only(("ORG:set_outputs-replaces-map", "ORG:set_outputs-entry", "WHO:outputs-writers", "WHO:set_outputs-callers", "TAB:Expr::Variable", "TAB:EvalContext::get")), ctx)
    chk.explanation = ("C14 decided structurally: ORG/const (with_signals appends one Signal{bits: 64, typ: Virtual{expr}} per declaration, in declaration order), ORD (handle_io: read-call, set_outputs(answer), then the extraction, the only evaluator of virtual expressions), "
                       "PAIR (swap_vars before and after the evaluation on every evaluating path, nothing that could write the swapped-in map in between; alt_vars is only ever swapped, so it is empty), "
                       "PAIR on the parser's declare arm (variable set emptied while the expression is parsed, so every identifier is an output read), TAB (an evaluation error maps to an error item, never unwrapped or defaulted).")
    chk.trusted = ["rustc MIR and callee resolution"]
    ws = P.body(c11.WS)
    if chk.anchor("with_signals", ws):
        for cl in P.f.closures_of(ws.name):
            r = set(canon(P.resolve(cl, P.sl(cl).ret(rb))) for rb in P.cfg(cl).return_blocks())
            E = "elem(Vec::drain(self.virtual_signals, ops::RangeFull{}))"
            want = {"Signal{name: %s.0.name, bits: 64, typ: SignalType::Virtual{expr: VirtualExpr{expr: Box::new(%s.0.expr)}}}" % (E, E)}
            chk.require(r == want, "ORG", "ORG:with_signals:virtual-signal-literal", "Signal{name: virt.name, bits: 64, typ: Virtual{expr: virt.expr}}", "virtual signals are built as %s" % r)
        ext = [[canon(x) for x in P.call_arg_terms(ws, bb)] for bb, t in ws.calls() if callee_name(t)[0].endswith("iter::Extend<T>>::extend")]
        chk.require(ext == [["signals", "Iterator::map(Vec::drain(self.virtual_signals, ops::RangeFull{}), closure({closure#0}))"]], "ORG", "ORG:with_signals:virtual-appended-in-order", "signals.extend(virtual_signals.drain(..).map(..))", "virtual signals appended by %s" % ext)
    handle_io_order_rule(chk, P)
    swap_pair_rule(chk, P)
    # every virtual signal is evaluated, with or without a column of its own: the layout loop classifies an entry as Virtual
    # exactly by the signal's type (three-way table shared with C03)
    from . import c03
    c03.run(chk.only(("build_output_indices:three-way", "build_output_indices:exact-three-way")), ctx)
    # with the variables swapped out, a name resolves to the device output: outputs are consulted exactly on the None edge of the variable lookup
    get_shape_rule(chk, P)
    # the only evaluator of OutputEntryIndex::Virtual
    boi = P.body(TD + "build_output_indices")
    if chk.anchor("build_output_indices", boi):
        cons = P.constructors("data_row_iterator::OutputEntryIndex::Virtual")
        ok = len(cons) == 1 and cons[0][0] is boi
        c = ""
        if ok:
            b, bb, i, st = cons[0]
            c = canon(P.sl(b).rvalue(st["rv"], bb, i)[3][0][1])
            arms = [a for a in pan.arm_context(b, bb, P.cfg(b)) if a.get("enum", "").endswith("SignalType")]
            ok = bool(re.fullmatch(r"\(self\.signals\[EntryIndex::signal_index\(.*\)\]\.typ as Virtual\)\.expr\.expr(\.0\.pointer)?", c)) and bool(arms) and arms[0]["variants"] == ["Virtual"]
        chk.require(ok, "ORG", "ORG:build_output_indices:virtual-entry", "Virtual(&signal.typ.expr) in the Virtual arm of the entry's own signal", "OutputEntryIndex::Virtual built as %s" % c)
    ex = P.body(TD + "extract_output_values")
    if ex is not None:
        main = [c for c in P.f.closures_of(ex.name) if any(callee_name(t)[0] == "expr::Expr::eval" for bb, t in c.calls())]
        if chk.anchor("extraction closure evaluates virtual expressions", main):
            c = main[0]
            rows = set()
            for pi in tab.paths(P, c, to_return_only=True):
                arm = [d[2] for d in pi.decisions() if d[0] == "variant" and "output_indices" in d[1]]
                if arm and arm[0] == ("Virtual",):
                    rows.add(canon(pi.ret()))
            E = r"elem\(Iterator::zip\(\[T\]::iter\(self\.expected_indices\), self\.output_indices\)\)"
            good = len(rows) == 1 and re.fullmatch(r"Result::map_err\(Result::map\(Expr::eval\(\(%s\.1 as Virtual\)\.0, ctx\), fn:value::OutputValue::Value\), closure\(\{closure#0\}\)\)" % E, list(rows)[0])
            chk.require(bool(good), "TAB", "TAB:extract:virtual-arm", "expr.eval(ctx).map(Value).map_err(..): the error becomes the row's error item", "Virtual arm evaluates as %s" % sorted(rows))
            for cc in P.f.closures_of(c.name):
                r = set(canon(P.resolve(cc, P.sl(cc).ret(rb))) for rb in P.cfg(cc).return_blocks())
                chk.require(all(x.startswith("IterationError::Runtime{0: ") for x in r) and bool(r), "TAB", "TAB:extract:virtual-error-is-runtime-error", "map_err(|e| IterationError::Runtime(..e..))", "evaluation error mapped to %s" % r)
    # declaration expression: every identifier is an output read
    c11.scoping_rules(chk, P, only=("declare",))
    # "any expressions over output-capable signals": an identifier of a declaration binds iff some signal of that name is
    # output-capable — whether or not it has a header column (C11's read-output condition, exact tables)
    c11.condition_rules(chk.only(("build_read_outputs", "read-outputs:exact-loop-table", "Signal::is_output")), P)
    # expected value from the column of that name or X: C06's table (Virtual treated like Output)
    bi = P.body("parsed_test_case::ParsedTestCase::build_indices")
    if bi is not None:
        pushes = {}
        for bb, t in bi.calls():
            if callee_name(t)[0] == "std::vec::Vec::push":
                L = panrules.Lemmas(P, chk)
                nm = bi.local_name(L._root_local(bi, t["args"][0], bb))
                arms = [a for a in pan.arm_context(bi, bb, P.cfg(bi)) if a.get("enum", "").endswith("SignalType")]
                for v in (arms[0]["variants"] if arms else []):
                    pushes.setdefault(v, set()).add(nm)
        chk.require(pushes.get("Virtual") == {"expected_indices"} and pushes.get("Output") == {"expected_indices"}, "TAB", "TAB:build_indices:virtual-like-output", "Virtual signals get an expected index like outputs", "build_indices pushes %s" % {k: sorted(v) for k, v in pushes.items()})
