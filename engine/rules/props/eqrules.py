"""EQ: the meaning of `==` on crate-local types.

Several rules read `a == b` in the source as "the same value" (signal identity in the
output layout tests, entry equality for the `changed` flags, token-kind tests in the
typestate analysis).  That reading is justified only while the PartialEq impl of the
compared type is the compiler-derived, structural one, transitively over the local types
of its fields.  A hand-written impl is accepted only if its decision table is the
conjunction of `==` over every field (structs)."""
import re
from ..core import tab
from ..core.facts import callee_name


def _self_types(f):
    out = []
    for a in [f.get("self_ty")] + list(f.get("fn_args") or []) + list(f.get("res_args") or []):
        if not a:
            continue
        a = re.sub(r"^(&('[^ ]+ )?(mut )?)+", "", a)
        if a.startswith("'"):
            continue
        out.append(a)
    return out


def compared_types(P):
    """local ADT name -> sorted callers (hand-written bodies) that compare two values of it with ==/!="""
    out = {}
    adts = P.f.adts
    for b in P.f.all_bodies:
        if b.j.get("def_exp"):
            continue
        for bb, t in b.calls():
            nm, f = callee_name(t)
            if "PartialEq" not in nm or not (nm.endswith("::eq") or nm.endswith("::ne")):
                continue
            for ty in _self_types(f):
                base = ty.split("<")[0]
                if base in adts:
                    out.setdefault(base, set()).add(b.name)
    return dict((k, sorted(v)) for k, v in out.items())


def eq_body(P, ty):
    for n, b in P.f.bodies.items():
        m = re.match(r"^<(.+) as std::cmp::PartialEq>::eq$", n)
        if m and m.group(1).split("<")[0] == ty:
            return b
    return None


def structural(P, ty, seen=None):
    """-> (ok, reason, types visited)"""
    seen = set() if seen is None else seen
    if ty in seen:
        return True, "", seen
    seen.add(ty)
    b = eq_body(P, ty)
    if b is None:
        return False, "%s has no PartialEq impl in the crate" % ty, seen
    if b.j.get("def_exp_kind") == "#[derive(PartialEq)]":
        ok = True
    else:
        # hand-written: accept only the conjunction of == over all fields of a struct
        adt = P.f.adts.get(ty)
        ok = False
        if adt and str(adt.get("kind", "")).lower() == "struct" and len(adt.get("variants", [])) == 1:
            fields = [fl["name"] for fl in adt["variants"][0]["fields"]]
            want = set()
            facts = []
            for i, fl in enumerate(fields):
                a, c = sorted(["self.%s" % fl, "other.%s" % fl])
                want.add((frozenset(facts + [("Ne(%s, %s)" % (a, c), True)]), "0"))
                facts = facts + [("Eq(%s, %s)" % (a, c), True)]
            want.add((frozenset(facts), "1"))
            got = tab.predicate_table(P, b)
            ok = tab.same_function(got, want, bool_result=True)
        if not ok:
            return False, "`==` on %s is a hand-written impl (%s:%d) that is not field-by-field equality" % (ty, b.file, b.line), seen
    # field types compared inside
    for bb, t in b.calls():
        nm, f = callee_name(t)
        if "PartialEq" in nm and (nm.endswith("::eq") or nm.endswith("::ne")):
            for sub in _self_types(f):
                # Box<T>, Vec<T>, Option<T>, (A, B) ... compare their local element types
                for base in re.findall(r"[A-Za-z_][A-Za-z0-9_]*(?:::[A-Za-z_][A-Za-z0-9_]*)*", sub):
                    if base in P.f.adts and base not in seen:
                        ok2, why, _ = structural(P, base, seen)
                        if not ok2:
                            return False, why, seen
    return True, "", seen


def require(chk, P, types, meaning):
    """One obligation per type in `types`: it is compared somewhere (fail closed when the
    comparison the property rests on is gone) and its == is structural."""
    cmp_ = compared_types(P)
    for ty in types:
        users = cmp_.get(ty)
        if not chk.anchor("== on %s is used" % ty, bool(users)):
            continue
        ok, why, seen = structural(P, ty)
        chk.require(ok, "EQ", "EQ:%s:structural-equality" % ty, "derived PartialEq over %s; %s; compared in %s" % (sorted(seen), meaning, [u.split("::")[-2] if u.endswith("}") else u.split("::")[-1] for u in users]),
                    "%s — %s no longer holds" % (why, meaning))


# ---- CLONE: `x.clone()` on crate-local types yields an equal value ---------------------------------
def clone_body(P, ty):
    for n, b in P.f.bodies.items():
        m = re.match(r"^<(.+) as std::clone::Clone>::clone$", n)
        if m and m.group(1).split("<")[0] == ty:
            return b
    return None


def cloned_types(P):
    out = {}
    for b in P.f.all_bodies:
        if b.j.get("def_exp"):
            continue
        for bb, t in b.calls():
            nm, f = callee_name(t)
            if not (nm.endswith("::clone") or nm.endswith("::cloned") or nm.endswith("::to_vec") or nm.endswith("::to_owned")):
                continue
            for ty in _self_types(f):
                for base in re.findall(r"[A-Za-z_][A-Za-z0-9_]*(?:::[A-Za-z_][A-Za-z0-9_]*)*", ty):
                    if base in P.f.adts:
                        out.setdefault(base, set()).add(b.name)
    return dict((k, sorted(v)) for k, v in out.items())


def derived_clone(P, ty, seen=None):
    seen = set() if seen is None else seen
    if ty in seen:
        return True, "", seen
    seen.add(ty)
    b = clone_body(P, ty)
    if b is None:
        return False, "%s has no Clone impl in the crate" % ty, seen
    if b.j.get("def_exp_kind") != "#[derive(Clone)]":
        return False, "`clone()` on %s is a hand-written impl (%s:%d)" % (ty, b.file, b.line), seen
    for bb, t in b.calls():
        nm, f = callee_name(t)
        if nm.endswith("::clone"):
            for sub in _self_types(f):
                for base in re.findall(r"[A-Za-z_][A-Za-z0-9_]*(?:::[A-Za-z_][A-Za-z0-9_]*)*", sub):
                    if base in P.f.adts and base not in seen:
                        ok2, why, _ = derived_clone(P, base, seen)
                        if not ok2:
                            return False, why, seen
    return True, "", seen


def require_clone(chk, P, types, meaning):
    cl = cloned_types(P)
    for ty in types:
        users = cl.get(ty)
        if not users:
            # nothing is cloned any more (e.g. `.cloned()` became `.copied()`): no rule reads a clone() of this type as a copy
            chk.ok("EQ", "CLONE:%s:derived" % ty, "no clone() of %s is called: values are moved or bit-copied; %s" % (ty, meaning))
            continue
        ok, why, seen = derived_clone(P, ty)
        chk.require(ok, "EQ", "CLONE:%s:derived" % ty, "derived Clone over %s; %s" % (sorted(seen), meaning), "%s — %s no longer holds" % (why, meaning))
