"""C18 — vars() reports the variables in scope at the row just yielded."""
import re
from ..core import pan, terms, tab, ordrules
from ..core.facts import callee_name
from ..core.prog import canon, Prog
from . import panrules, c01
from .iter_rules import *

FM = "framed_map::FramedMap::"


def flatten_rule(chk, P):
    fl = P.body(FM + "flatten")
    if not chk.anchor("FramedMap::flatten", fl):
        return
    # what the scan walks over: the receiver of the loop's next() (a `for` loop and a `while let .. = it.next()` read alike)
    its = [[canon(x) for x in P.call_arg_terms(fl, bb)] for bb, t in fl.calls() if callee_name(t)[0].endswith("Iterator>::next")]
    chk.require(its == [["Iterator::rev([T]::iter(self.values))"]], "TAB", "TAB:flatten:reverse-scan", "for (k, v) in self.values.iter().rev()", "flatten iterates %s" % its)
    ins = [(bb, [canon(x) for x in P.call_arg_terms(fl, bb)]) for bb, t in fl.calls() if callee_name(t)[0] == "std::collections::HashMap::insert"]
    good = len(ins) == 1
    if good:
        g = panrules.guards_at(P, fl, ins[0][0])
        E = "some!(Iterator::next(Iterator::rev([T]::iter(self.values))))"
        good = any(x[0] == "call" and x[1] == "HashMap::contains_key" and x[3] is False and x[2][1] == E + ".0" for x in g) and ins[0][1][1] == "Clone::clone(%s.0)" % E and ins[0][1][2] == E + ".1"
    chk.require(good, "GUARD", "GUARD:flatten:first-occurrence-wins", "insert(key, value) only on the !contains_key(key) edge (innermost binding wins)", "flatten inserts %s" % ins)
    hb = [bb for bb, t in fl.calls() if callee_name(t)[0].endswith("Iterator>::next")]
    if chk.anchor("flatten loop header", len(hb) == 1):
        E = "some!(Iterator::next(Iterator::rev([T]::iter(self.values))))"
        N = "variant(Iterator::next(Iterator::rev([T]::iter(self.values))))"
        CK = "HashMap::contains_key(HashMap::new(), %s.0)" % E
        want = {(frozenset([(N, ("None",))]), (), "return"),
                (frozenset([(N, ("Some",)), (CK, True)]), (CK,), "back"),
                (frozenset([(N, ("Some",)), (CK, False)]), (CK, "Clone::clone(%s.0)" % E, "HashMap::insert(HashMap::new(), Clone::clone(%s.0), %s.1)" % (E, E)), "back")}
        rows = set(r for r in tab.iteration_table(P, fl, hb[0]) if r[2] != "unreachable")
        chk.require(rows == want, "TAB", "TAB:flatten:exact-iteration-table", "each trip: skip when the key is already present, else insert (key, value); the scan ends only when the entries are exhausted; nothing else touches the map",
                    "flatten's loop body behaves as %s" % sorted(rows, key=str))
    r = set(canon(P.sl(fl).ret(rb)) for rb in P.cfg(fl).return_blocks())
    chk.require(r == {"HashMap::new()"}, "ORG", "ORG:flatten:returns-the-built-map", "", "flatten returns %s" % r)


def run(chk, ctx):
    P = Prog(ctx["facts"])
    chk.explanation = ("C18 decided structurally: ORG (vars() -> EvalContext::vars -> FramedMap::flatten of the `vars` field, not alt_vars / outputs), TAB/GUARD (flatten scans innermost-first and keeps the first occurrence), "
                       "WHO (EvalContext::set is called only from the interpreter's let / counter sites; the frame operations only from the loop states), ORD (between the row's evaluation and the return of next() nothing can write the variable map: "
                       "the call closure of the expansion, the generators, handle_io and into_data_row contains no set/push_frame/pop_frame), PAIR (swap_vars is undone on every path, so the real map is the one reported). "
                       "The frame discipline (bindings of ended loops vanish) is C01's obligation 4 and FramedMap tables, both carried here.")
    chk.trusted = ["rustc MIR and callee resolution"]
    v = P.body(DRI + "vars")
    if chk.anchor("DataRowIterator::vars", v):
        r = set(canon(P.sl(v).ret(rb)) for rb in P.cfg(v).return_blocks())
        chk.require(r == {"EvalContext::vars(self.ctx)"}, "ORG", "ORG:vars:iterator-forwards", "self.ctx.vars()", "DataRowIterator::vars returns %s" % r)
    ev = P.body(EC + "vars")
    if chk.anchor("EvalContext::vars", ev):
        r = set(canon(P.sl(ev).ret(rb)) for rb in P.cfg(ev).return_blocks())
        chk.require(r == {"FramedMap::flatten(self.vars)"}, "ORG", "ORG:vars:context-flattens-vars-field", "self.vars.flatten()", "EvalContext::vars returns %s" % r)
    flatten_rule(chk, P)
    # who binds variables
    callers = sorted(set(b.name for b, bb, nm in P.callers(lambda n: n == EC + "set")))
    chk.require(callers == [c01.NWC], "WHO", "WHO:EvalContext::set-callers", "only the statement interpreter", "EvalContext::set called from %s" % callers)
    sites = [(bb, a) for bb, arm, eff, a in c01.ctx_effects(P, P.body(c01.NWC)) if eff == "set"] if P.body(c01.NWC) else []
    chk.floor("WHO", "EvalContext::set call sites", len(sites), 3)
    chk.require(len(sites) == 3, "WHO", "WHO:EvalContext::set-sites", "let, counter init, counter step", "%d call sites of EvalContext::set: %s" % (len(sites), [a for bb, a in sites]))
    for fn in (EC + "push_frame", EC + "pop_frame"):
        callers = sorted(set(b.name for b, bb, nm in P.callers(lambda n, fn=fn: n == fn)))
        chk.require(callers == [c01.NWC], "WHO", "WHO:%s-callers" % fn.split("::")[-1], "only the statement interpreter", "%s called from %s" % (fn, callers))
    # forwarding to the `vars` field
    for fn, callee, args in ((EC + "set", FM + "set", ["self.vars", "name", "value"]), (EC + "push_frame", FM + "push_frame", ["self.vars"]), (EC + "pop_frame", FM + "pop_frame", ["self.vars"])):
        b = P.body(fn)
        if chk.anchor(fn, b):
            cs = [(callee_name(t)[0], [canon(x) for x in P.call_arg_terms(b, bb)]) for bb, t in b.calls()]
            chk.require(cs == [(callee, args)], "ORG", "ORG:%s-forwards-to-vars" % fn.split("::")[-1], "%s(%s)" % (callee.split("::")[-1], ", ".join(args)), "%s calls %s" % (fn, cs))
    # nothing between evaluation and return writes the variable map
    writers = {EC + "set", EC + "push_frame", EC + "pop_frame"}
    tail = [TD + "expand_x", TD + "expand_c", TD + "check_changed_entries", TD + "generate_input_entries", TD + "generate_expected_entries", DRI + "handle_io", "data_row_iterator::EvaluatedRow::into_data_row"]
    bad = [fn for fn in tail if P.body(fn) is None or P.cg.reaches(fn, writers)]
    chk.require(not bad, "ORD", "ORD:no-variable-write-after-evaluation", "expansion, generators, handle_io and into_data_row cannot reach set/push_frame/pop_frame", "%s can reach a writer of the variable map (or is missing)" % bad)
    # get_row: the interpreter is the only callee that can write, and it runs only on the refill edge
    gr = P.body(TD + "get_row")
    if chk.anchor("get_row", gr):
        w = sorted(set(callee_name(t)[0] for bb, t in gr.calls() if callee_name(t)[0] in P.f.bodies and (P.cg.reaches(callee_name(t)[0], writers) or callee_name(t)[0] in writers)))
        chk.require(w == [c01.NWC], "ORD", "ORD:get_row:only-the-interpreter-writes", "next_with_context is the only callee of get_row that can bind variables", "callees of get_row that can write variables: %s" % w)
        for bb, t in gr.calls():
            if callee_name(t)[0] == c01.NWC:
                g = panrules.guards_at(P, gr, bb)
                chk.require(any(x[0] == "call" and x[1] == "Vec::is_empty" and x[2] == ("self.cache",) and x[3] is True for x in g), "GUARD", "GUARD:get_row:interpreter-runs-only-when-cache-empty", "cached expansion rows are served without running the interpreter", "next_with_context is not guarded by cache.is_empty()")
    swap_pair_rule(chk, P)
    # variables of ended loops are absent: the frame pairing of the interpreter (C01 obligation 4)
    nwc = P.body(c01.NWC)
    if nwc is not None:
        c01.frames_obligation(chk, c01.Automaton(P, nwc))
    # ... which makes "variables of loops that have ended are absent" true only if the map's own frame operations do what the
    # pairing assumes: push_frame records values.len(), pop_frame truncates to the popped mark, set searches the innermost frame
    # only, get is innermost-first (C01's FramedMap tables, carried: a push that records no mark for an empty map and a pop that
    # then truncates nothing each look harmless alone)
    c01.run(chk.only(("TAB:FramedMap", "WHO:FramedMap")), ctx)
    nx = P.body(NEXT)
    if nx is not None:
        others = [callee_name(t)[0] for bb, t in nx.calls() if callee_name(t)[0] in P.f.bodies and callee_name(t)[0] not in (TD + "get_row", DRI + "handle_io", "data_row_iterator::EvaluatedRow::into_data_row")]
        bad = [o for o in others if P.cg.reaches(o, writers)]
        chk.require(not bad, "ORD", "ORD:next:no-other-writer", "", "next() calls %s which can write variables" % bad)
