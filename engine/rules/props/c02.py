"""C02 — driver protocol: defaults first, then exactly one call per row, passed verbatim."""
import re
from ..core import pan, terms, tab, ordrules
from ..core.facts import callee_name
from ..core.prog import canon, Prog
from . import panrules
from .iter_rules import *


def run(chk, ctx):
    P = Prog(ctx["facts"])
    from .iter_rules import signal_api_rule
    signal_api_rule(chk, P)   # what an input / output / bidirectional signal with a default *is*
    chk.explanation = ("C02 is structural and every clause is decided on all paths: WHO (which public entry points reach a driver call, transitively), CNT (number of driver calls per path of try_new / next / handle_io, "
                       "split by the shape of the returned value, composed through callee summaries), GUARD (read-call iff update_output, write-call otherwise, with an empty output vector), "
                       "ORG (the argument of every driver call is the row's own input vector / the default vector, passed by reborrow only; the yielded DataRow.inputs is that same vector moved), "
                       "WHO-writes of update_output. A user override of write_input is user code; the rule fixes which method is invoked with what.")
    provided_write_input_rule(chk, P)
    # "nothing is sent once next() has returned None": the interpreter's end is final (shared with C01)
    from . import c01
    c01.end_is_final(chk, P)
    chk.trusted = ["rustc MIR construction and callee resolution (calls through the generic driver parameter stay trait-method calls)"]
    sites = driver_sites(P)
    where = sorted((b.name, nm) for b, bb, nm in sites)
    want = sorted([(DRI + "try_new", READ), (DRI + "handle_io", READ), (DRI + "handle_io", WRITE), ("TestDriver::write_input", READ)])
    chk.require(where == want, "WHO", "WHO:driver-call-sites", "4 call sites: try_new(read), handle_io(read|write), provided write_input(read)", "driver methods are called at %s" % where)
    chk.floor("WHO", "driver call sites", len(sites), 4)
    # which public entry points reach the driver
    reach = {}
    for b in P.f.hand_bodies():
        if b.reachable and b.kind in ("Fn", "AssocFn") and not b.is_promoted:
            if reaches_driver(P, b.name):
                reach[b.name] = True
    allowed = {"TestCase::try_iter", "TestCase::run_iter", NEXT, "TestDriver::write_input", "static_test::<impl TestCase>::try_iter_static", "<static_test::StaticDataRowIterator as std::iter::Iterator>::next"}
    extra = sorted(set(reach) - allowed)
    chk.require(not extra, "WHO", "WHO:entry-points-reaching-driver", "only the constructors, next() and the provided write_input reach a driver call: %s" % sorted(reach), "public entry points %s reach a driver call" % extra)
    for must in ("TestCase::try_iter", NEXT):
        chk.require(must in reach, "WHO", "WHO:%s-reaches-driver" % must.split("::")[-1], "reaches the driver", "%s no longer reaches any driver call" % must)
    # the row-evaluation half cannot reach the driver
    for fn in (TD + "get_row", TD + "extract_output_values", TD + "build_output_indices", "stmt::StmtIterator::next_with_context"):
        chk.require(P.body(fn) is not None and not reaches_driver(P, fn), "WHO", "WHO:%s-no-driver" % fn.split("::")[-1], "cannot reach a driver call", "%s can reach a driver call" % fn)
    adt = P.f.adts.get("data_row_iterator::DataRowIteratorTestData")
    chk.require(adt is not None and not any("T" == f["ty"] or "&mut T" in f["ty"] for f in adt["variants"][0]["fields"]), "WHO", "WHO:TestData-has-no-driver-field", "DataRowIteratorTestData holds no driver", "DataRowIteratorTestData has a driver-typed field")
    # CNT ------------------------------------------------------------------
    hio = P.body(DRI + "handle_io")
    tn = P.body(DRI + "try_new")
    nx = P.body(NEXT)
    if not (chk.anchor("handle_io", hio) and chk.anchor("try_new", tn) and chk.anchor("next", nx)):
        return
    g = count_range(P, hio, DRIVER, {})
    flat = set((lo, hi) for lo, hi in g.values())
    chk.require(flat == {(1, 1)}, "CNT", "CNT:handle_io:exactly-one-driver-call", "every path of handle_io makes exactly one driver call %s" % g, "handle_io makes %s driver calls per path (by result shape)" % g)
    # which call on which edge
    kinds = set()
    for pi in tab.paths(P, hio, to_return_only=True):
        upd = [d[2] for d in pi.decisions() if d[0] == "bool" and d[1] == "update_output"]
        calls = [nm for bb, nm, a in pi.calls() if nm in DRIVER]
        if upd:
            kinds.add((upd[0], tuple(calls)))
    chk.require(kinds == {(True, (READ,)), (False, (WRITE,))}, "GUARD", "GUARD:handle_io:read-iff-update_output", "update_output => read-call, else write-call", "handle_io: (update_output, calls) = %s" % sorted(kinds, key=str))
    # the write branch returns an empty vector
    outs = set()
    for pi in tab.paths(P, hio, to_return_only=True):
        upd = [d[2] for d in pi.decisions() if d[0] == "bool" and d[1] == "update_output"]
        if upd and upd[0] is False and ordrules.ret_shape(pi) == "Ok":
            r = terms.strip(pi.ret())
            outs.add(canon(r[3][0][1]))
    chk.require(outs == {"Vec::new()"}, "TAB", "TAB:handle_io:write-branch-empty-outputs", "Ok(vec![])", "the write-only branch returns %s" % outs)
    g = count_range(P, tn, DRIVER, {})
    chk.require(g.get("Ok") == [1, 1] and all(v[1] <= 1 for v in g.values()), "CNT", "CNT:try_new:exactly-one-read-call", "Ok paths make exactly one driver call, Err paths at most one: %s" % g, "try_new makes %s driver calls per path" % g)
    meth = [nm for b, bb, nm in sites if b is tn]
    chk.require(meth == [READ], "WHO", "WHO:try_new-uses-read-call", "constructor uses write_input_and_read_output", "constructor calls %s" % meth)
    g = count_range(P, nx, DRIVER, {DRI + "handle_io": (1, 1)})
    good = g.get("Some(Ok)") == [1, 1] and g.get("None", [0, 0]) == [0, 0] and all(v[1] <= 1 for v in g.values())
    chk.require(good, "CNT", "CNT:next:one-call-per-yielded-row", "Some(Ok): exactly 1, None: 0, Some(Err): <= 1 — %s" % g, "next() makes %s driver calls per path (by result shape)" % g)
    # next: callees other than get_row / handle_io / into_data_row cannot reach the driver
    others = [c for c in callees_in(P, nx) if c in P.f.bodies and c not in (TD + "get_row", DRI + "handle_io", "data_row_iterator::EvaluatedRow::into_data_row") and reaches_driver(P, c)]
    chk.require(not others, "WHO", "WHO:next-no-other-driver-path", "", "next() reaches the driver through %s" % others)
    # ORG: arguments ------------------------------------------------------------
    for b, bb, nm in sites:
        a = [canon(x) for x in P.call_arg_terms(b, bb)]
        if b is hio:
            chk.require(a == ["self.driver", "inputs"], "ORG", "ORG:handle_io:%s-args" % nm.split("::")[-1], "driver.%s(inputs) — reborrow of the parameter" % nm.split("::")[-1], "driver call receives %s" % a, "%s:%d" % (b.file, b.term(bb)["span"]["line"]))
        elif b is tn:
            chk.require(a == ["driver", "DataRowIteratorTestData::generate_default_input_entries(DataRowIteratorTestData::new(test_case))"], "ORG", "ORG:try_new:default-vector", "driver.read(generate_default_input_entries())", "constructor call receives %s" % a)
        elif b.name == "TestDriver::write_input":
            chk.require(a == ["self", "inputs"], "ORG", "ORG:provided-write_input-forwards", "forwards its own inputs", "provided write_input passes %s" % a)
    # next: handle_io(&row.inputs, row.update_output) of the row that into_data_row consumes
    for bb, t in nx.calls():
        nm = callee_name(t)[0]
        a = [canon(x) for x in P.call_arg_terms(nx, bb)]
        if nm == DRI + "handle_io":
            row = "some!(try(DataRowIteratorTestData::get_row(self.test_data, self.ctx)))"
            alt = "try(ok!(DataRowIteratorTestData::get_row(self.test_data, self.ctx)))"
            ok = len(a) == 3 and re.fullmatch(r"(.*)\.inputs", a[1]) and a[2] == a[1][:-len(".inputs")] + ".update_output" and "get_row(self.test_data, self.ctx)" in a[1]
            chk.require(bool(ok), "ORG", "ORG:next:handle_io-gets-this-rows-inputs", "handle_io(&row.inputs, row.update_output) with row from this call's get_row", "handle_io receives %s" % a)
            rowsrc = a[1][:-len(".inputs")] if ok else None
        if nm == "data_row_iterator::EvaluatedRow::into_data_row":
            ok2 = "get_row(self.test_data, self.ctx)" in a[0] and "handle_io" in a[1]
            chk.require(ok2, "ORG", "ORG:next:into_data_row-consumes-same-row", "row.into_data_row(outputs of this row's handle_io)", "into_data_row receives %s" % a)
    # no &mut borrow of row.inputs in next
    idr = P.body("data_row_iterator::EvaluatedRow::into_data_row")
    if idr is not None:
        for (cb, bb, i, st) in P.constructors("DataRow"):
            if cb is idr:
                t = P.sl(cb).rvalue(st["rv"], bb, i)
                f = {k: canon(v) for k, v in t[3]}
                chk.require(f.get("inputs") == "self.inputs" and f.get("line") == "self.line", "ORG", "ORG:into_data_row:inputs-moved", "DataRow{inputs: self.inputs, line: self.line}", "DataRow built with inputs=%s line=%s" % (f.get("inputs"), f.get("line")))
    w = [(x[0].name, x[3]) for x in P.field_writers("data_row_iterator::EvaluatedRow", "inputs")]
    chk.require(not w, "WHO", "WHO:EvaluatedRow.inputs-unwritten", "no writer / &mut borrow after construction", "EvaluatedRow.inputs is written/borrowed mutably in %s" % w)
    # default vector: one entry per input index, default value, changed false
    gd = P.body(TD + "generate_default_input_entries")
    if gd is not None:
        r = set(canon(P.sl(gd).ret(rb)) for rb in P.cfg(gd).return_blocks())
        chk.require(r == {"Iterator::collect(Iterator::map([T]::iter(self.input_indices), closure({closure#0})))"}, "ORG", "ORG:default-vector:pipeline", "input_indices.iter().map(..).collect()", "generate_default_input_entries returns %s" % r)
        for cl in P.f.closures_of(gd.name):
            rr = set(canon(P.resolve(cl, P.sl(cl).ret(rb))) for rb in P.cfg(cl).return_blocks())
            want = {"InputEntry{signal: self.signals[EntryIndex::signal_index(elem([T]::iter(self.input_indices)))], value: Option::unwrap(Signal::default_value(self.signals[EntryIndex::signal_index(elem([T]::iter(self.input_indices)))])), changed: 0}"}
            chk.require(rr == want, "ORG", "ORG:default-vector:entry", "InputEntry{signal, default_value, changed: false}", "default entry is %s" % rr)
    # update_output is false only where expand_c sets it
    w = sorted(set((x[0].name, x[3]) for x in P.field_writers("stmt::DataEntries", "update_output")))
    chk.require(w == [(TD + "expand_c", "assign")], "WHO", "WHO:update_output-writers", "only expand_c assigns update_output after construction", "update_output written at %s" % w)
    ecb = P.body(TD + "expand_c")
    if ecb is not None:
        assigned = set()
        for bb in sorted(ecb.reachable_blocks()):
            for i, st in enumerate(ecb.blocks[bb]["stmts"]):
                if st["s"] == "assign" and any(isinstance(e, dict) and e.get("f") == "update_output" for e in st["lhs"]["p"]):
                    assigned.add(canon(P.sl(ecb).rvalue(st["rv"], bb, i)))
        # the clearing assignment is unconditional for the two mid-clock rows: it lies after the first
        # push of the triple (the checked row, popped last) and dominates the second and third push
        cfgc = P.cfg(ecb)
        pos = {bb: i for i, bb in enumerate(cfgc.rpo())}
        pushes = sorted((bb for bb, t in ecb.calls() if callee_name(t)[0] == "std::vec::Vec::push" and canon(P.call_arg_terms(ecb, bb)[0]) == "self.cache"), key=lambda x: pos[x])
        abl = [bb for bb in sorted(ecb.reachable_blocks()) for st in ecb.blocks[bb]["stmts"] if st["s"] == "assign" and any(isinstance(e, dict) and e.get("f") == "update_output" for e in st["lhs"]["p"])]
        good = len(pushes) == 4 and len(abl) == 1
        if good:
            A_ = abl[0]
            p_back, p1, p2, p3 = pushes
            good = cfgc.dominates(p1, A_) and cfgc.dominates(A_, p2) and cfgc.dominates(A_, p3) and not cfgc.dominates(A_, p1)
        chk.require(good, "ORD", "ORD:expand_c:mid-clock-rows-always-unchecked", "update_output := false after the first push of the triple and dominating the second and third", "the assignment update_output := false does not dominate both mid-clock pushes (pushes %s, assignment blocks %s)" % (pushes, abl))
        chk.require(assigned == {"0"}, "WHO", "WHO:update_output-only-cleared", "expand_c only ever sets update_output to false (for the two mid-clock rows)", "expand_c assigns update_output %s" % sorted(assigned))
    vals = set()
    for (cb, bb, i, st) in P.constructors("stmt::DataEntries"):
        t = P.sl(cb).rvalue(st["rv"], bb, i)
        vals.add((cb.name, canon(dict(t[3]).get("update_output", ("unknown", "")))))
    chk.require(vals == {("stmt::StmtIterator::next_with_context", "1")}, "WHO", "WHO:update_output-initially-true", "rows are built by the interpreter with update_output: true", "DataEntries built with update_output %s" % sorted(vals))
    chk.sample({"driver_call_sites": where, "next_counts": {k: v for k, v in g.items()}})
