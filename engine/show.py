#!/usr/bin/env python3
"""Development aid: print extracted MIR of bodies whose name contains a substring."""
import sys, os
sys.path.insert(0, os.path.dirname(os.path.abspath(__file__)))
from rules.core import facts, pp
f = facts.load(os.environ.get("REPO", "/repo"), os.environ.get("CFG", "dev"))
if len(sys.argv) < 2:
    for b in f.all_bodies:
        if not b.derived: print(b.name)
else:
    for b in f.all_bodies:
        if sys.argv[1] in b.name and (not b.derived or "--derived" in sys.argv):
            print(pp.body(b)); print()
