// mirx: a deliberately dumb fact extractor.  It serialises what rustc knows
// about the crate under analysis (MIR bodies with resolved callees, ADT tables,
// the expanded-AST attributes of `#[derive(Logos)]` enums, HIR trees of consts)
// into one JSON file.  It contains no property logic.
#![feature(rustc_private)]
#![allow(clippy::all)]

extern crate rustc_abi;
extern crate rustc_ast;
extern crate rustc_driver;
extern crate rustc_hir;
extern crate rustc_interface;
extern crate rustc_middle;
extern crate rustc_span;

mod json;

use json::J;
use rustc_driver::Compilation;
use rustc_hir::def::DefKind;
use rustc_hir::def_id::{DefId, LOCAL_CRATE};
use rustc_middle::mir::{
    self, AggregateKind, AssertKind, BasicBlockData, Body, Const, Operand, Place, ProjectionElem,
    Rvalue, StatementKind, TerminatorKind,
};
use rustc_middle::ty::print::with_no_trimmed_paths;
use rustc_middle::ty::{self, Instance, Ty, TyCtxt, TypingEnv};
use rustc_span::Span;

struct Cb {
    target: String,
    out: Option<String>,
    logos: Vec<J>,
}

fn s(x: impl Into<String>) -> J {
    J::S(x.into())
}

fn o(v: Vec<(&str, J)>) -> J {
    J::O(v.into_iter().map(|(k, v)| (k.to_string(), v)).collect())
}

fn dbg<T: std::fmt::Debug>(t: &T) -> String {
    with_no_trimmed_paths!(format!("{:?}", t))
}

fn ty_s<'tcx>(t: Ty<'tcx>) -> String {
    with_no_trimmed_paths!(format!("{}", t))
}

fn path_s(tcx: TyCtxt<'_>, d: DefId) -> String {
    with_no_trimmed_paths!(tcx.def_path_str(d))
}

fn span_j(tcx: TyCtxt<'_>, sp: Span) -> J {
    let sm = tcx.sess.source_map();
    let cs = sp.source_callsite();
    let lo = sm.lookup_char_pos(cs.lo());
    let hi = sm.lookup_char_pos(cs.hi());
    let file = match &lo.file.name {
        rustc_span::FileName::Real(r) => match r.local_path() {
            Some(p) => p.to_string_lossy().to_string(),
            None => format!("{:?}", r),
        },
        other => format!("{:?}", other),
    };
    let mut macros = vec![];
    if sp.from_expansion() {
        for e in sp.macro_backtrace() {
            macros.push(s(format!("{}", e.kind.descr())));
        }
    }
    let mut v = vec![
        ("file", s(file)),
        ("line", J::I(lo.line as i128)),
        ("col", J::I(lo.col.0 as i128 + 1)),
        ("eline", J::I(hi.line as i128)),
    ];
    if sp.from_expansion() {
        v.push(("exp", J::B(true)));
        v.push(("macros", J::A(macros)));
    }
    o(v)
}

fn adt_variants_j<'tcx>(tcx: TyCtxt<'tcx>, adt: ty::AdtDef<'tcx>) -> J {
    let mut vs = vec![];
    if adt.is_enum() {
        for (idx, d) in adt.discriminants(tcx) {
            let v = adt.variant(idx);
            vs.push(o(vec![
                ("name", s(v.name.to_string())),
                ("idx", J::I(idx.as_u32() as i128)),
                ("discr", J::I(d.val as i128)),
            ]));
        }
    }
    J::A(vs)
}

struct Dumper<'a, 'tcx> {
    tcx: TyCtxt<'tcx>,
    body: &'a Body<'tcx>,
    owner: DefId,
}

impl<'a, 'tcx> Dumper<'a, 'tcx> {
    fn place(&self, p: &Place<'tcx>) -> J {
        let tcx = self.tcx;
        let mut proj = vec![];
        for (base, elem) in p.as_ref().iter_projections() {
            let bty = base.ty(&self.body.local_decls, tcx);
            let e = match elem {
                ProjectionElem::Deref => s("*"),
                ProjectionElem::Field(f, fty) => {
                    let mut name = format!("{}", f.as_u32());
                    let mut owner = String::new();
                    if let ty::Adt(adt, _) = bty.ty.kind() {
                        let vidx = bty.variant_index.unwrap_or(rustc_abi::FIRST_VARIANT);
                        if adt.variants().len() > vidx.as_usize() {
                            let vd = adt.variant(vidx);
                            if let Some(fd) = vd.fields.get(f) {
                                name = fd.name.to_string();
                            }
                            owner = if adt.is_enum() {
                                format!("{}::{}", path_s(tcx, adt.did()), vd.name)
                            } else {
                                path_s(tcx, adt.did())
                            };
                        }
                    }
                    o(vec![
                        ("f", s(name)),
                        ("i", J::I(f.as_u32() as i128)),
                        ("of", s(owner)),
                        ("ty", s(ty_s(fty))),
                    ])
                }
                ProjectionElem::Index(l) => o(vec![("idx", J::I(l.as_u32() as i128))]),
                ProjectionElem::ConstantIndex { offset, min_length, from_end } => o(vec![
                    ("cidx", J::I(offset as i128)),
                    ("min", J::I(min_length as i128)),
                    ("from_end", J::B(from_end)),
                ]),
                ProjectionElem::Subslice { from, to, from_end } => o(vec![
                    ("sub", J::I(from as i128)),
                    ("to", J::I(to as i128)),
                    ("from_end", J::B(from_end)),
                ]),
                ProjectionElem::Downcast(name, vidx) => {
                    let mut n = name.map(|x| x.to_string()).unwrap_or_default();
                    if n.is_empty() {
                        if let ty::Adt(adt, _) = bty.ty.kind() {
                            n = adt.variant(vidx).name.to_string();
                        }
                    }
                    o(vec![("dc", s(n)), ("vi", J::I(vidx.as_u32() as i128))])
                }
                ProjectionElem::OpaqueCast(_) => s("opaque"),
                ProjectionElem::UnwrapUnsafeBinder(_) => s("unwrap_binder"),
            };
            proj.push(e);
        }
        let pty = p.ty(&self.body.local_decls, tcx).ty;
        o(vec![
            ("l", J::I(p.local.as_u32() as i128)),
            ("p", J::A(proj)),
            ("ty", s(ty_s(pty))),
        ])
    }

    fn fn_def(&self, did: DefId, args: ty::GenericArgsRef<'tcx>) -> Vec<(&'static str, J)> {
        let tcx = self.tcx;
        let mut v = vec![("fn", s(path_s(tcx, did)))];
        v.push((
            "fn_args",
            J::A(args.iter().map(|a| s(dbg(&a))).collect()),
        ));
        v.push(("fn_full", s(with_no_trimmed_paths!(tcx.def_path_str_with_args(did, args)))));
        if let Some(tr) = tcx.trait_of_assoc(did) {
            v.push(("trait", s(path_s(tcx, tr))));
            v.push(("method", s(tcx.item_name(did).to_string())));
            if args.len() > 0 {
                if let Some(t) = args[0].as_type() {
                    v.push(("self_ty", s(ty_s(t))));
                }
            }
        }
        if let Some(im) = tcx.impl_of_assoc(did) {
            let st = tcx.type_of(im).instantiate_identity().skip_norm_wip();
            v.push(("impl_self", s(ty_s(st))));
        }
        v.push(("local", J::B(did.is_local())));
        // resolution
        let env = TypingEnv::post_analysis(tcx, self.owner);
        if let Ok(Some(inst)) = Instance::try_resolve(tcx, env, did, args) {
            let rd = inst.def_id();
            v.push(("res", s(path_s(tcx, rd))));
            v.push(("res_local", J::B(rd.is_local())));
            v.push(("res_kind", s(format!("{:?}", std::mem::discriminant(&inst.def)))));
            let kind = match inst.def {
                ty::InstanceKind::Item(_) => "item",
                ty::InstanceKind::Virtual(..) => "virtual",
                ty::InstanceKind::Intrinsic(_) => "intrinsic",
                ty::InstanceKind::FnPtrShim(..) => "fnptr_shim",
                ty::InstanceKind::ClosureOnceShim { .. } => "closure_once_shim",
                ty::InstanceKind::DropGlue(..) => "drop_glue",
                ty::InstanceKind::CloneShim(..) => "clone_shim",
                ty::InstanceKind::ReifyShim(..) => "reify_shim",
                _ => "other",
            };
            v.push(("res_k", s(kind)));
            v.push((
                "res_args",
                J::A(inst.args.iter().map(|a| s(dbg(&a))).collect()),
            ));
        }
        v
    }

    fn constant(&self, c: &mir::ConstOperand<'tcx>) -> J {
        let tcx = self.tcx;
        let cty = c.const_.ty();
        let mut v: Vec<(&str, J)> = vec![("k", s("const")), ("ty", s(ty_s(cty))), ("v", s(dbg(&c.const_)))];
        match cty.kind() {
            ty::FnDef(did, args) => {
                v.extend(self.fn_def(*did, args));
            }
            _ => {}
        }
        let env = TypingEnv::post_analysis(tcx, self.owner);
        match c.const_ {
            Const::Unevaluated(uv, _) => {
                v.push(("uneval", s(path_s(tcx, uv.def))));
                if let Some(p) = uv.promoted {
                    v.push(("promoted", J::I(p.as_u32() as i128)));
                }
            }
            _ => {}
        }
        if cty.is_integral() || cty.is_bool() || cty.is_char() {
            if let Some(si) = c.const_.try_eval_scalar_int(tcx, env) {
                let size = si.size();
                let bits = si.to_bits(size);
                let val: i128 = if cty.is_signed() {
                    size.sign_extend(bits) as i128
                } else {
                    bits as i128
                };
                v.push(("int", J::I(val)));
            }
        }
        if let ty::Ref(_, inner, _) = cty.kind() {
            if inner.is_str() {
                if let Const::Val(cv, _) = c.const_ {
                    if let Some(bytes) = cv.try_get_slice_bytes_for_diagnostics(tcx) {
                        v.push(("str", s(String::from_utf8_lossy(bytes).to_string())));
                    }
                }
            }
        }
        o(v)
    }

    fn operand(&self, op: &Operand<'tcx>) -> J {
        match op {
            Operand::Copy(p) => {
                let mut v = vec![("k".to_string(), s("copy"))];
                if let J::O(pv) = self.place(p) {
                    v.extend(pv);
                }
                J::O(v)
            }
            Operand::Move(p) => {
                let mut v = vec![("k".to_string(), s("move"))];
                if let J::O(pv) = self.place(p) {
                    v.extend(pv);
                }
                J::O(v)
            }
            Operand::Constant(c) => self.constant(c),
            other => o(vec![("k", s("other")), ("v", s(dbg(other)))]),
        }
    }

    fn rvalue(&self, rv: &Rvalue<'tcx>) -> J {
        let tcx = self.tcx;
        match rv {
            Rvalue::Use(op, ..) => o(vec![("r", s("use")), ("a", self.operand(op))]),
            Rvalue::Repeat(op, n) => o(vec![
                ("r", s("repeat")),
                ("a", self.operand(op)),
                ("n", s(dbg(n))),
            ]),
            Rvalue::Ref(_, bk, p) => o(vec![
                ("r", s("ref")),
                ("bk", s(match bk {
                    mir::BorrowKind::Shared => "shared",
                    mir::BorrowKind::Fake(_) => "fake",
                    mir::BorrowKind::Mut { .. } => "mut",
                })),
                ("a", self.place(p)),
            ]),
            Rvalue::ThreadLocalRef(d) => o(vec![("r", s("tls")), ("d", s(path_s(tcx, *d)))]),
            Rvalue::RawPtr(k, p) => o(vec![
                ("r", s("rawptr")),
                ("bk", s(dbg(k))),
                ("a", self.place(p)),
            ]),
            Rvalue::Cast(k, op, t) => o(vec![
                ("r", s("cast")),
                ("ck", s(dbg(k))),
                ("a", self.operand(op)),
                ("to", s(ty_s(*t))),
            ]),
            Rvalue::BinaryOp(bop, ab) => o(vec![
                ("r", s("bin")),
                ("op", s(dbg(bop))),
                ("a", self.operand(&ab.0)),
                ("b", self.operand(&ab.1)),
            ]),
            Rvalue::UnaryOp(uop, a) => o(vec![
                ("r", s("un")),
                ("op", s(dbg(uop))),
                ("a", self.operand(a)),
            ]),
            Rvalue::Discriminant(p) => {
                let pty = p.ty(&self.body.local_decls, tcx).ty;
                let mut v = vec![("r", s("discr")), ("a", self.place(p))];
                if let ty::Adt(adt, _) = pty.kind() {
                    v.push(("enum", s(path_s(tcx, adt.did()))));
                    v.push(("variants", adt_variants_j(tcx, *adt)));
                }
                o(v)
            }
            Rvalue::Aggregate(kind, ops) => {
                let mut v = vec![("r", s("agg"))];
                match &**kind {
                    AggregateKind::Array(t) => {
                        v.push(("ak", s("array")));
                        v.push(("ety", s(ty_s(*t))));
                    }
                    AggregateKind::Tuple => v.push(("ak", s("tuple"))),
                    AggregateKind::Adt(did, vidx, _args, _, _) => {
                        v.push(("ak", s("adt")));
                        let adt = tcx.adt_def(*did);
                        v.push(("adt", s(path_s(tcx, *did))));
                        let vd = adt.variant(*vidx);
                        v.push(("variant", s(vd.name.to_string())));
                        v.push(("is_enum", J::B(adt.is_enum())));
                        v.push((
                            "fields",
                            J::A(vd.fields.iter().map(|f| s(f.name.to_string())).collect()),
                        ));
                    }
                    AggregateKind::Closure(did, _) => {
                        v.push(("ak", s("closure")));
                        v.push(("closure", s(path_s(tcx, *did))));
                    }
                    other => {
                        v.push(("ak", s("other")));
                        v.push(("v", s(dbg(other))));
                    }
                }
                v.push(("ops", J::A(ops.iter().map(|x| self.operand(x)).collect())));
                o(v)
            }
            Rvalue::CopyForDeref(p) => o(vec![("r", s("copy_for_deref")), ("a", self.place(p))]),
            other => o(vec![("r", s("other")), ("v", s(dbg(other)))]),
        }
    }

    fn assert_kind(&self, m: &AssertKind<Operand<'tcx>>) -> J {
        match m {
            AssertKind::BoundsCheck { len, index } => o(vec![
                ("ak", s("BoundsCheck")),
                ("len", self.operand(len)),
                ("index", self.operand(index)),
            ]),
            AssertKind::Overflow(op, a, b) => o(vec![
                ("ak", s("Overflow")),
                ("op", s(dbg(op))),
                ("a", self.operand(a)),
                ("b", self.operand(b)),
            ]),
            AssertKind::OverflowNeg(a) => o(vec![("ak", s("OverflowNeg")), ("a", self.operand(a))]),
            AssertKind::DivisionByZero(a) => {
                o(vec![("ak", s("DivisionByZero")), ("a", self.operand(a))])
            }
            AssertKind::RemainderByZero(a) => {
                o(vec![("ak", s("RemainderByZero")), ("a", self.operand(a))])
            }
            AssertKind::MisalignedPointerDereference { .. } => o(vec![("ak", s("UB:Misaligned"))]),
            AssertKind::NullPointerDereference => o(vec![("ak", s("UB:Null"))]),
            AssertKind::InvalidEnumConstruction(_) => o(vec![("ak", s("UB:InvalidEnum"))]),
            other => o(vec![("ak", s("Other")), ("v", s(dbg(other)))]),
        }
    }

    fn block(&self, bb: &BasicBlockData<'tcx>) -> J {
        let tcx = self.tcx;
        let mut stmts = vec![];
        for st in &bb.statements {
            let j = match &st.kind {
                StatementKind::Assign(b) => {
                    let (p, rv) = &**b;
                    let mut v = vec![("s", s("assign")), ("lhs", self.place(p)), ("rv", self.rvalue(rv))];
                    v.push(("span", span_j(tcx, st.source_info.span)));
                    Some(o(v))
                }
                StatementKind::SetDiscriminant { place, variant_index } => Some(o(vec![
                    ("s", s("setdiscr")),
                    ("lhs", self.place(place)),
                    ("vi", J::I(variant_index.as_u32() as i128)),
                ])),
                StatementKind::Intrinsic(i) => Some(o(vec![("s", s("intrinsic")), ("v", s(dbg(i)))])),
                StatementKind::StorageLive(_)
                | StatementKind::StorageDead(_)
                | StatementKind::Nop
                | StatementKind::FakeRead(_)
                | StatementKind::PlaceMention(_)
                | StatementKind::AscribeUserType(..)
                | StatementKind::Coverage(_)
                | StatementKind::ConstEvalCounter
                | StatementKind::BackwardIncompatibleDropHint { .. } => None,
            };
            if let Some(j) = j {
                stmts.push(j);
            }
        }
        let term = bb.terminator();
        let tspan = span_j(tcx, term.source_info.span);
        let unwind_j = |u: &mir::UnwindAction| match u {
            mir::UnwindAction::Cleanup(b) => J::I(b.as_u32() as i128),
            _ => J::Null,
        };
        let t = match &term.kind {
            TerminatorKind::Goto { target } => {
                o(vec![("t", s("goto")), ("target", J::I(target.as_u32() as i128))])
            }
            TerminatorKind::SwitchInt { discr, targets } => {
                let mut ts = vec![];
                for (val, bb) in targets.iter() {
                    ts.push(J::A(vec![J::I(val as i128), J::I(bb.as_u32() as i128)]));
                }
                o(vec![
                    ("t", s("switch")),
                    ("discr", self.operand(discr)),
                    ("dty", s(ty_s(discr.ty(&self.body.local_decls, tcx)))),
                    ("targets", J::A(ts)),
                    ("otherwise", J::I(targets.otherwise().as_u32() as i128)),
                ])
            }
            TerminatorKind::UnwindResume => o(vec![("t", s("resume"))]),
            TerminatorKind::UnwindTerminate(_) => o(vec![("t", s("terminate"))]),
            TerminatorKind::Return => o(vec![("t", s("return"))]),
            TerminatorKind::Unreachable => o(vec![("t", s("unreachable"))]),
            TerminatorKind::Drop { place, target, unwind, .. } => o(vec![
                ("t", s("drop")),
                ("place", self.place(place)),
                ("target", J::I(target.as_u32() as i128)),
                ("unwind", unwind_j(unwind)),
            ]),
            TerminatorKind::Call { func, args, destination, target, unwind, fn_span, call_source } => {
                let mut v = vec![("t", s("call"))];
                v.push(("func", self.operand(func)));
                v.push(("args", J::A(args.iter().map(|a| self.operand(&a.node)).collect())));
                v.push(("dest", self.place(destination)));
                v.push((
                    "target",
                    match target {
                        Some(b) => J::I(b.as_u32() as i128),
                        None => J::Null,
                    },
                ));
                v.push(("unwind", unwind_j(unwind)));
                v.push(("fn_span", span_j(tcx, *fn_span)));
                v.push(("src", s(dbg(call_source))));
                o(v)
            }
            TerminatorKind::Assert { cond, expected, msg, target, unwind } => o(vec![
                ("t", s("assert")),
                ("cond", self.operand(cond)),
                ("expected", J::B(*expected)),
                ("msg", self.assert_kind(msg)),
                ("target", J::I(target.as_u32() as i128)),
                ("unwind", unwind_j(unwind)),
            ]),
            TerminatorKind::FalseEdge { real_target, .. } => {
                o(vec![("t", s("goto")), ("target", J::I(real_target.as_u32() as i128))])
            }
            TerminatorKind::FalseUnwind { real_target, .. } => {
                o(vec![("t", s("goto")), ("target", J::I(real_target.as_u32() as i128))])
            }
            other => o(vec![("t", s("other")), ("v", s(dbg(other)))]),
        };
        let mut tv = match t {
            J::O(v) => v,
            _ => unreachable!(),
        };
        tv.push(("span".to_string(), tspan));
        o(vec![
            ("cleanup", J::B(bb.is_cleanup)),
            ("stmts", J::A(stmts)),
            ("term", J::O(tv)),
        ])
    }
}

fn dump_body<'tcx>(tcx: TyCtxt<'tcx>, did: DefId, body: &Body<'tcx>, suffix: &str) -> J {
    let d = Dumper { tcx, body, owner: did };
    let kind = tcx.def_kind(did);
    let mut v: Vec<(&str, J)> = vec![];
    v.push(("name", s(format!("{}{}", path_s(tcx, did), suffix))));
    v.push(("kind", s(format!("{:?}", kind))));
    v.push(("span", span_j(tcx, body.span)));
    let raw_span = tcx.def_span(did);
    v.push(("def_exp", J::B(raw_span.from_expansion())));
    if raw_span.from_expansion() {
        v.push(("def_exp_kind", s(format!("{}", raw_span.ctxt().outer_expn_data().kind.descr()))));
    }
    if matches!(kind, DefKind::Closure) {
        let p = tcx.typeck_root_def_id(did);
        v.push(("root", s(path_s(tcx, p))));
        v.push(("parent", s(path_s(tcx, tcx.parent(did)))));
    }
    if matches!(kind, DefKind::Fn | DefKind::AssocFn) {
        if let Some(ld) = did.as_local() {
            let ev = tcx.effective_visibilities(());
            v.push(("reachable", J::B(ev.is_reachable(ld))));
            v.push(("vis_pub", J::B(tcx.visibility(did).is_public())));
        }
        if let Some(im) = tcx.impl_of_assoc(did) {
            let st = tcx.type_of(im).instantiate_identity().skip_norm_wip();
            v.push(("impl_self", s(ty_s(st))));
            if let Some(tr) = tcx.impl_opt_trait_ref(im) {
                let tr = tr.instantiate_identity().skip_norm_wip();
                v.push(("impl_trait", s(path_s(tcx, tr.def_id))));
            }
        }
        if let Some(tr) = tcx.trait_of_assoc(did) {
            v.push(("of_trait", s(path_s(tcx, tr))));
        }
        let g = tcx.generics_of(did);
        v.push(("n_generics", J::I(g.count() as i128)));
    }
    v.push(("arg_count", J::I(body.arg_count as i128)));
    let mut locals = vec![];
    for (_i, ld) in body.local_decls.iter_enumerated() {
        let mut lv = vec![("ty", s(ty_s(ld.ty)))];
        if let Some(adt) = ld.ty.peel_refs().ty_adt_def() {
            lv.push(("adt", s(path_s(tcx, adt.did()))));
        }
        lv.push(("mut", J::B(ld.mutability.is_mut())));
        locals.push(o(lv));
    }
    v.push(("locals", J::A(locals)));
    let mut dbgv = vec![];
    for vdi in &body.var_debug_info {
        if let mir::VarDebugInfoContents::Place(p) = &vdi.value {
            dbgv.push(o(vec![
                ("name", s(vdi.name.to_string())),
                ("place", d.place(p)),
                ("arg", match vdi.argument_index { Some(i) => J::I(i as i128), None => J::Null }),
            ]));
        }
    }
    v.push(("debug", J::A(dbgv)));
    let mut blocks = vec![];
    for (_bb, data) in body.basic_blocks.iter_enumerated() {
        blocks.push(d.block(data));
    }
    v.push(("blocks", J::A(blocks)));
    o(v)
}

fn dump_adts<'tcx>(tcx: TyCtxt<'tcx>) -> J {
    let mut out = vec![];
    for id in tcx.hir_free_items() {
        let did = id.owner_id.to_def_id();
        let kind = tcx.def_kind(did);
        if !matches!(kind, DefKind::Struct | DefKind::Enum | DefKind::Union) {
            continue;
        }
        let adt = tcx.adt_def(did);
        let mut vs = vec![];
        for (vidx, vd) in adt.variants().iter_enumerated() {
            let mut fs = vec![];
            for f in vd.fields.iter() {
                let fty = tcx.type_of(f.did).instantiate_identity().skip_norm_wip();
                fs.push(o(vec![
                    ("name", s(f.name.to_string())),
                    ("ty", s(ty_s(fty))),
                    ("pub", J::B(f.vis.is_public())),
                    ("vis", s(dbg(&f.vis))),
                ]));
            }
            let discr = if adt.is_enum() {
                J::I(adt.discriminant_for_variant(tcx, vidx).val as i128)
            } else {
                J::Null
            };
            vs.push(o(vec![
                ("name", s(vd.name.to_string())),
                ("discr", discr),
                ("fields", J::A(fs)),
            ]));
        }
        let t = tcx.type_of(did).instantiate_identity().skip_norm_wip();
        let env = TypingEnv::post_analysis(tcx, did);
        let freeze = t.is_freeze(tcx, env);
        let ev = tcx.effective_visibilities(());
        let reach = did.as_local().map(|l| ev.is_reachable(l)).unwrap_or(false);
        out.push(o(vec![
            ("name", s(path_s(tcx, did))),
            ("kind", s(format!("{:?}", kind))),
            ("freeze", J::B(freeze)),
            ("reachable", J::B(reach)),
            ("n_generics", J::I(tcx.generics_of(did).count() as i128)),
            ("variants", J::A(vs)),
            ("span", span_j(tcx, tcx.def_span(did))),
        ]));
    }
    J::A(out)
}

fn dump_items<'tcx>(tcx: TyCtxt<'tcx>) -> J {
    // statics, consts, thread-locals, impls: an inventory of items.
    let mut out = vec![];
    for id in tcx.hir_free_items() {
        let did = id.owner_id.to_def_id();
        let kind = tcx.def_kind(did);
        let item = tcx.hir_item(id);
        let mut v = vec![
            ("name", s(path_s(tcx, did))),
            ("kind", s(format!("{:?}", kind))),
            ("span", span_j(tcx, item.span)),
            ("exp", J::B(item.span.from_expansion())),
        ];
        match kind {
            DefKind::Static { .. } => {
                let t = tcx.type_of(did).instantiate_identity().skip_norm_wip();
                let env = TypingEnv::post_analysis(tcx, did);
                v.push(("ty", s(ty_s(t))));
                v.push(("freeze", J::B(t.is_freeze(tcx, env))));
                v.push(("mutable", J::B(tcx.is_mutable_static(did))));
                v.push(("thread_local", J::B(tcx.is_thread_local_static(did))));
            }
            DefKind::Const { .. } => {
                let t = tcx.type_of(did).instantiate_identity().skip_norm_wip();
                v.push(("ty", s(ty_s(t))));
                if let Some(ld) = did.as_local() {
                    if let Some(body) = tcx.hir_maybe_body_owned_by(ld) {
                        v.push(("hir", hir_expr(tcx, ld, body.value)));
                    }
                }
            }
            DefKind::Impl { .. } => {
                let st = tcx.type_of(did).instantiate_identity().skip_norm_wip();
                v.push(("self_ty", s(ty_s(st))));
                if let Some(tr) = tcx.impl_opt_trait_ref(did) {
                    let tr = tr.instantiate_identity().skip_norm_wip();
                    v.push(("trait", s(path_s(tcx, tr.def_id))));
                }
                let mut items = vec![];
                for it in tcx.associated_item_def_ids(did) {
                    items.push(s(path_s(tcx, *it)));
                }
                v.push(("items", J::A(items)));
            }
            _ => {}
        }
        out.push(o(v));
    }
    J::A(out)
}

fn hir_expr<'tcx>(tcx: TyCtxt<'tcx>, owner: rustc_hir::def_id::LocalDefId, e: &rustc_hir::Expr<'tcx>) -> J {
    use rustc_hir::ExprKind as K;
    let tr = tcx.typeck(owner);
    match &e.kind {
        K::Struct(qp, fields, _) => {
            let res = tr.qpath_res(qp, e.hir_id);
            let p = res.opt_def_id().map(|d| path_s(tcx, d)).unwrap_or_default();
            let fs = fields
                .iter()
                .map(|f| (f.ident.name.to_string(), hir_expr(tcx, owner, f.expr)))
                .collect();
            o(vec![("h", s("struct")), ("path", s(p)), ("fields", J::O(fs))])
        }
        K::Array(es) => o(vec![
            ("h", s("array")),
            ("elems", J::A(es.iter().map(|x| hir_expr(tcx, owner, x)).collect())),
        ]),
        K::Tup(es) => o(vec![
            ("h", s("tuple")),
            ("elems", J::A(es.iter().map(|x| hir_expr(tcx, owner, x)).collect())),
        ]),
        K::AddrOf(_, _, inner) => o(vec![("h", s("addr_of")), ("e", hir_expr(tcx, owner, inner))]),
        K::Lit(l) => match l.node {
            rustc_ast::LitKind::Str(sym, _) => o(vec![("h", s("str")), ("v", s(sym.to_string()))]),
            rustc_ast::LitKind::Int(n, _) => o(vec![("h", s("int")), ("v", J::I(n.get() as i128))]),
            rustc_ast::LitKind::Bool(b) => o(vec![("h", s("bool")), ("v", J::B(b))]),
            _ => o(vec![("h", s("lit")), ("v", s(format!("{:?}", l.node)))]),
        },
        K::Path(qp) => {
            let res = tr.qpath_res(qp, e.hir_id);
            let p = res.opt_def_id().map(|d| path_s(tcx, d)).unwrap_or_default();
            o(vec![("h", s("path")), ("path", s(p))])
        }
        K::Call(f, args) => o(vec![
            ("h", s("call")),
            ("f", hir_expr(tcx, owner, f)),
            ("args", J::A(args.iter().map(|x| hir_expr(tcx, owner, x)).collect())),
        ]),
        K::Block(b, _) => match b.expr {
            Some(x) if b.stmts.is_empty() => hir_expr(tcx, owner, x),
            _ => o(vec![("h", s("block"))]),
        },
        K::Cast(inner, _) | K::DropTemps(inner) | K::Use(inner, _) => hir_expr(tcx, owner, inner),
        _ => o(vec![("h", s("other"))]),
    }
}

// ---- expanded AST: attributes of enums deriving Logos -------------------

fn meta_item_j(mi: &rustc_ast::MetaItemInner) -> J {
    if let Some(l) = mi.lit() {
        return match l.kind {
            rustc_ast::LitKind::Str(sym, style) => o(vec![
                ("m", s("str")),
                ("v", s(sym.to_string())),
                ("raw", J::B(matches!(style, rustc_ast::StrStyle::Raw(_)))),
            ]),
            _ => o(vec![("m", s("lit")), ("v", s(format!("{:?}", l.kind)))]),
        };
    }
    if let Some(m) = mi.meta_item() {
        let p = m
            .path
            .segments
            .iter()
            .map(|sg| sg.ident.name.to_string())
            .collect::<Vec<_>>()
            .join("::");
        let mut v = vec![("m", s("path")), ("path", s(p))];
        if let Some(vs) = m.value_str() {
            v.push(("value", s(vs.to_string())));
        }
        if let Some(list) = m.meta_item_list() {
            v.push(("list", J::A(list.iter().map(meta_item_j).collect())));
        }
        return o(v);
    }
    o(vec![("m", s("other"))])
}

fn walk_ast_items(items: &[Box<rustc_ast::Item>], modpath: &str, out: &mut Vec<J>) {
    use rustc_ast::{ItemKind, ModKind};
    for it in items {
        match &it.kind {
            ItemKind::Mod(_, ident, ModKind::Loaded(inner, ..)) => {
                let p = format!("{}::{}", modpath, ident.name);
                walk_ast_items(inner, &p, out);
            }
            ItemKind::Enum(ident, _, def) => {
                let mut vs = vec![];
                let mut any = false;
                for v in &def.variants {
                    let mut attrs = vec![];
                    for a in v.attrs.iter() {
                        let name = a.name().map(|n| n.to_string()).unwrap_or_default();
                        if name == "token" || name == "regex" || name == "error" || name == "end" {
                            any = true;
                            let list = a
                                .meta_item_list()
                                .map(|l| l.iter().map(meta_item_j).collect::<Vec<_>>())
                                .unwrap_or_default();
                            attrs.push(o(vec![("attr", s(name)), ("args", J::A(list))]));
                        }
                    }
                    vs.push(o(vec![
                        ("name", s(v.ident.name.to_string())),
                        ("attrs", J::A(attrs)),
                    ]));
                }
                let mut eattrs = vec![];
                for a in it.attrs.iter() {
                    let name = a.name().map(|n| n.to_string()).unwrap_or_default();
                    if name == "logos" {
                        any = true;
                        let list = a
                            .meta_item_list()
                            .map(|l| l.iter().map(meta_item_j).collect::<Vec<_>>())
                            .unwrap_or_default();
                        eattrs.push(o(vec![("attr", s(name)), ("args", J::A(list))]));
                    }
                }
                if any {
                    out.push(o(vec![
                        ("enum", s(format!("{}::{}", modpath, ident.name))),
                        ("attrs", J::A(eattrs)),
                        ("variants", J::A(vs)),
                    ]));
                }
            }
            _ => {}
        }
    }
}

impl rustc_driver::Callbacks for Cb {
    fn after_expansion<'tcx>(
        &mut self,
        _compiler: &rustc_interface::interface::Compiler,
        tcx: TyCtxt<'tcx>,
    ) -> Compilation {
        let name = tcx.crate_name(LOCAL_CRATE).to_string();
        if name != self.target || self.out.is_none() {
            return Compilation::Continue;
        }
        let r = tcx.resolver_for_lowering().borrow();
        let krate = &r.1;
        let mut out = vec![];
        walk_ast_items(&krate.items, &name, &mut out);
        self.logos = out;
        Compilation::Continue
    }

    fn after_analysis<'tcx>(
        &mut self,
        _compiler: &rustc_interface::interface::Compiler,
        tcx: TyCtxt<'tcx>,
    ) -> Compilation {
        let name = tcx.crate_name(LOCAL_CRATE).to_string();
        if name != self.target {
            return Compilation::Continue;
        }
        let Some(out) = self.out.clone() else {
            return Compilation::Continue;
        };
        // skip non-lib targets of the same name unless asked otherwise
        let mut bodies = vec![];
        for ld in tcx.mir_keys(()) {
            let did = ld.to_def_id();
            let kind = tcx.def_kind(did);
            match kind {
                DefKind::Fn | DefKind::AssocFn | DefKind::Closure => {
                    if tcx.is_constructor(did) {
                        continue;
                    }
                    let body = tcx.optimized_mir(did);
                    bodies.push(dump_body(tcx, did, body, ""));
                    let proms = tcx.promoted_mir(did);
                    for (pi, pb) in proms.iter_enumerated() {
                        bodies.push(dump_body(tcx, did, pb, &format!("::promoted[{}]", pi.as_u32())));
                    }
                }
                DefKind::Const { .. } | DefKind::Static { .. } | DefKind::AssocConst { .. } => {
                    let body = tcx.mir_for_ctfe(did);
                    bodies.push(dump_body(tcx, did, body, ""));
                    let proms = tcx.promoted_mir(did);
                    for (pi, pb) in proms.iter_enumerated() {
                        bodies.push(dump_body(tcx, did, pb, &format!("::promoted[{}]", pi.as_u32())));
                    }
                }
                _ => {}
            }
        }
        let sess = tcx.sess;
        let cfg = o(vec![
            ("crate", s(name.clone())),
            ("overflow_checks", J::B(sess.overflow_checks())),
            ("debug_assertions", J::B(sess.opts.debug_assertions)),
            ("mir_opt_level", J::I(sess.mir_opt_level() as i128)),
            ("test", J::B(sess.is_test_crate())),
            ("crate_types", s(format!("{:?}", tcx.crate_types()))),
        ]);
        let facts = o(vec![
            ("config", cfg),
            ("adts", dump_adts(tcx)),
            ("items", dump_items(tcx)),
            ("logos", J::A(std::mem::take(&mut self.logos))),
            ("bodies", J::A(bodies)),
        ]);
        let mut buf = String::new();
        facts.write(&mut buf);
        // one write per process
        std::fs::write(&out, buf).expect("mirx: cannot write fact file");
        Compilation::Continue
    }
}

fn main() {
    let mut args: Vec<String> = std::env::args().collect();
    // RUSTC_WORKSPACE_WRAPPER mode: argv[1] is the path of the real rustc.
    if args.len() > 1 && (args[1].ends_with("rustc") || args[1].contains("/rustc")) {
        args.remove(1);
    }
    let target = std::env::var("MIRX_CRATE").unwrap_or_else(|_| "digital_test_runner".into());
    let out = std::env::var("MIRX_OUT").ok();
    let mut cb = Cb { target, out, logos: vec![] };
    rustc_driver::run_compiler(&args, &mut cb);
}
