#!/usr/bin/env python3
"""./check driver: loads the facts of /repo's current working tree and runs one property module."""
import argparse
import importlib
import json
import os
import sys
import traceback

sys.path.insert(0, os.path.dirname(os.path.abspath(__file__)))
from rules.core import facts, report  # noqa: E402


WITNESS_PROPS = {"C02": "C02", "C10": "C10", "C15": "C15"}


def thorough(chk, prop, mod, repo):
    """Thorough tier = quick + (1) the same rules on a second extraction with overflow checks and
    debug assertions off (release semantics), (2) the compile-fail witnesses with their compiling
    twins, (3) the self-test corpus of this property (mutants must be reported, benign refactors
    must stay silent) on scratch copies outside /repo and /verif."""
    import re
    import shutil
    import subprocess
    import tempfile
    here = os.path.dirname(os.path.dirname(os.path.abspath(__file__)))
    # (1) release configuration
    f2 = facts.load(repo, "rel")
    chk2 = report.Check(prop, "thorough", chk.seed)
    mod.run(chk2, {"facts": f2, "tier": "thorough", "repo": repo, "replay": None})
    for o in chk2.obligations:
        o = dict(o)
        o["id"] = "rel:" + o["id"]
        chk.obligations.append(o)
    for v in chk2.violations:
        v = dict(v)
        v["key"] = "rel:" + v["key"]
        v["msg"] = "[release configuration] " + v["msg"]
        chk.violations.append(v)
    chk.analysed["release_config"] = {"build_config": f2.config, "rule_instances": len(chk2.obligations), "violations": len(chk2.violations)}
    if "_pan_index" in chk.extra:
        from rules.props import pancheck
        pancheck.clippy_crosscheck(chk, repo)
    # (2) witnesses
    if prop in WITNESS_PROPS:
        wdir = os.path.join(here, "witness")
        shutil.copy(os.path.join(repo, "Cargo.lock"), os.path.join(wdir, "Cargo.lock"))
        toml = open(os.path.join(wdir, "Cargo.toml")).read()
        env = dict(os.environ, CARGO_TARGET_DIR=os.path.join(here, ".cache", "witness-target"), CARGO_NET_OFFLINE="true")
        tmp_toml = None
        if repo != "/repo":
            # witnesses name the crate through a path dependency: point it at the tree under analysis
            tdir = tempfile.mkdtemp(prefix="witness-")
            shutil.copytree(os.path.join(wdir, "src"), os.path.join(tdir, "src"))
            open(os.path.join(tdir, "Cargo.toml"), "w").write(toml.replace('path = "/repo"', 'path = "%s"' % repo))
            shutil.copy(os.path.join(repo, "Cargo.lock"), os.path.join(tdir, "Cargo.lock"))
            wdir, tmp_toml = tdir, tdir
        p = subprocess.run(["cargo", "+nightly", "test", "--doc", "--offline"], cwd=wdir, env=env, stdout=subprocess.PIPE, stderr=subprocess.STDOUT, text=True)
        if tmp_toml:
            shutil.rmtree(tmp_toml, ignore_errors=True)
        tests = re.findall(r"^test src/lib\.rs - (\w+) \(line (\d+)\)( - compile fail| - compile)? \.\.\. (\w+)", p.stdout, re.M)
        mine = [t for t in tests if t[0].startswith(WITNESS_PROPS[prop])]
        if not mine:
            chk.fail("CF", "CF:%s:witnesses-ran" % prop, "the witness doc-tests did not run: %s" % p.stdout[-400:])
        ordn = {}
        for name, line, cf, res in mine:
            ordn[name] = ordn.get(name, 0) + 1
            kind = "compile_fail" if cf.strip() == "- compile fail" else "twin"
            chk.require(res == "ok", "CF", "CF:%s:%s#%d" % (name, kind, ordn[name]), "%s witness holds" % kind, "witness %s (%s) no longer behaves as expected: %s" % (name, kind, res), "witness/src/lib.rs:%s" % line)
    # (3) self-test corpus
    corpus = os.path.join(here, "selftest", "corpus.json")
    if os.path.exists(corpus):
        import json as _json
        cases = [c for c in _json.load(open(corpus)) if prop in c["props"]]
        scratch = tempfile.mkdtemp(prefix="verif-selftest-%s-" % prop)
        det = sil = 0
        try:
            for c in cases:
                dst = os.path.join(scratch, "tree")
                shutil.rmtree(dst, ignore_errors=True)
                os.makedirs(dst)
                for item in ("src", "Cargo.toml", "Cargo.lock"):
                    s_ = os.path.join(repo, item)
                    if os.path.isdir(s_):
                        shutil.copytree(s_, os.path.join(dst, item))
                    else:
                        shutil.copy(s_, dst)
                applies = True
                for e in c["edits"]:
                    fp = os.path.join(dst, e["file"])
                    src = open(fp).read()
                    if src.count(e["old"]) != 1:
                        applies = False
                        break
                    open(fp, "w").write(src.replace(e["old"], e["new"]))
                if not applies:
                    # the corpus is written against the unchanged tree; on an edited tree a case may not apply
                    chk.ok("SELFTEST", "selftest:%s:not-applicable-to-this-tree" % c["name"], "edit does not apply uniquely", nontrivial=False)
                    continue
                envc = dict(os.environ, VERIF_REPO=dst, VERIF_EVIDENCE_DIR=os.path.join(scratch, "evidence"), VERIF_TIER="quick")
                r = subprocess.run([os.path.join(here, "check"), prop, "--tier", "quick"], env=envc, stdout=subprocess.PIPE, stderr=subprocess.STDOUT, text=True)
                want = 0 if c.get("benign") else 1
                if c.get("benign"):
                    sil += (r.returncode == 0)
                else:
                    det += (r.returncode == 1)
                # a self-test mismatch is a defect of the checker, reported on stderr and in the evidence, not a property violation
                if r.returncode != want:
                    sys.stderr.write("self-test mismatch for %s on %s: rc=%d, expected %d\n" % (prop, c["name"], r.returncode, want))
                chk.extra.setdefault("selftest_cases", []).append({"name": c["name"], "benign": bool(c.get("benign")), "rc": r.returncode, "as_expected": r.returncode == want})
        finally:
            shutil.rmtree(scratch, ignore_errors=True)
        chk.extra["selftest"] = {"mutants": len([c for c in cases if not c.get("benign")]), "mutants_reported": det, "benign_refactors": len([c for c in cases if c.get("benign")]), "benign_silent": sil}
    # (4) the seeded changes written by independent sub-agents for this property (seeded/<id>/patch.diff):
    #     applied to a scratch copy outside /repo and /verif, the property's quick check must report them
    sdir = os.path.join(here, "seeded")
    if os.path.isdir(sdir):
        import json as _json
        scratch = tempfile.mkdtemp(prefix="verif-seeded-%s-" % prop)
        res = []
        try:
            for sid in sorted(os.listdir(sdir)):
                mp = os.path.join(sdir, sid, "meta.json")
                pp = os.path.join(sdir, sid, "patch.diff")
                if not (os.path.exists(mp) and os.path.exists(pp)):
                    continue
                meta = _json.load(open(mp))
                if meta.get("property") != prop:
                    continue
                dst = os.path.join(scratch, "tree")
                shutil.rmtree(dst, ignore_errors=True)
                os.makedirs(dst)
                for item in ("src", "Cargo.toml", "Cargo.lock"):
                    s_ = os.path.join(repo, item)
                    if os.path.isdir(s_):
                        shutil.copytree(s_, os.path.join(dst, item))
                    else:
                        shutil.copy(s_, dst)
                a_ = subprocess.run(["git", "apply", "--unsafe-paths", "--directory", dst, pp], cwd="/", stdout=subprocess.PIPE, stderr=subprocess.STDOUT, text=True)
                if a_.returncode != 0:
                    a_ = subprocess.run(["patch", "-p1", "-s", "-d", dst, "-i", pp], stdout=subprocess.PIPE, stderr=subprocess.STDOUT, text=True)
                if a_.returncode != 0:
                    res.append({"seed": sid, "applies": False})
                    continue
                envc = dict(os.environ, VERIF_REPO=dst, VERIF_EVIDENCE_DIR=os.path.join(scratch, "evidence"), VERIF_TIER="quick")
                r = subprocess.run([os.path.join(here, "check"), prop, "--tier", "quick"], env=envc, stdout=subprocess.PIPE, stderr=subprocess.STDOUT, text=True)
                keys = [l.strip()[len("violation "):][:160] for l in r.stdout.splitlines() if l.strip().startswith("violation [")]
                res.append({"seed": sid, "applies": True, "reported": r.returncode == 1, "by": keys[:3]})
                if r.returncode != 1:
                    sys.stderr.write("seeded change %s is not reported by %s (rc=%d)\n" % (sid, prop, r.returncode))
        finally:
            shutil.rmtree(scratch, ignore_errors=True)
        chk.extra["seeded_changes"] = res


def main():
    ap = argparse.ArgumentParser()
    ap.add_argument("prop")
    ap.add_argument("--tier", default=os.environ.get("VERIF_TIER", "quick"))
    ap.add_argument("--replay", default=None)
    ap.add_argument("--repo", default=os.environ.get("VERIF_REPO", "/repo"))
    a = ap.parse_args()
    if a.tier not in ("quick", "thorough"):
        a.tier = "quick"
    seed = int(os.environ.get("VERIF_SEED", "0") or 0)
    prop = a.prop.upper()
    try:
        mod = importlib.import_module("rules.props.%s" % prop.lower())
    except ImportError as e:
        sys.stderr.write("no check module for %s: %s\n" % (prop, e))
        return 2
    try:
        f = facts.load(a.repo, "dev")
        chk = report.Check(prop, a.tier, seed)
        ctx = {"facts": f, "tier": a.tier, "repo": a.repo, "replay": None}
        if a.replay:
            with open(a.replay) as fh:
                ctx["replay"] = json.load(fh)
        try:
            mod.run(chk, ctx)
        except facts.InfraError:
            raise
        except Exception as e:
            # a rule met a construct it has no case for (an argument list of another length, a term of another shape):
            # the structure the property rests on is not the one that was confirmed -> fail closed, naming the rule
            tb = traceback.extract_tb(e.__traceback__)
            inner = [fr for fr in tb if "/rules/" in fr.filename] or list(tb)
            where = inner[-1]
            rule_fn = next((fr.name for fr in reversed(inner) if fr.name.endswith("_rule") or fr.name.endswith("_rules") or fr.name.startswith("lemma_")), where.name)
            chk.fail("FAILCLOSED", "unrecognised-structure:%s:%s" % (rule_fn, type(e).__name__),
                     "rule `%s` (%s:%d, `%s`) cannot read the code it is anchored in any more (%s: %s); the shape it was confirmed on has changed, so the obligation is not discharged"
                     % (rule_fn, os.path.basename(where.filename), where.lineno, (where.line or "").strip()[:120], type(e).__name__, str(e)[:160]))
        try:
            # every function whose return value a rule of this property read: the value returned is the value built
            from rules.core import terms as _terms
            from rules.core.prog import Prog as _Prog
            from rules.props import retmut as _retmut
            _retmut.rule(chk, _Prog(f), set(_terms.RET_QUERIED))
        except facts.InfraError:
            raise
        if f.aliases:
            chk.analysed["parameter_aliases"] = ["%s: `%s` read as `%s` (renamed parameter, same position and type)" % x for x in f.aliases]
        if f.field_aliases:
            chk.analysed["field_aliases"] = ["%s read as `%s` (renamed field: same position and type)" % x for x in f.field_aliases]
        if f.function_aliases:
            chk.analysed["function_aliases"] = ["%s read as %s (renamed: same module/impl, same signature, unique)" % x for x in f.function_aliases]
        if getattr(f, "literal_consts", None):
            chk.analysed["literal_constants_folded"] = ["%s = %r" % (k, v) for k, v in sorted(f.literal_consts.items())]
        if getattr(f, "inlined_helpers", None):
            chk.analysed["inlined_helpers"] = ["%s read at its call site(s) in %s (a function the reference tree does not have: private, non-recursive, not used as a value)" % (n, ", ".join(cs)) for n, cs in f.inlined_helpers]
        if f.closure_aliases:
            chk.analysed["closure_aliases"] = ["%s read as %s (renumbered: reference closures embed uniquely by use signature)" % x for x in f.closure_aliases]
        if a.tier == "thorough" and not a.replay:
            thorough(chk, prop, mod, a.repo)
        rc = chk.finish(f)
        if a.replay:
            want = set(v["key"] for v in ctx["replay"].get("violations", []))
            got = set(v["key"] for v in chk.violations)
            print("replay: %d of %d recorded violation(s) reproduced" % (len(want & got), len(want)))
        return rc
    except facts.InfraError as e:
        sys.stderr.write("check infrastructure error: %s\n" % e)
        return 2
    except Exception:
        traceback.print_exc()
        return 2


if __name__ == "__main__":
    sys.exit(main())
