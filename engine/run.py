#!/usr/bin/env python3
"""./check driver: loads the facts of /repo's current working tree and runs one property module."""
import argparse
import importlib
import json
import os
import sys
import traceback

sys.path.insert(0, os.path.dirname(os.path.abspath(__file__)))
from rules.core import facts, report  # noqa: E402


def main():
    ap = argparse.ArgumentParser()
    ap.add_argument("prop")
    ap.add_argument("--tier", default=os.environ.get("VERIF_TIER", "quick"))
    ap.add_argument("--replay", default=None)
    ap.add_argument("--repo", default=os.environ.get("VERIF_REPO", "/repo"))
    a = ap.parse_args()
    if a.tier not in ("quick", "thorough"):
        a.tier = "quick"
    seed = int(os.environ.get("VERIF_SEED", "0") or 0)
    prop = a.prop.upper()
    try:
        mod = importlib.import_module("rules.props.%s" % prop.lower())
    except ImportError as e:
        sys.stderr.write("no check module for %s: %s\n" % (prop, e))
        return 2
    try:
        f = facts.load(a.repo, "dev")
        chk = report.Check(prop, a.tier, seed)
        ctx = {"facts": f, "tier": a.tier, "repo": a.repo, "replay": None}
        if a.replay:
            with open(a.replay) as fh:
                ctx["replay"] = json.load(fh)
        mod.run(chk, ctx)
        rc = chk.finish(f)
        if a.replay:
            want = set(v["key"] for v in ctx["replay"].get("violations", []))
            got = set(v["key"] for v in chk.violations)
            print("replay: %d of %d recorded violation(s) reproduced" % (len(want & got), len(want)))
        return rc
    except facts.InfraError as e:
        sys.stderr.write("check infrastructure error: %s\n" % e)
        return 2
    except Exception:
        traceback.print_exc()
        return 2


if __name__ == "__main__":
    sys.exit(main())
