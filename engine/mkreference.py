#!/usr/bin/env python3
"""Regenerate engine/reference_names.json from /repo's current tree: per hand-written function, its
parameter names and types by position.  The rule texts are written against these names; the loader
uses the table only to alias a *renamed* parameter back to the name used in the rules (see
Facts._apply_reference_names).  Run after changing rule texts to follow a rename; never at check time."""
import json, os, sys
sys.path.insert(0, os.path.dirname(os.path.abspath(__file__)))
from rules.core import facts
repo = sys.argv[1] if len(sys.argv) > 1 else "/repo"
ref_path = os.path.join(os.path.dirname(os.path.abspath(__file__)), "reference_names.json")
if os.path.exists(ref_path):
    os.rename(ref_path, ref_path + ".old")
F = facts.load(repo, "dev")
out = {}
for b in F.all_bodies:
    if b.derived or b.kind == "Closure" or b.is_promoted or b.arg_count == 0:
        continue
    if b.file.startswith("src/") and ("/tests" in b.file or b.file.endswith("tests.rs")):
        continue
    out[b.name] = [[b.debug_names.get(i + 1), b.locals[i + 1]["ty"]] for i in range(b.arg_count)]
clos = {}
for depth in range(0, 3):
    for parent, lst in facts.closure_signatures(F.j["bodies"], depth).items():
        clos[parent] = [e[1] for e in lst]
funs = facts.function_signatures(F.j["bodies"])
json.dump({"_comment": "parameter names (by position), closure use signatures (by closure number) and function signatures of the reference tree; aliases only, see engine/rules/core/facts.py", "params": out, "closures": clos, "functions": funs, "fields": facts.adt_fields(F.j["adts"])}, open(ref_path, "w"), indent=0, sort_keys=True)
if os.path.exists(ref_path + ".old"):
    os.remove(ref_path + ".old")
print("%d functions" % len(out))
