//! Compile-fail witnesses (type-level remainder of C02, C10, C15), each paired with a
//! compiling twin that differs only in the offending line, so that a witness whose
//! paths are merely wrong cannot pass.  Run with `cargo +nightly test --doc`
//! (the error codes are only checked on nightly).
use digital_test_runner::{ParsedTestCase, Signal, TestCase};

/// A small bound test case used by the witnesses.
pub fn test_case() -> TestCase {
    let parsed: ParsedTestCase = "A B\n0 0\n1 1\n".parse().unwrap();
    parsed
        .with_signals(vec![Signal::input("A", 1, 0), Signal::output("B", 1)])
        .unwrap()
}

/// C15: while an iterator borrows the test case it cannot be mutated (shared borrow).
/// ```compile_fail,E0502
/// let mut tc = witness::test_case();
/// let mut d = digital_test_runner::static_test::Driver;
/// let it = tc.try_iter(&mut d).unwrap();
/// tc.signals.clear();
/// drop(it);
/// ```
/// Twin: after the iterator is dropped the same statement compiles.
/// ```no_run
/// let mut tc = witness::test_case();
/// let mut d = digital_test_runner::static_test::Driver;
/// let it = tc.try_iter(&mut d).unwrap();
/// drop(it);
/// tc.signals.clear();
/// ```
pub struct C15SharedBorrow;

/// C02: while an iterator is alive the driver is exclusively borrowed: the caller cannot
/// interleave its own calls (or a second iterator on the same driver).
/// ```compile_fail,E0499
/// let tc = witness::test_case();
/// let mut d = digital_test_runner::static_test::Driver;
/// let it = tc.try_iter(&mut d).unwrap();
/// let it2 = tc.try_iter(&mut d);
/// drop(it);
/// ```
/// Twin: sequential use compiles.
/// ```no_run
/// let tc = witness::test_case();
/// let mut d = digital_test_runner::static_test::Driver;
/// let it = tc.try_iter(&mut d).unwrap();
/// drop(it);
/// let it2 = tc.try_iter(&mut d);
/// ```
pub struct C02ExclusiveDriver;

/// C10: the index tables the panic-freedom lemmas rest on are private.
/// ```compile_fail,E0616
/// let tc = witness::test_case();
/// let n = tc.input_indices.len();
/// ```
/// ```compile_fail,E0616
/// let tc = witness::test_case();
/// let n = tc.read_outputs.len();
/// ```
/// Twin: the public field is accessible.
/// ```no_run
/// let tc = witness::test_case();
/// let n = tc.signals.len();
/// assert_eq!(n, 2);
/// ```
pub struct C10PrivateIndexTables;

/// C15: two iterators over one test case coexist (shared borrow only) — positive witness.
/// ```no_run
/// let tc = witness::test_case();
/// let mut a = tc.try_iter_static().unwrap();
/// let mut b = tc.try_iter_static().unwrap();
/// let ra = a.next().unwrap().unwrap();
/// let rb = b.next().unwrap().unwrap();
/// assert_eq!(ra, rb);
/// ```
pub struct C15TwoIterators;

/// C10: the static driver's error type is uninhabited — positive witness (`match e {}`).
/// ```no_run
/// fn absurd(e: digital_test_runner::errors::NoError) -> ! { match e {} }
/// let _ = absurd as fn(_) -> !;
/// ```
pub struct C10NoErrorUninhabited;
